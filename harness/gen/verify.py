"""C08 — generators for the direct oracle on the generated Python SDK.

* ``c08_profile`` / ``make_metamodel``: a meta-model of the shared generator (mmgen) enriched
  with invariants that exercise every parenthesisation context of python/transpilation.py
  (right-nested subtraction, ``==`` between boolean sub-expressions, implications with
  conjunction / disjunction / implication antecedents, negated disjunctions, three-operand
  ``or`` starting with ``not``, quantifiers over lists and ranges with index arithmetic,
  constant indices that raise on short lists) and with awkward descriptions (long enough to
  be wrapped into several literals, articles, double blanks, quotes, backslashes, non-ASCII).
* ``gen_instances``: instance descriptions (JSON) with boundary values: integers and
  lengths are drawn from the constants of the invariants +-1, strings from samples of the
  patterns and their one-edit mutations, ``None`` only where Optional.
* ``sample_pattern`` / ``pattern_strings``: strings for a regular expression (members, near
  misses, line breaks).

Everything is deterministic in the ``rng`` passed in. Pure standard library.
"""
from __future__ import annotations

import dataclasses
import random
from typing import Any, Dict, List, Optional, Sequence, Set, Tuple

try:  # Python >= 3.11
    import re._parser as sre_parse  # type: ignore
except ImportError:  # pragma: no cover
    import sre_parse  # type: ignore

from harness.gen import metamodel as mmg
from harness.gen.metamodel import (
    Add, All, And, AnyOf, Call, Cmp, Const, ForEach, ForRange, Implies, Index, IsNone,
    IsNotNone, Member, Name, Not, Or, Sub, TList, TOpt, TOur, TPrim,
)

SELF = Name("self")

AWKWARD_DESCRIPTIONS = (
    "The value of the property shall be consistent with a lot of other values, and an "
    "item of the list shall never exceed the bound that is given by the other property",
    "An  answer with  double  blanks and the the repeated articles a an the",
    'It says "quoted" and \'single\' and ends with a quote "',
    "It has a back\\slash, C:\\temp\\new and a trailing backslash \\",
    "Umlauts \u00e4\u00f6\u00fc, an emoji \U0001F600 and a CJK \u4e2d\u6587 text that is long "
    "enough to be wrapped around the line width of the generator",
    "It has {curly} {{double}} braces, %s and $x placeholders",
    "word " * 30 + "end",
    "x" * 130,
    "a an the a an the a an the a an the a an the a an the a an the a an the a an the",
    "Tab\there and a non-breaking\u00a0blank and a line separator-free text",
)


def c08_profile(base: str = "small") -> mmg.Profile:
    return dataclasses.replace(
        mmg.PROFILES[base], name=f"c08_{base}", p_list_non_class=0.45, props_per_class=(1, 5),
        invariants_per_class=(1, 3), p_method=0.0, transpilable_fns=(1, 2), impl_fns=(0, 1),
        p_len_on_bytes=0.3,
    )


# ---------------------------------------------------------------------------------------
# typed atoms over the stacked properties of a class
# ---------------------------------------------------------------------------------------
def _prim_of(mm: mmg.MetaModel, t: Any) -> Optional[str]:
    if isinstance(t, TPrim):
        return t.name
    if isinstance(t, TOur):
        return mmg.cprim_constrainee(mm, t.name)
    return None


class _Atoms:
    """Typed building blocks for one class (or one constrained primitive)."""

    def __init__(self, mm: mmg.MetaModel, rng: random.Random, props: Sequence[mmg.Property]):
        self.mm, self.rng = mm, rng
        self.ints: List[Tuple[Any, List[Any]]] = []    # (expression, optional values needed)
        self.bools: List[Tuple[Any, List[Any]]] = []
        self.int_lists: List[Tuple[Any, List[Any]]] = []
        self.lists: List[Tuple[Any, List[Any], Any]] = []
        self.opts: List[Any] = []
        for p in props:
            me = Member(SELF, p.name)
            need = [me] if isinstance(p.type, TOpt) else []
            inner = mmg.beneath_optional(p.type)
            if isinstance(p.type, TOpt):
                self.opts.append(me)
            prim = _prim_of(mm, inner)
            if prim == "int":
                if isinstance(inner, TPrim):   # arithmetic is not defined on constrained primitives
                    self.ints.append((me, need))
                self.bools.append((Cmp(rng.choice(mmg.CMP_OPS), me, Const(rng.randint(-2, 6))), need))
            elif prim == "str":
                self.ints.append((Call("len", (me,)), need))
                self.bools.append((Cmp(rng.choice(mmg.CMP_OPS), Call("len", (me,)), Const(rng.randint(0, 6))), need))
            elif inner == TPrim("bool"):
                self.bools.append((me, need))
            elif isinstance(inner, TOur) and mm.find_enum(inner.name) and mm.find_enum(inner.name).literals:
                en = mm.find_enum(inner.name)
                lit = rng.choice(en.literals).name
                self.bools.append((Cmp(rng.choice(["==", "!="]), me, Member(Name(en.name), lit)), need))
            elif isinstance(inner, TList) and not isinstance(inner.items, (TList, TOpt)):
                self.ints.append((Call("len", (me,)), need))
                self.lists.append((me, need, inner.items))
                if _prim_of(mm, inner.items) == "int":
                    self.int_lists.append((me, need))
        self.nulls = [(rng.choice([IsNone, IsNotNone])(o), o) for o in self.opts]

    def pick_bools(self, k: int) -> Optional[Tuple[List[Any], List[Any]]]:
        """k boolean atoms; a nullness test of an optional value never meets another use of the
        same value in one invariant (the front end narrows after the first test and then
        rejects a second one)."""
        if len(self.bools) + len(self.nulls) < 2:
            return None
        exprs: List[Any] = []
        needs: List[Any] = []
        tested: List[Any] = []
        for _ in range(k):
            for _attempt in range(8):
                if self.nulls and (not self.bools or self.rng.random() < 0.35):
                    e, o = self.rng.choice(self.nulls)
                    if o in tested or o in needs:
                        continue
                    tested.append(o)
                    exprs.append(e)
                    break
                if self.bools:
                    e, ns = self.rng.choice(self.bools)
                    if any(n in tested for n in ns):
                        continue
                    for n in ns:
                        if n not in needs:
                            needs.append(n)
                    exprs.append(e)
                    break
            else:
                return None
        return exprs, needs

    def pick_ints(self, k: int) -> Optional[Tuple[List[Any], List[Any]]]:
        if not self.ints:
            return None
        picks = []
        for _ in range(k):
            if self.rng.random() < 0.25:
                picks.append((Const(self.rng.randint(-3, 9)), []))
            else:
                picks.append(self.rng.choice(self.ints))
        needs: List[Any] = []
        for _, ns in picks:
            for n in ns:
                if n not in needs:
                    needs.append(n)
        return [e for e, _ in picks], needs


def _guard(rng: random.Random, needs: Sequence[Any], body: Any) -> Any:
    if not needs:
        return body
    ante = IsNotNone(needs[0]) if len(needs) == 1 else And(tuple(IsNotNone(n) for n in needs))
    if rng.random() < 0.6:
        return Implies(ante, body)
    return Or(tuple([*(IsNone(n) for n in needs), body]))


EXTRA_FORMS = (
    "sub_right_nested", "add_sub_cmp", "bool_eq", "impl_and_ante", "impl_or_ante", "impl_impl_ante",
    "impl_nested_cons", "not_or", "not_impl", "or_in_and", "and_in_or3", "or3_not_first",
    "all_impl", "any_range_index", "sorted_range", "const_index", "neg_index", "cmp_of_bools",
)


def _item_bool(mm: mmg.MetaModel, rng: random.Random, t: Any, item: Any) -> Optional[Any]:
    prim = _prim_of(mm, t)
    if prim == "int":
        return Cmp(rng.choice(mmg.CMP_OPS), item, Const(rng.randint(0, 6)))
    if prim in ("str",):
        return Cmp(rng.choice(mmg.CMP_OPS), Call("len", (item,)), Const(rng.randint(0, 5)))
    if t == TPrim("bool"):
        return item
    if isinstance(t, TOur):
        en = mm.find_enum(t.name)
        if en is not None and en.literals:
            return Cmp(rng.choice(["==", "!="]), item, Member(Name(en.name), rng.choice(en.literals).name))
        c = mm.find_class(t.name)
        if c is not None:
            for p, _ in mmg.stacked_properties(mm, c):
                sub = Member(item, p.name)
                if isinstance(p.type, TOpt):
                    return rng.choice([IsNone, IsNotNone])(sub)
                pp = _prim_of(mm, p.type)
                if pp == "int":
                    return Cmp(rng.choice(mmg.CMP_OPS), sub, Const(rng.randint(0, 6)))
                if pp == "str":
                    return Cmp(rng.choice(mmg.CMP_OPS), Call("len", (sub,)), Const(rng.randint(0, 4)))
                if p.type == TPrim("bool"):
                    return sub
    return None


def extra_body(mm: mmg.MetaModel, rng: random.Random, atoms: _Atoms, form: str) -> Optional[Any]:
    cmp_ = lambda: rng.choice(mmg.CMP_OPS)  # noqa: E731
    if form == "sub_right_nested":
        r = atoms.pick_ints(3)
        if r is None:
            return None
        (a, b, c), needs = r
        inner = rng.choice([Sub, Add])(b, c)
        return _guard(rng, needs, Cmp(cmp_(), Sub(a, inner), Const(rng.randint(-3, 4))))
    if form == "add_sub_cmp":
        r = atoms.pick_ints(3)
        if r is None:
            return None
        (a, b, c), needs = r
        return _guard(rng, needs, Cmp(cmp_(), Add(a, Const(rng.randint(0, 3))), Sub(b, c)))
    if form in ("bool_eq", "cmp_of_bools"):
        r = atoms.pick_bools(2)
        if r is None:
            return None
        (x, y), needs = r
        if form == "cmp_of_bools":
            y = Not(y)
        return _guard(rng, needs, Cmp(rng.choice(["==", "!="]), x, y))
    if form in ("impl_and_ante", "impl_or_ante", "impl_impl_ante", "impl_nested_cons", "not_or",
                "not_impl", "or_in_and", "and_in_or3", "or3_not_first"):
        r = atoms.pick_bools(4)
        if r is None:
            return None
        (x, y, z, w), needs = r
        if form == "impl_and_ante":
            core: Any = Implies(And((x, y)), z)
        elif form == "impl_or_ante":
            core = Implies(Or((x, y)), z)
        elif form == "impl_impl_ante":
            core = Implies(Implies(x, y), z)
        elif form == "impl_nested_cons":
            core = Implies(x, rng.choice([Implies(y, z), And((y, z)), Or((y, z, w))]))
        elif form == "not_or":
            core = Not(rng.choice([Or((x, y)), Or((x, y, z)), And((x, y))]))
        elif form == "not_impl":
            core = Not(Implies(x, y))
        elif form == "or_in_and":
            core = And((Or((x, y)), z, rng.choice([w, Not(w), Implies(w, x)])))
        elif form == "and_in_or3":
            core = Or((And((x, y)), z, Not(w)))
        else:
            core = Or((Not(x), y, z))
        return _guard(rng, needs, core)
    if form in ("all_impl", "any_range_index", "sorted_range", "const_index", "neg_index"):
        if form in ("sorted_range", "const_index", "neg_index"):
            if not atoms.int_lists:
                return None
            me, need = rng.choice(atoms.int_lists)
            if form == "sorted_range":
                core = All(ForRange("i", Const(1), Call("len", (me,))),
                           Cmp(rng.choice(["<=", "<", "!="]), Index(me, Sub(Name("i"), Const(1))), Index(me, Name("i"))))
            elif form == "const_index":
                core = Cmp(cmp_(), Index(me, Const(rng.choice([0, 0, 1, 2]))), Const(rng.randint(0, 5)))
            else:
                core = Cmp(cmp_(), Index(me, Const(-1)), Index(me, Const(0)))
            return _guard(rng, need, core)
        if not atoms.lists:
            return None
        me, need, items_t = rng.choice(atoms.lists)
        if form == "all_impl":
            c1 = _item_bool(mm, rng, items_t, Name("item"))
            c2 = _item_bool(mm, rng, items_t, Name("item"))
            if c1 is None or c2 is None:
                return None
            if isinstance(c1, (IsNone, IsNotNone)) or isinstance(c2, (IsNone, IsNotNone)):
                cond = rng.choice([c1, Not(c1)])  # a second nullness test of the same value is rejected
            else:
                cond = rng.choice([Implies(c1, c2), And((c1, c2)), Not(c1), Or((Not(c1), c2, c1))])
            core = rng.choice([All, AnyOf])(ForEach("item", me), cond)
        else:
            c1 = _item_bool(mm, rng, items_t, Index(me, Name("i")))
            if c1 is None:
                return None
            core = rng.choice([All, AnyOf])(ForRange("i", Const(rng.choice([0, 0, 1])), Call("len", (me,))), c1)
        return _guard(rng, need, core)
    raise ValueError(form)


def enrich(mm: mmg.MetaModel, rng: random.Random, per_class: Tuple[int, int] = (1, 2)) -> Dict[str, int]:
    """Append extra invariants (in place). Returns the histogram of the forms used."""
    hist: Dict[str, int] = {}
    counter = [0]
    used_desc = {inv.description for c in mm.classes for inv in c.invariants}
    used_desc |= {inv.description for c in mm.constrained_primitives for inv in c.invariants}

    def describe() -> str:
        counter[0] += 1
        if rng.random() < 0.45:
            text = f"Extra {counter[0]}: " + rng.choice(AWKWARD_DESCRIPTIONS)
        else:
            text = f"Extra {counter[0]}: the values shall agree"
        assert text not in used_desc
        used_desc.add(text)
        return text

    for cls in mm.classes:
        if cls.is_implementation_specific:
            continue
        props = [p for p, _ in mmg.stacked_properties(mm, cls)]
        if not props:
            continue
        atoms = _Atoms(mm, rng, props)
        for _ in range(rng.randint(*per_class)):
            for _attempt in range(6):
                form = rng.choice(EXTRA_FORMS)
                body = extra_body(mm, rng, atoms, form)
                if body is not None:
                    cls.invariants.append(mmg.Invariant(describe(), body, form="c08:" + form))
                    hist[form] = hist.get(form, 0) + 1
                    break
    for cp in mm.constrained_primitives:
        prim = mmg.cprim_constrainee(mm, cp.name)
        if rng.random() < 0.5:
            continue
        if prim == "int":
            body = Implies(Cmp(rng.choice(mmg.CMP_OPS), SELF, Const(rng.randint(0, 3))),
                           Cmp(rng.choice(mmg.CMP_OPS), SELF, Const(rng.randint(-1, 5))))
        elif prim == "str":
            body = Implies(Cmp(rng.choice(mmg.CMP_OPS), Call("len", (SELF,)), Const(rng.randint(0, 5))),
                           Cmp(rng.choice(mmg.CMP_OPS), Call("len", (SELF,)), Const(rng.randint(0, 9))))
        else:
            continue
        cp.invariants.append(mmg.Invariant(describe(), body, form="c08:cprim"))
        hist["cprim"] = hist.get("cprim", 0) + 1
    return hist


_SHADOW_WORDS = ("one", "two", "three", "four", "five", "six")


def add_shadow_functions(mm: mmg.MetaModel, rng: random.Random, hist: Dict[str, int], per_model: int = 4) -> None:
    """Transpilable verification functions whose ARGUMENT is named like a global of the
    meta-model (constant, constant set, enumeration, another verification function, class,
    constrained primitive) and invariants that call them. In Python the argument shadows the
    global; the generated function must read its argument, too."""
    kinds: List[Tuple[str, List[str]]] = [
        ("constant", [c.name for c in mm.constants if isinstance(c, mmg.ConstantPrimitive)]),
        ("constant_set", [c.name for c in mm.constants if isinstance(c, mmg.ConstantSet)]),
        ("enumeration", [e.name for e in mm.enumerations]),
        ("function", [f.name for f in mm.verification_functions]),
        ("class", [c.name for c in mm.classes]),
        ("constrained_primitive", [c.name for c in mm.constrained_primitives]),
    ]
    kinds = [(k, ns) for k, ns in kinds if ns]
    rng.shuffle(kinds)
    used_desc = {inv.description for c in mm.classes for inv in c.invariants}
    made = 0
    for kind, names in kinds[:per_model]:
        shadowed = rng.choice(names)
        fname = f"is_shade_{_SHADOW_WORDS[made]}"
        if mm.find_function(fname) is not None:
            continue
        prim = rng.choice(["int", "int", "str"])
        me = Name(shadowed)
        if prim == "int":
            body: Any = Cmp(rng.choice(mmg.CMP_OPS), me, Const(rng.randint(-1, 6)))
            if rng.random() < 0.4:
                body = And((body, Cmp(rng.choice(mmg.CMP_OPS), Sub(me, Const(1)), Const(rng.randint(0, 9)))))
        else:
            body = Cmp(rng.choice(mmg.CMP_OPS), Call("len", (me,)), Const(rng.randint(0, 5)))
        mm.verification_functions.append(
            mmg.VerificationFunction(fname, "transpilable", [(shadowed, TPrim(prim))], body=body))
        made += 1
        hist[f"shadow:{kind}"] = hist.get(f"shadow:{kind}", 0) + 1
        # invariants calling it
        sites = []
        for cls in mm.classes:
            if cls.is_implementation_specific:
                continue
            for p, _ in mmg.stacked_properties(mm, cls):
                if mmg.beneath_optional(p.type) == TPrim(prim):
                    sites.append((cls, p))
        rng.shuffle(sites)
        for cls, p in sites[:2]:
            target = Member(SELF, p.name)
            call = Call(fname, (target,))
            inv_body = _guard(rng, [target] if isinstance(p.type, TOpt) else [], call)
            desc = f"Shadow {made}-{cls.name}: {p.name} shall satisfy {fname}"
            if desc in used_desc:
                continue
            used_desc.add(desc)
            cls.invariants.append(mmg.Invariant(desc, inv_body, form="c08:shadow"))


def make_metamodel(rng: random.Random, base: str = "small") -> Tuple[mmg.MetaModel, Dict[str, int]]:
    mm = mmg.random_metamodel(rng, c08_profile(base))
    hist = enrich(mm, rng)
    add_shadow_functions(mm, rng, hist)
    return mm, hist


# ---------------------------------------------------------------------------------------
# regular expression sampling
# ---------------------------------------------------------------------------------------
_ALPHABET = "ab0Z9 -_/.:x\u00e9"


def _sample_node(rng: random.Random, op: Any, av: Any) -> str:
    name = str(op)
    if name == "LITERAL":
        return chr(av)
    if name == "NOT_LITERAL":
        cands = [c for c in _ALPHABET if ord(c) != av]
        return rng.choice(cands)
    if name == "ANY":
        return rng.choice(_ALPHABET)
    if name == "IN":
        negate = False
        chars: List[str] = []
        for o, a in av:
            n = str(o)
            if n == "NEGATE":
                negate = True
            elif n == "LITERAL":
                chars.append(chr(a))
            elif n == "RANGE":
                lo, hi = a
                chars.extend({chr(lo), chr(hi), chr((lo + hi) // 2)})
            elif n == "CATEGORY":
                cat = str(a)
                chars.extend({"CATEGORY_DIGIT": "059", "CATEGORY_WORD": "aZ_0", "CATEGORY_SPACE": " \t"}.get(cat, "a"))
        if negate:
            pool = [c for c in _ALPHABET + "qQ7#"]
            rng.shuffle(pool)
            return next((c for c in pool if c not in chars), "#")
        return rng.choice(chars) if chars else ""
    if name in ("MAX_REPEAT", "MIN_REPEAT"):
        lo, hi, sub = av
        hi = lo + 3 if str(hi) == "MAXREPEAT" or hi > lo + 3 else hi
        k = rng.choice([lo, hi, rng.randint(lo, hi)])
        return "".join(_sample_seq(rng, sub) for _ in range(k))
    if name == "SUBPATTERN":
        return _sample_seq(rng, av[-1])
    if name == "BRANCH":
        return _sample_seq(rng, rng.choice(av[1]))
    if name == "AT":
        return ""
    if name == "CATEGORY":
        return {"CATEGORY_DIGIT": "5", "CATEGORY_WORD": "w", "CATEGORY_SPACE": " "}.get(str(av), "a")
    return ""


def _sample_seq(rng: random.Random, seq: Any) -> str:
    return "".join(_sample_node(rng, op, av) for op, av in seq)


def sample_pattern(rng: random.Random, pattern: str) -> str:
    try:
        return _sample_seq(rng, sre_parse.parse(pattern))
    except Exception:  # unknown construct: fall back to noise
        return "".join(rng.choice(_ALPHABET) for _ in range(rng.randint(0, 6)))


def mutate_string(rng: random.Random, s: str) -> str:
    roll = rng.randrange(6)
    if roll == 0 and s:
        i = rng.randrange(len(s))
        return s[:i] + s[i + 1:]
    if roll == 1:
        i = rng.randint(0, len(s))
        return s[:i] + rng.choice(_ALPHABET) + s[i:]
    if roll == 2 and s:
        i = rng.randrange(len(s))
        return s[:i] + rng.choice(_ALPHABET) + s[i + 1:]
    if roll == 3:
        return s + "\n"
    if roll == 4:
        return s + s
    return ""


def pattern_strings(rng: random.Random, pattern: str, n: int) -> List[str]:
    out = ["", "\n", "a", "0"]
    while len(out) < n:
        s = sample_pattern(rng, pattern)
        out.append(s)
        out.append(mutate_string(rng, s))
    return out[:n]


# ---------------------------------------------------------------------------------------
# instances
# ---------------------------------------------------------------------------------------
def _walk_consts(mm: mmg.MetaModel) -> Tuple[List[int], List[str]]:
    ints: Set[int] = {0, 1, -1}
    strs: Set[str] = set()
    invs = [inv for c in mm.classes for inv in c.invariants]
    invs += [inv for c in mm.constrained_primitives for inv in c.invariants]
    bodies = [inv.body for inv in invs] + [f.body for f in mm.verification_functions if f.body is not None]
    for body in bodies:
        for node in mmg.walk_expr(body):
            if isinstance(node, Const):
                if isinstance(node.value, bool):
                    continue
                if isinstance(node.value, int):
                    ints.update({node.value - 1, node.value, node.value + 1})
                elif isinstance(node.value, str):
                    strs.add(node.value)
    for c in mm.constants:
        if isinstance(c, mmg.ConstantSet):
            for v in c.values:
                if isinstance(v, int) and not isinstance(v, bool):
                    ints.update({v, v + 1})
                elif isinstance(v, str) and mm.find_enum(c.items_type) is None:
                    strs.add(v)
    return sorted(ints), sorted(strs)


class InstanceGen:
    def __init__(self, mm: mmg.MetaModel, rng: random.Random):
        self.mm, self.rng = mm, rng
        self.ints, self.strs = _walk_consts(mm)
        self.lens = sorted({n for n in self.ints if 0 <= n <= 12} | {0, 1, 2, 3})
        self.patterns = [f.pattern for f in mm.verification_functions if f.kind == "pattern" and f.pattern]
        self.oid = 0
        self.repair: Any = None   # callable(cls, description) -> description (local hill-climbing)
        self.concrete: Dict[str, List[mmg.Class]] = {}
        for c in mm.classes:
            opts = [d for d in [c, *mmg.descendants(mm, c)] if not d.is_abstract and not d.is_implementation_specific]
            self.concrete[c.name] = opts

    # -- primitives ------------------------------------------------------------------
    def a_str(self, patterns: Sequence[str] = ()) -> str:
        rng = self.rng
        roll = rng.random()
        pats = list(patterns) or self.patterns
        if pats and roll < 0.55:
            s = sample_pattern(rng, rng.choice(pats))
            return s if rng.random() < 0.7 else mutate_string(rng, s)
        if self.strs and roll < 0.75:
            return rng.choice(self.strs)
        n = rng.choice(self.lens)
        return "".join(rng.choice(_ALPHABET) for _ in range(n))

    def a_prim(self, prim: str, patterns: Sequence[str] = ()) -> Any:
        rng = self.rng
        if prim == "bool":
            return rng.random() < 0.5
        if prim == "int":
            return rng.choice(self.ints) if rng.random() < 0.85 else rng.randint(-50, 50)
        if prim == "float":
            return {"f": rng.choice(self.ints) / 2 if rng.random() < 0.8 else rng.randint(-9, 9) / 4}
        if prim == "str":
            return self.a_str(patterns)
        if prim == "bytearray":
            n = rng.choice(self.lens)
            return {"b": bytes(rng.randrange(256) for _ in range(n)).hex()}
        raise ValueError(prim)

    def cprim_patterns(self, name: str) -> List[str]:
        out: List[str] = []
        seen: Set[str] = set()
        todo = [name]
        while todo:
            n = todo.pop()
            if n in seen:
                continue
            seen.add(n)
            cp = self.mm.find_cprim(n)
            if cp is None:
                continue
            todo.extend(cp.bases)
            for inv in cp.invariants:
                for node in mmg.walk_expr(inv.body):
                    if isinstance(node, Call):
                        fn = self.mm.find_function(node.name)
                        if fn is not None and fn.pattern:
                            out.append(fn.pattern)
        return out

    # -- values ----------------------------------------------------------------------
    def value(self, t: Any, depth: int, prop_patterns: Sequence[str] = ()) -> Any:
        rng = self.rng
        if isinstance(t, TOpt):
            if rng.random() < 0.35:
                return None
            return self.value(t.value, depth, prop_patterns)
        if isinstance(t, TPrim):
            return self.a_prim(t.name, prop_patterns)
        if isinstance(t, TList):
            n = rng.choice(self.lens)
            if isinstance(t.items, TOur) and self.mm.find_class(t.items.name) is not None:
                n = min(n, 3 if depth < 1 else 1)
            return [self.value(t.items, depth + 1, prop_patterns) for _ in range(n)]
        if isinstance(t, TOur):
            en = self.mm.find_enum(t.name)
            if en is not None:
                return {"enum": en.name, "lit": rng.choice(en.literals).name}
            cp = self.mm.find_cprim(t.name)
            if cp is not None:
                prim = mmg.cprim_constrainee(self.mm, t.name)
                return self.a_prim(prim, list(prop_patterns) + self.cprim_patterns(t.name))
            c = self.mm.find_class(t.name)
            if c is not None:
                return self.instance(c, depth + 1)
        raise ValueError(f"no value for {t!r}")

    def prop_patterns(self, cls: mmg.Class, prop: str) -> List[str]:
        out = []
        for inv, _ in mmg.stacked_invariants(self.mm, cls):
            nodes = list(mmg.walk_expr(inv.body))
            for node in nodes:
                if isinstance(node, Call) and any(isinstance(a, Member) and a.name == prop for a in node.args):
                    fn = self.mm.find_function(node.name)
                    if fn is not None and fn.pattern:
                        out.append(fn.pattern)
        return out

    def instance(self, cls: mmg.Class, depth: int = 0) -> Dict[str, Any]:
        cands = self.concrete.get(cls.name) or []
        if not cands:
            raise ValueError(f"no concrete class below {cls.name}")
        c = self.rng.choice(cands)
        self.oid += 1
        oid = self.oid
        fields: Dict[str, Any] = {}
        for p, _ in mmg.stacked_properties(self.mm, c):
            t = p.type
            if depth >= 2 and isinstance(t, TOpt):
                inner = t.value
                if isinstance(inner, (TOur, TList)) and any(self.mm.find_class(n) for n in mmg.our_types_in(inner)):
                    fields[p.name] = None
                    continue
            if depth >= 2 and isinstance(t, TList) and any(self.mm.find_class(n) for n in mmg.our_types_in(t)):
                fields[p.name] = []
                continue
            fields[p.name] = self.value(t, depth, self.prop_patterns(c, p.name))
        d = {"cls": c.name, "oid": oid, "fields": fields}
        if self.repair is not None:
            d = self.repair(c, d, depth)
        return d


def gen_instances(mm: mmg.MetaModel, rng: random.Random, n: int) -> List[Dict[str, Any]]:
    g = InstanceGen(mm, rng)
    roots = [c for c in mm.classes if g.concrete.get(c.name)]
    out: List[Dict[str, Any]] = []
    if not roots:
        return out
    # every concrete class gets its share; classes with invariants first
    weights = [1 + 2 * len(mmg.stacked_invariants(mm, c)) for c in roots]
    for _ in range(n):
        c = rng.choices(roots, weights=weights, k=1)[0]
        out.append(g.instance(c, 0))
    return out


def fn_cases(mm: mmg.MetaModel, rng: random.Random, n: int) -> Dict[str, List[Any]]:
    """Arguments for transpilable / implementation-specific verification functions."""
    g = InstanceGen(mm, rng)
    out: Dict[str, List[Any]] = {}
    for fn in mm.verification_functions:
        if fn.kind == "pattern" or len(fn.args) != 1:
            continue
        t = fn.args[0][1]
        try:
            out[fn.name] = [g.value(t, 1) for _ in range(n)]
        except ValueError:
            continue
    return out


# ---------------------------------------------------------------------------------------
# executing the meta-model source text (plain Python; no dependency on the repository)
# ---------------------------------------------------------------------------------------
import sys as _sys
import types as _pytypes


def _permissive(*args: Any, **kwargs: Any) -> Any:
    if len(args) == 1 and not kwargs and (callable(args[0]) or isinstance(args[0], type)):
        return args[0]
    return lambda x: x


def _constant(value: Any = None, description: Any = None, **_kw: Any) -> Any:
    return value


def _constant_set(values: Any = None, description: Any = None, superset_of: Any = None, **_kw: Any) -> Any:
    return set(values)


class _Marker(_pytypes.ModuleType):
    def __getattr__(self, name: str) -> Any:
        if name.startswith("__"):
            raise AttributeError(name)
        if name == "constant_set":
            return _constant_set
        return _permissive


def exec_source(text: str) -> Tuple[Dict[str, Any], Dict[str, Any]]:
    """Execute the meta-model text with inert stand-ins for ``icontract`` and the marker
    decorators; returns (namespace, {invariant description: the lambda of the source})."""
    registry: Dict[str, Any] = {}

    def invariant(condition: Any, description: Any = None, **_kw: Any) -> Any:
        def deco(cls: Any) -> Any:
            assert description not in registry, f"duplicate description {description!r}"
            registry[description] = condition
            return cls
        return deco

    class DBC:
        pass

    fake_icontract = _pytypes.ModuleType("icontract")
    fake_icontract.invariant = invariant  # type: ignore
    fake_icontract.DBC = DBC  # type: ignore
    fake_icontract.require = _permissive  # type: ignore
    fake_icontract.ensure = _permissive  # type: ignore
    fake_meta = _pytypes.ModuleType("aas_core_meta")
    fake_marker = _Marker("aas_core_meta.marker")
    fake_meta.marker = fake_marker  # type: ignore
    names = ("icontract", "aas_core_meta", "aas_core_meta.marker")
    saved = {k: _sys.modules.get(k) for k in names}
    _sys.modules["icontract"] = fake_icontract
    _sys.modules["aas_core_meta"] = fake_meta
    _sys.modules["aas_core_meta.marker"] = fake_marker
    ns: Dict[str, Any] = {"__name__": "c08_meta_model"}
    for k in ("constant_bool", "constant_int", "constant_float", "constant_str", "constant_bytearray"):
        ns[k] = _constant
    ns["constant_set"] = _constant_set
    # ``class X(bool, DBC)`` (a constrained primitive of bool) is fine for the front end, which
    # never executes the text, but ``bool`` cannot be sub-classed; the class object is not needed
    # (the lambdas are called on plain values), so it is declared over ``int`` here.
    import re as _re
    text = _re.sub(r"^class (\w+)\(bool, DBC\):", r"class \1(int, DBC):", text, flags=_re.M)
    try:
        exec(compile(text, "<meta_model>", "exec"), ns)
    finally:
        for k, v in saved.items():
            if v is None:
                _sys.modules.pop(k, None)
            else:
                _sys.modules[k] = v
    return ns, registry


def impl_fn_expr(arg: str, t: Any) -> str:
    """Body of the stand-in for an implementation-specific verification function (the same
    on the SDK side, as a snippet, and on the source side)."""
    if t == TPrim("str"):
        return f"(sum(map(ord, {arg})) % 3) != 0"
    if t == TPrim("int"):
        return f"({arg} % 3) != 0"
    return "True"


def bind_impl_fns(mm: mmg.MetaModel, ns: Dict[str, Any]) -> None:
    for fn in mm.verification_functions:
        if fn.kind == "implementation_specific":
            a0 = fn.args[0][0] if fn.args else "x"
            t0 = fn.args[0][1] if fn.args else None
            args = ", ".join(a for a, _ in fn.args)
            ns[fn.name] = eval(f"lambda {args}: {impl_fn_expr(a0, t0)}")


def build_src(ns: Dict[str, Any], v: Any) -> Any:
    """The mirror value on the side of the meta-model source."""
    if v is None or isinstance(v, (bool, int, str)):
        return v
    if isinstance(v, list):
        return [build_src(ns, x) for x in v]
    if "f" in v:
        return float(v["f"])
    if "b" in v:
        return bytearray.fromhex(v["b"])
    if "enum" in v:
        return getattr(ns[v["enum"]], v["lit"])
    if "cls" in v:
        return ns[v["cls"]](**{k: build_src(ns, x) for k, x in v["fields"].items()})
    raise ValueError(f"unexpected value description {v!r}")


def cprim_stacked_invariants(mm: mmg.MetaModel, name: str) -> List[mmg.Invariant]:
    out: List[mmg.Invariant] = []
    seen: Set[str] = set()

    def go(n: str) -> None:
        if n in seen:
            return
        seen.add(n)
        cp = mm.find_cprim(n)
        if cp is None:
            return
        for b in cp.bases:
            go(b)
        out.extend(cp.invariants)
    go(name)
    return out


def prop_kind(mm: mmg.MetaModel, t: Any) -> Tuple[str, Optional[str]]:
    """(kind, cprim name) of a declared type: other | cprim | class | list_cprim | list_class."""
    t = mmg.beneath_optional(t)
    if isinstance(t, TOur):
        if mm.find_cprim(t.name) is not None:
            return "cprim", t.name
        if mm.find_class(t.name) is not None:
            return "class", None
        return "other", None
    if isinstance(t, TList):
        it = t.items
        if isinstance(it, TOur):
            if mm.find_cprim(it.name) is not None:
                return "list_cprim", it.name
            if mm.find_class(it.name) is not None:
                return "list_class", None
    return "other", None


def exc_name(e: BaseException) -> str:
    n = type(e).__name__
    if n in ("TypeError", "AttributeError") and "NoneType" in str(e):
        return n + ":None"
    return n


class Expected:
    """The property statement, executed: a pre-order walk over the instance; for every object
    the stacked invariants of its class, for every non-None value of a constrained-primitive
    type the stacked invariants of that type; each invariant is the ``lambda`` of the source
    text called on the mirror value. ``pyname`` maps a property name to its SDK name (for the
    expected path)."""

    def __init__(self, mm: mmg.MetaModel, ns: Dict[str, Any], registry: Dict[str, Any], pyname: Any = None):
        self.mm, self.ns, self.registry = mm, ns, registry
        self.pyname = pyname or (lambda n: n)
        self.truth: List[Tuple[int, Any, Dict[str, Any]]] = []
        self.inv_ids: Dict[str, int] = {}
        self.stats: Dict[str, List[int]] = {}   # description -> [true, false, raised]

    def inv_id(self, desc: str) -> int:
        return self.inv_ids.setdefault(desc, len(self.inv_ids))

    def run_inv(self, inv: mmg.Invariant, src_value: Any, desc_value: Any, path: str,
                errors: List[Any], raises: List[str]) -> None:
        fn = self.registry[inv.description]
        try:
            res = bool(fn(src_value))
            self.stats.setdefault(inv.description, [0, 0, 0])[0 if res else 1] += 1
            self.truth.append((self.inv_id(inv.description), desc_value, {"val": res}))
            if not res:
                errors.append([inv.description, path])
        except Exception as e:  # noqa
            raises.append(exc_name(e))
            self.stats.setdefault(inv.description, [0, 0, 0])[2] += 1
            self.truth.append((self.inv_id(inv.description), desc_value, {"raise": exc_name(e)}))

    def walk(self, desc: Dict[str, Any], path: str, errors: List[Any], raises: List[str]) -> None:
        cls = self.mm.find_class(desc["cls"])
        assert cls is not None
        src_obj = build_src(self.ns, desc)
        for inv, _owner in mmg.stacked_invariants(self.mm, cls):
            self.run_inv(inv, src_obj, desc, path, errors, raises)
        for prop, _d in mmg.stacked_properties(self.mm, cls):
            v = desc["fields"].get(prop.name)
            if v is None:
                continue
            kind, cp = prop_kind(self.mm, prop.type)
            pyname = self.pyname(prop.name)
            if kind == "cprim":
                for inv in cprim_stacked_invariants(self.mm, cp):
                    self.run_inv(inv, build_src(self.ns, v), v, f"{path}.{pyname}", errors, raises)
            elif kind == "class":
                self.walk(v, f"{path}.{pyname}", errors, raises)
            elif kind == "list_cprim":
                for i, item in enumerate(v):
                    for inv in cprim_stacked_invariants(self.mm, cp):
                        self.run_inv(inv, build_src(self.ns, item), item, f"{path}.{pyname}[{i}]", errors, raises)
            elif kind == "list_class":
                for i, item in enumerate(v):
                    self.walk(item, f"{path}.{pyname}[{i}]", errors, raises)

    def verdict(self, desc: Dict[str, Any]) -> Tuple[int, int]:
        errors: List[Any] = []
        raises: List[str] = []
        self.truth = []
        self.walk(desc, "", errors, raises)
        return len(errors), len(raises)


def _objects(desc: Any, out: List[Dict[str, Any]]) -> None:
    if isinstance(desc, list):
        for x in desc:
            _objects(x, out)
    elif isinstance(desc, dict) and "cls" in desc:
        out.append(desc)
        for v in desc["fields"].values():
            _objects(v, out)


def balanced_instances(mm: mmg.MetaModel, rng: random.Random, n: int) -> Tuple[List[Dict[str, Any]], Dict[str, int]]:
    """n instances: about a third valid (every object is repaired bottom-up by re-drawing its
    own non-class fields until its own invariants hold, judged by the source lambdas), a third
    violating exactly one invariant (one field of a valid instance re-drawn), the rest
    unconstrained (several violations, raising ones)."""
    import copy
    ns, registry = exec_source(mmg.render_source(mm))
    bind_impl_fns(mm, ns)
    exp = Expected(mm, ns, registry)
    g = InstanceGen(mm, rng)
    roots = [c for c in mm.classes if g.concrete.get(c.name)]
    hist = {"valid": 0, "single": 0, "multi": 0, "raise": 0}
    out: List[Dict[str, Any]] = []
    if not roots:
        return out, hist
    weights = [1 + 2 * len(mmg.stacked_invariants(mm, c)) for c in roots]

    def local_score(cls: mmg.Class, d: Dict[str, Any]) -> int:
        errors: List[Any] = []
        raises: List[str] = []
        src = build_src(ns, d)
        for inv, _o in mmg.stacked_invariants(mm, cls):
            exp.run_inv(inv, src, None, "", errors, raises)
        for prop, _d in mmg.stacked_properties(mm, cls):
            v = d["fields"].get(prop.name)
            kind, cp = prop_kind(mm, prop.type)
            if v is None or kind not in ("cprim", "list_cprim"):
                continue
            for item in (v if kind == "list_cprim" else [v]):
                for inv in cprim_stacked_invariants(mm, cp):
                    exp.run_inv(inv, build_src(ns, item), None, "", errors, raises)
        exp.truth = []
        return len(errors) + 3 * len(raises)

    def redraw_local(cls: mmg.Class, d: Dict[str, Any], depth: int) -> Optional[Dict[str, Any]]:
        props = [p for p, _ in mmg.stacked_properties(mm, cls)
                 if prop_kind(mm, p.type)[0] in ("other", "cprim", "list_cprim")]
        if not props:
            return None
        p = rng.choice(props)
        d2 = dict(d)
        d2["fields"] = dict(d["fields"])
        saved = g.repair
        g.repair = None if prop_kind(mm, p.type)[0] in ("other", "cprim", "list_cprim") else saved
        try:
            d2["fields"][p.name] = g.value(p.type, depth, g.prop_patterns(cls, p.name))
        finally:
            g.repair = saved
        return d2

    def repair(cls: mmg.Class, d: Dict[str, Any], depth: int) -> Dict[str, Any]:
        s0 = local_score(cls, d)
        for _ in range(40):
            if s0 == 0:
                break
            d2 = redraw_local(cls, d, depth)
            if d2 is None:
                break
            s2 = local_score(cls, d2)
            if s2 <= s0:
                d, s0 = d2, s2
        return d

    def classify(d: Dict[str, Any]) -> str:
        f, r = exp.verdict(d)
        return "raise" if r else ("valid" if f == 0 else ("single" if f == 1 else "multi"))

    valid: List[Dict[str, Any]] = []
    for k in range(n):
        phase = k % 3
        cls = rng.choices(roots, weights=weights, k=1)[0]
        if phase == 0 or (phase == 1 and not valid):
            g.repair = repair
            d = g.instance(cls, 0)
            g.repair = None
            if exp.verdict(d) == (0, 0):
                valid.append(d)
        elif phase == 1:
            base = rng.choice(valid)
            d = base
            objs: List[Dict[str, Any]] = []
            for _ in range(30):
                d2 = copy.deepcopy(base)
                objs = []
                _objects(d2, objs)
                o = objs[0] if rng.random() < 0.5 else rng.choice(objs)
                oc = mm.find_class(o["cls"])
                o2 = redraw_local(oc, o, 2)
                if o2 is None:
                    continue
                o["fields"] = o2["fields"]
                if exp.verdict(d2) == (1, 0):
                    d = d2
                    break
        else:
            d = g.instance(cls, 0)
        hist[classify(d)] += 1
        out.append(d)
    return out, hist


# ---------------------------------------------------------------------------------------
# Python expressions for the rule correspondence (parse/_rules.py)
# ---------------------------------------------------------------------------------------
RULE_CORPUS = [
    "all(x > 0 for x in self.xs if x != 5)",
    "any(x > 0 for x in self.xs if x if y)",
    "all(x > y for x in self.xs for y in self.ys)",
    "all(x > 0 for x in range(3))", "all(x > 0 for x in range(0, 3))", "all(x > 0 for x in range(0, 3, 1))",
    "all(x > 0 for x in range(0, n=3))", "all(x for x in range(0, 3) if x)", "all([x for x in xs])",
    "all(x > 0 for x, y in self.xs)", "all(x for x in xs, 1)" if False else "all((x for x in xs), 1)",
    "any(x for x in xs)", "all(x for x in xs, key=1)" if False else "all(key=1)",
    "1 < self.a < 3", "self.a < 3", "self.a not in self.b", "self.a in self.b", "self.x is None",
    "self.x is not None", "self.x is 1", "None is self.x", "self.x == None",
    "not self.a or self.b", "not self.a or self.b or self.c", "self.a or not self.b",
    "(not self.a) or (not self.b)", "not (self.a or self.b)", "not not self.a",
    "self.xs[0](1)", "self.f(1)(2)", "f(*xs)", "f(a=1)", "self.m(1, k=2)", "len(self.x)", "f()",
    "-self.x", "-1", "-1.5", "-True", "+1", "~1", "--1", "1 + 2 - 3", "1 * 2", "'a' + 'b'",
    "None", "True", "1.5", "'text'", "b'bytes'", "...", "1j",
    "self.xs[1:2]", "self.xs[0]", "self.xs[-1]", "self.a.b.c", "self.xs[0].y[1]",
    "f'abc'", "f'{self.x}'", "f'a{self.x}b{1}'", "f'{self.x!r}'", "f'{self.x:>3}'", "f'{x}' 'y'",
    "lambda x: x", "self.a if self.b else self.c", "[1, 2]", "(1, 2)", "{1}", "self.a and self.b",
    "self.a and self.b and self.c", "(x for x in xs)", "all(not a or b for a in xs)",
    "any(all(y > 0 for y in x) for x in self.xss)", "all(x for x in range(len(self.xs), 3))",
]


def random_py_expr(rng: random.Random, depth: int = 3) -> str:
    """Source text of a random Python expression around the dialect of the invariants
    (accepted forms and near misses)."""
    def atom() -> str:
        return rng.choice([
            "self.a", "self.b", "self.xs", "x", "y", "self", "Enum_x.Lit", "Const_set", "self.a.b",
            "0", "1", "5", "-1", "-3", "1.5", "-0.5", "True", "False", "'s'", '"q\\"t"', "None",
            "self.xs[0]", "self.xs[i]", "len(self.xs)", "matches_x(self.a)", "self.m()",
        ])

    def go(d: int) -> str:
        if d <= 0 or rng.random() < 0.15:
            return atom()
        k = rng.randrange(22)
        a, b, c = (lambda: go(d - 1)), (lambda: go(d - 1)), (lambda: go(d - 1))
        cmp_ = rng.choice(["<", "<=", ">", ">=", "==", "!="])
        if k == 0:
            return f"({a()}) {cmp_} ({b()})"
        if k == 1:
            return f"({a()}) {cmp_} ({b()}) {rng.choice(['<', '==', 'in', 'is'])} ({c()})"
        if k == 2:
            return f"({a()}) {rng.choice(['in', 'not in', 'is', 'is not'])} ({b()})"
        if k == 3:
            return f"({a()}) {rng.choice(['is', 'is not'])} None"
        if k == 4:
            return f"not ({a()})"
        if k == 5:
            return f"not ({a()}) or ({b()})"
        if k == 6:
            return f"not ({a()}) or ({b()}) or ({c()})"
        if k == 7:
            op = rng.choice(["and", "or"])
            return f" {op} ".join(f"({go(d - 1)})" for _ in range(rng.randint(2, 4)))
        if k == 8:
            return f"({a()}) {rng.choice(['+', '-', '+', '-', '*'])} ({b()})"
        if k == 9:
            return f"{rng.choice(['-', '-', '+', '~'])}({a()})"
        if k in (10, 11, 12):
            q = rng.choice(["all", "any"])
            var = rng.choice(["x", "item", "i"])
            it = rng.choice(["self.xs", f"range({a()}, {b()})", f"range({a()})", f"range(0, {a()}, 1)",
                             f"({a()})", "range(0, len(self.xs))"])
            gen = f"for {var} in {it}"
            roll = rng.random()
            if roll < 0.25:
                gen += f" if ({b()})"
            elif roll < 0.32:
                gen += f" if ({b()}) if ({c()})"
            elif roll < 0.42:
                gen += f" for y in ({c()})"
            elif roll < 0.47:
                gen = f"for {var}, y in {it}"
            return f"{q}(({go(d - 1)}) {gen})"
        if k == 13:
            return f"{rng.choice(['f', 'len', 'matches_x', 'all', 'any', 'range'])}({a()})"
        if k == 14:
            return f"f({a()}, {b()}{rng.choice(['', '', ', k=1'])})"
        if k == 15:
            return f"({a()}).m({b()})"
        if k == 16:
            return f"({a()})[{b()}]"
        if k == 17:
            return f"({a()}).attr"
        if k == 18:
            return rng.choice([f"f'p{{{a()}}}s'", f"f'{{{a()}!r}}'", f"f'{{{a()}:>4}}'", "f'plain'", f"f'{{{a()}}}{{{b()}}}'"])
        if k == 19:
            return rng.choice([f"lambda: ({a()})", f"({a()}) if ({b()}) else ({c()})", f"[{a()}]", f"({a()})[1:2]",
                               f"({a()})({b()})", f"f(*({a()}))"])
        if k == 20:
            return f"({a()}) {cmp_} {rng.choice(['0', '-1', '1.5', 'True'])}"
        return atom()

    return go(depth)
