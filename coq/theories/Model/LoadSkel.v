(** C01 / C02 — control-flow skeleton of [run.load_model] and [main.execute]:
    the [(result, error)] idiom, "exactly one of the two is set", and "a value that was
    produced together with an error is not read on the path where the error is set".

    A skeleton is a decision tree in continuation form, re-translated from the Python
    source on every run ([harness/translate/loadmodel.py] -> [Gen/GenLoadModel.v]).
    Variables hold one of three abstract values; every place where the code would raise
    on [None] is explicit:

      - [assert x is not None]                     -> [Crash AssertionError]
      - reading [x] (attribute, argument, unpack)  -> [Crash TypeError] when [x] is None
      - reading an unbound variable                -> [Crash KeyError]  (model artefact)

    The environment (which callee fails, which file exists, ...) is an oracle: a list
    of booleans consumed at the choice points. No proofs here. *)
From Coq Require Import List Arith Bool.
From Acg Require Import Base.Outcome.
Import ListNotations.

Inductive value : Type := VNone | VFalsy | VTruthy.
Definition var := nat.

(** An element of a returned pair. *)
Inductive rv : Type :=
| RNone                (* the literal None *)
| RSome                (* an expression that is never None (tuple, f-string, call of getvalue) *)
| RVar (v : var).

Inductive sk : Type :=
| Ret2 (a b : rv)                          (* return a, b *)
| RetInt                                    (* return <int> / return <callee>(...) *)
| FellOff                                   (* end of the function body reached *)
| PairCall (xor : bool) (res err : var) (k : sk)
    (* res, err = f(...); [xor]: f carries the post-condition "exactly one is None" *)
| AssignChoice (v : var) (k : sk)           (* v = <never None, truthiness unknown> *)
| AssignSet (v : var) (k : sk)              (* v = <never None>; never tested for truth *)
| AssignNone (v : var) (k : sk)             (* v = None *)
| AssertSet (v : var) (k : sk)              (* assert v is not None *)
| Use (v : var) (k : sk)                    (* v is read where None is not admissible *)
| IfTruthy (v : var) (t e : sk)             (* if v: *)
| IfNotNone (v : var) (t e : sk)            (* if v is not None: *)
| IfOpaque (t e : sk).                      (* if <condition on the environment>: *)

Definition state := list (var * value).

Fixpoint lookup (st : state) (v : var) : option value :=
  match st with
  | [] => None
  | (w, x) :: r => if Nat.eqb w v then Some x else lookup r v
  end.

Definition bindv (st : state) (v : var) (x : value) : state := (v, x) :: st.

Inductive result : Type :=
| RPair (first_set second_set : bool)
| RInt
| RFell
| RCrash (k : crash_kind).

Definition not_none (x : value) : bool := match x with VNone => false | _ => true end.

Definition eval_rv (st : state) (r : rv) : option bool :=
  match r with
  | RNone => Some false
  | RSome => Some true
  | RVar v => match lookup st v with Some x => Some (not_none x) | None => None end
  end.

Definition next (o : list bool) : bool * list bool :=
  match o with
  | [] => (false, [])
  | b :: r => (b, r)
  end.

Definition pair_values (xor b1 b2 : bool) : value * value :=
  if xor then (if b1 then (VTruthy, VNone) else (VNone, VTruthy))
  else ((if b1 then VTruthy else VNone), (if b2 then VTruthy else VNone)).

Fixpoint run (s : sk) (st : state) (o : list bool) : result :=
  match s with
  | Ret2 a b =>
      match eval_rv st a, eval_rv st b with
      | Some x, Some y => RPair x y
      | _, _ => RCrash KeyError
      end
  | RetInt => RInt
  | FellOff => RFell
  | PairCall xor res err k =>
      let (b1, o1) := next o in
      let (b2, o2) := next o1 in
      let (x, y) := pair_values xor b1 b2 in
      run k (bindv (bindv st res x) err y) o2
  | AssignChoice v k =>
      let (b, o1) := next o in
      run k (bindv st v (if b then VTruthy else VFalsy)) o1
  | AssignSet v k => run k (bindv st v VTruthy) o
  | AssignNone v k => run k (bindv st v VNone) o
  | AssertSet v k =>
      match lookup st v with
      | None => RCrash KeyError
      | Some VNone => RCrash AssertionError
      | Some _ => run k st o
      end
  | Use v k =>
      match lookup st v with
      | None => RCrash KeyError
      | Some VNone => RCrash TypeError
      | Some _ => run k st o
      end
  | IfTruthy v t e =>
      match lookup st v with
      | None => RCrash KeyError
      | Some VTruthy => run t st o
      | Some _ => run e st o
      end
  | IfNotNone v t e =>
      match lookup st v with
      | None => RCrash KeyError
      | Some VNone => run e st o
      | Some _ => run t st o
      end
  | IfOpaque t e =>
      let (b, o1) := next o in
      if b then run t st o1 else run e st o1
  end.

(** Exploration of every path (both oracle answers at each choice point). *)
Fixpoint check (good : result -> bool) (s : sk) (st : state) : bool :=
  match s with
  | Ret2 a b =>
      match eval_rv st a, eval_rv st b with
      | Some x, Some y => good (RPair x y)
      | _, _ => good (RCrash KeyError)
      end
  | RetInt => good RInt
  | FellOff => good RFell
  | PairCall xor res err k =>
      forallb (fun bs : bool * bool =>
                 let (x, y) := pair_values xor (fst bs) (snd bs) in
                 check good k (bindv (bindv st res x) err y))
              [(true, true); (true, false); (false, true); (false, false)]
  | AssignChoice v k =>
      check good k (bindv st v VTruthy) && check good k (bindv st v VFalsy)
  | AssignSet v k => check good k (bindv st v VTruthy)
  | AssignNone v k => check good k (bindv st v VNone)
  | AssertSet v k =>
      match lookup st v with
      | None => good (RCrash KeyError)
      | Some VNone => good (RCrash AssertionError)
      | Some _ => check good k st
      end
  | Use v k =>
      match lookup st v with
      | None => good (RCrash KeyError)
      | Some VNone => good (RCrash TypeError)
      | Some _ => check good k st
      end
  | IfTruthy v t e =>
      match lookup st v with
      | None => good (RCrash KeyError)
      | Some VTruthy => check good t st
      | Some _ => check good e st
      end
  | IfNotNone v t e =>
      match lookup st v with
      | None => good (RCrash KeyError)
      | Some VNone => check good e st
      | Some _ => check good t st
      end
  | IfOpaque t e => check good t st && check good e st
  end.

(** The two contracts. *)
Definition good_xor (r : result) : bool :=
  match r with RPair a b => xorb a b | _ => false end.
Definition good_int (r : result) : bool :=
  match r with RInt => true | _ => false end.

(** Number of leaves (for the evidence file / non-vacuity). *)
Fixpoint leaves (s : sk) : nat :=
  match s with
  | Ret2 _ _ | RetInt | FellOff => 1
  | PairCall _ _ _ k | AssignChoice _ k | AssignSet _ k | AssignNone _ k
  | AssertSet _ k | Use _ k => leaves k
  | IfTruthy _ t e | IfNotNone _ t e | IfOpaque t e => leaves t + leaves e
  end.
