(** Model of the JSON-Schema generator [aas_core_codegen/jsonschema/main.py]:
    [_translate_constraints], [_all_of_as_jsonable_mapping], [_define_type],
    [_define_properties] (with [infer_for_schema.tightening_steps_from_other_to_that_constraints]),
    [_list_required_properties], [_define_all_of_for_inheritance],
    [_generate_inheritable_definition], [_generate_choice_definition],
    [_generate_concrete_definition], [_define_for_enumeration] and the definition loop of
    [generate] -- over a small abstract *view* of the symbol table.

    What is opaque here (supplied by the view, computed by the real code): JSON names
    ([naming.json_model_type], [naming.json_property]), the inferred constraints
    ([infer_for_schema.infer_constraints_by_class], property C15) and the UTF-16 image of a
    pattern ([fix_pattern_for_utf16], property C17; here a table [fixp]).

    The model follows the repaired byte-array rule (fix C11-bytearray-maxlength-base64):
    [maxLength] of a byte array is the base64 text length of the maximal byte count.

    Hand-written; tied to the code by the correspondence stream of harness/props/c11.py
    (whole [definitions] object of generated meta-models, compared inside Coq) and by
    [Gen/GenJsonSchema.v] ([_PRIMITIVE_MAP]). Executable definitions only. *)
From Coq Require Import List NArith ZArith Bool.
From Coq Require Strings.String.
Import Coq.Strings.String.StringSyntax.
From Acg Require Import Base.Str Base.Outcome Model.JsonSchemaSem.
Import ListNotations.
Open Scope Z_scope.

Inductive prim : Type := PBool | PInt | PFloat | PStr | PBytes.

Definition prim_eqb (a b : prim) : bool :=
  match a, b with
  | PBool, PBool | PInt, PInt | PFloat, PFloat | PStr, PStr | PBytes, PBytes => true
  | _, _ => false
  end.

(** The name of the [intermediate.PrimitiveType] literal (key of [_PRIMITIVE_MAP]). *)
Definition prim_key (p : prim) : text :=
  match p with
  | PBool => s2l "BOOL" | PInt => s2l "INT" | PFloat => s2l "FLOAT"
  | PStr => s2l "STR" | PBytes => s2l "BYTEARRAY"
  end.

Definition jtype_of_text (t : text) : option jtype :=
  if text_eqb t (s2l "string") then Some TyString
  else if text_eqb t (s2l "integer") then Some TyInteger
  else if text_eqb t (s2l "number") then Some TyNumber
  else if text_eqb t (s2l "boolean") then Some TyBoolean
  else if text_eqb t (s2l "array") then Some TyArray
  else if text_eqb t (s2l "object") then Some TyObject
  else if text_eqb t (s2l "null") then Some TyNull
  else None.

(** A type annotation beneath [Optional]; [id] is the identity of the annotation object
    (the key of [ConstraintsByValue]). A constrained primitive is its constrainee
    ([intermediate.try_primitive_type]). *)
Inductive tyanno : Type :=
| TAPrim (id : N) (p : prim)
| TAEnum (id : N) (name : text)
| TAClass (id : N) (name : text) (has_concrete_descendants : bool)
| TAList (id : N) (items : tyanno).

Definition ta_id (t : tyanno) : N :=
  match t with TAPrim i _ | TAEnum i _ | TAClass i _ _ | TAList i _ => i end.

(** [infer_for_schema.Constraints] restricted to what the generator reads. *)
Record constraints : Type := mkC {
  c_len : option (option Z * option Z);      (* LenConstraint(min_value, max_value) *)
  c_patterns : option (list text)            (* raw patterns, in order *)
}.

Definition cbv := list (N * constraints).    (* ConstraintsByValue, keyed by annotation id *)

Fixpoint cbv_get (m : cbv) (i : N) : option constraints :=
  match m with
  | [] => None
  | (j, c) :: r => if N.eqb i j then Some c else cbv_get r i
  end.

Record prop : Type := mkProp {
  p_name : text;            (* naming.json_property *)
  p_optional : bool;
  p_own : bool;             (* prop.specified_for is cls *)
  p_type : tyanno           (* beneath_optional *)
}.

Record parent : Type := mkParent {
  par_name : text; par_abstract : bool; par_wmt : bool
}.

Record cls : Type := mkCls {
  c_name : text;            (* naming.json_model_type *)
  c_abstract : bool;
  c_wmt : bool;             (* serialization.with_model_type *)
  c_parents : list parent;  (* inheritances, in order *)
  c_conc_desc : list text;  (* concrete_descendants, json model types *)
  c_in_props : bool;        (* id(cls) in collect_ids_of_our_types_in_properties *)
  c_props : list prop;
  c_cons : cbv
}.

Inductive our_type : Type :=
| OEnum (name : text) (values : list text)
| OCprim
| OClass (c : cls).

Definition b64len (n : Z) : Z := 4 * ((n + 2) / 3).

Definition opt_cons {A} (o : option A) (l : list A) : list A :=
  match o with Some x => x :: l | None => l end.

Section Gen.
  (** [_PRIMITIVE_MAP] (regenerated: Gen/GenJsonSchema.v) and [fix_pattern]. *)
  Variable primitive_map : list (text * text).
  Variable fixp : text -> text.

  Definition prim_jtype (p : prim) : option jtype :=
    match lookup (prim_key p) primitive_map with
    | Some n => jtype_of_text n
    | None => None
    end.

  Definition is_str_or_bytes (p : prim) : bool :=
    match p with PStr | PBytes => true | _ => false end.

  (** [_translate_constraints]: [None], or the subschemas of an [_AllOf]
      (base subschema first). *)
  Definition translate_constraints (t : tyanno) (c : constraints) : option (list (list kw)) :=
    let base_prim :=
      match t with
      | TAPrim _ p =>
          (if is_str_or_bytes p then
             match c_len c with
             | Some (mn, mx) =>
                 opt_cons (option_map KMinLength mn)
                   (opt_cons (option_map (fun m => KMaxLength
                                 (match p with PBytes => b64len m | _ => m end)) mx) [])
             | None => []
             end
           else [])
          ++
          (match p, c_patterns c with
           | PStr, Some (p0 :: _) => [KPattern (fixp p0)]
           | _, _ => []
           end)
      | _ => []
      end in
    let additional :=
      match t with
      | TAPrim _ PStr =>
          match c_patterns c with
          | Some (_ :: rest) => map (fun p => [KPattern (fixp p)]) rest
          | _ => []
          end
      | _ => []
      end in
    let base_list :=
      match t with
      | TAList _ _ =>
          match c_len c with
          | Some (mn, mx) =>
              opt_cons (option_map KMinItems mn) (opt_cons (option_map KMaxItems mx) [])
          | None => []
          end
      | _ => []
      end in
    let base := base_prim ++ base_list in
    match base with
    | [] => None
    | _ => Some (base :: additional)
    end.

  (** [_all_of_as_jsonable_mapping] *)
  Definition all_of_as_mapping (subs : list (list kw)) : list kw :=
    match subs with
    | [] => []                       (* excluded by the @require of _AllOf *)
    | [s] => s
    | s :: rest => s ++ [KAllOf (map Schema rest)]
    end.

  Definition ref_kw (name : text) : list kw := [KRef name].

  (** [_define_type]; [None] = KeyError / unknown JSON type name in [_PRIMITIVE_MAP]. *)
  Fixpoint define_type (m : cbv) (t : tyanno) : option (list kw) :=
    let finish (definition : list kw) :=
      match cbv_get m (ta_id t) with
      | None => definition
      | Some c =>
          match translate_constraints t c with
          | None => definition
          | Some [] => definition
          | Some (base :: rest) => all_of_as_mapping ((definition ++ base) :: rest)
          end
      end in
    match t with
    | TAPrim _ p =>
        match prim_jtype p with
        | Some ty =>
            Some (finish (KType ty ::
                          match p with
                          | PBytes => [KAnnot (s2l "contentEncoding") (s2l "base64")]
                          | _ => []
                          end))
        | None => None
        end
    | TAEnum _ name => Some (ref_kw name)
    | TAClass _ name true => Some (ref_kw (name ++ s2l "_choice"))
    | TAClass _ name false => Some (ref_kw name)
    | TAList _ items =>
        match define_type m items with
        | Some d => Some (finish [KType TyArray; KItems (Schema d)])
        | None => None
        end
    end.

  (** [LenConstraint.equals] *)
  Definition optz_eqb (a b : option Z) : bool := option_eqb Z.eqb a b.
  Definition len_equals (a b : option Z * option Z) : bool :=
    optz_eqb (fst a) (fst b) && optz_eqb (snd a) (snd b).

  (** [tightening_steps_from_other_to_that_constraints] (length and patterns; the set
      constraints are not read by this generator). *)
  Definition tightening_steps (that other : constraints) : outcome constraints unit :=
    do len <- (match c_len other with
               | Some ol =>
                   match c_len that with
                   | None => Crash AssertionError
                   | Some tl => Ok (if len_equals tl ol then None else Some tl)
                   end
               | None => Ok (c_len that)
               end);
    do pats <- (match c_patterns other with
                | Some op =>
                    match c_patterns that with
                    | None => Crash AssertionError
                    | Some tp =>
                        if forallb (fun p => mem_text p tp) op then
                          match filter (fun p => negb (mem_text p op)) tp with
                          | [] => Ok None
                          | l => Ok (Some l)
                          end
                        else Crash AssertionError
                    end
                | None => Ok (c_patterns that)
                end);
    Ok (mkC len pats).

  Section Classes.
    (** [constraints_by_class], by JSON model type of the class. *)
    Variable cons_of : text -> option cbv.

    Fixpoint tighten_over (parents : list parent) (t : tyanno) (c : constraints)
      : outcome constraints unit :=
      match parents with
      | [] => Ok c
      | p :: r =>
          match cons_of (par_name p) with
          | None => Crash KeyError
          | Some pm =>
              match cbv_get pm (ta_id t) with
              | Some pc => do c' <- tightening_steps c pc; tighten_over r t c'
              | None => tighten_over r t c
              end
          end
      end.

    (** [_define_properties]: the [properties] mapping without [modelType]. *)
    Fixpoint define_properties_loop (c : cls) (ps : list prop)
      : outcome (list (text * schema)) unit :=
      match ps with
      | [] => Ok []
      | p :: r =>
          do here <-
            (if p_own p then
               match define_type (c_cons c) (p_type p) with
               | Some d => Ok (Some d)
               | None => Crash KeyError
               end
             else
               match cbv_get (c_cons c) (ta_id (p_type p)) with
               | None => Ok None
               | Some k =>
                   do k' <- tighten_over (c_parents c) (p_type p) k;
                   Ok (option_map all_of_as_mapping (translate_constraints (p_type p) k'))
               end);
          do rest <- define_properties_loop c r;
          Ok (match here with
              | Some (k0 :: kr) => (p_name p, Schema (k0 :: kr)) :: rest
              | _ => rest
              end)
      end.

    Definition define_properties (c : cls) := define_properties_loop c (c_props c).

    (** [_list_required_properties] *)
    Definition list_required (c : cls) : list text :=
      map p_name (filter (fun p => p_own p && negb (p_optional p)) (c_props c)).

    (** [_define_all_of_for_inheritance] *)
    Definition all_of_for_inheritance (c : cls) : list schema :=
      map (fun p => Schema (ref_kw (if par_abstract p then par_name p
                                    else par_name p ++ s2l "_abstract"))) (c_parents c).

    Definition is_nil {A} (l : list A) : bool := match l with [] => true | _ => false end.

    Definition body_definition (c : cls) (properties : list (text * schema))
               (required : list text) : list kw :=
      (if is_nil (c_parents c) then [KType TyObject] else [])
      ++ (if is_nil properties then []
          else KProperties properties ::
               (if is_nil required then [] else [KRequired required])).

    Definition wrap_all_of (all_of : list schema) : schema :=
      match all_of with
      | [] => Schema [KType TyObject]
      | [s] => s
      | _ => Schema [KAllOf all_of]
      end.

    Definition model_type_kw : text := s2l "modelType".

    (** [_generate_inheritable_definition] (requires concrete descendants) *)
    Definition inheritable_definition (c : cls) : outcome (text * schema) unit :=
      if is_nil (c_conc_desc c) then Crash Violation else
      do props <- define_properties c;
      let root_wmt := c_wmt c && negb (existsb par_wmt (c_parents c)) in
      let props' := if root_wmt
                    then props ++ [(model_type_kw, Schema (ref_kw (s2l "ModelType")))]
                    else props in
      let required := list_required c ++ (if root_wmt then [model_type_kw] else []) in
      let definition := body_definition c props' required in
      let all_of := all_of_for_inheritance c
                    ++ (if is_nil definition then [] else [Schema definition]) in
      Ok (if c_abstract c then c_name c else c_name c ++ s2l "_abstract", wrap_all_of all_of).

    (** [_generate_choice_definition] *)
    Definition choice_definition (c : cls) : outcome (text * schema) unit :=
      if is_nil (c_conc_desc c) then Crash Violation else
      Ok (c_name c ++ s2l "_choice",
          Schema [KOneOf ((if c_abstract c then [] else [Schema (ref_kw (c_name c))])
                          ++ map (fun d => Schema (ref_kw d)) (c_conc_desc c))]).

    Definition const_model_type (c : cls) : text * schema :=
      (model_type_kw, Schema [KConst (c_name c)]).

    (** [_generate_concrete_definition] *)
    Definition concrete_definition (c : cls) : outcome (text * schema) unit :=
      if negb (is_nil (c_conc_desc c)) then
        if c_wmt c then
          Ok (c_name c,
              Schema [KAllOf [Schema (ref_kw (c_name c ++ s2l "_abstract"));
                              Schema [KProperties [const_model_type c]]]])
        else Crash AssertionError
      else
      do props <- define_properties c;
      let props' := if c_wmt c then props ++ [const_model_type c] else props in
      let definition := body_definition c props' (list_required c) in
      Ok (c_name c, wrap_all_of (all_of_for_inheritance c ++ [Schema definition])).

    (** The loop of [generate] over [symbol_table.our_types] (implementation-specific
        classes are excluded from the view by the harness: their definitions are snippets). *)
    Fixpoint definitions_loop (ts : list our_type) : outcome (list (text * schema)) unit :=
      match ts with
      | [] => Ok []
      | t :: r =>
          do here <-
            (match t with
             | OEnum name values =>
                 Ok [(name, Schema [KType TyString; KEnum (sort_by text_leb values)])]
             | OCprim => Ok []
             | OClass c =>
                 do inh <- (if is_nil (c_conc_desc c) then Ok []
                            else
                              do i <- inheritable_definition c;
                              do ch <- (if negb (c_abstract c) || c_in_props c
                                        then do x <- choice_definition c; Ok [x]
                                        else Ok []);
                              Ok (i :: ch));
                 do conc <- (if c_abstract c then Ok []
                             else do x <- concrete_definition c; Ok [x]);
                 Ok (inh ++ conc)
             end);
          do rest <- definitions_loop r;
          Ok (here ++ rest)
      end.
  End Classes.

  Definition cons_table (ts : list our_type) : text -> option cbv :=
    fun name =>
      match find (fun t => match t with
                           | OClass c => text_eqb (c_name c) name
                           | _ => false
                           end) ts with
      | Some (OClass c) => Some (c_cons c)
      | _ => None
      end.

  (** [sorted(json_model_type(cls.name) for cls in concrete_classes if with_model_type)] *)
  Definition model_types (ts : list our_type) : list text :=
    sort_by text_leb
      (flat_map (fun t => match t with
                          | OClass c => if negb (c_abstract c) && c_wmt c then [c_name c] else []
                          | _ => []
                          end) ts).

  (** The [definitions] object (unsorted; [ModelType] last). *)
  Definition gen (ts : list our_type) : outcome (list (text * schema)) unit :=
    do ds <- definitions_loop (cons_table ts) ts;
    Ok (ds ++ [(s2l "ModelType", Schema [KType TyString; KEnum (model_types ts)])]).
End Gen.
