(** Control-flow skeletons of the [execute] functions (C03; also used by C28).

    A skeleton abstracts a Python function that receives [stdout]/[stderr]: every
    condition is non-deterministic, statements that do not touch the streams are
    [Opaque], string templates keep their constant fragments. Continuation style: every
    statement carries the rest of its block. Regenerated from the sources into
    [Gen/GenSkeletons.v] on every run. Executable definitions only (the trace semantics
    [exec] is an inductive relation, it contains no proof). *)
From Coq Require Import List NArith ZArith Bool.
From Acg Require Import Base.Str.
Import ListNotations.
Open Scope Z_scope.

Inductive frag := Lit (t : text) | Hole.

Inductive err_kind :=
| ErrReport (headline : list frag) (uses : list text)   (* run.write_error_report(...) *)
| ErrLine (tmpl : list frag) (uses : list text)         (* stderr.write(f"...\n") *)
| ErrDynamic (uses : list text).                        (* stderr.write(<variable>) *)

Inductive skel :=
| Done                                   (* end of the block: fall through *)
| Opaque (k : skel)
| WriteErr (e : err_kind) (k : skel)
| WriteOut (tmpl : list frag) (k : skel)
| Ret (z : Z)
| RetCall (callee : text)                (* return <callee>.execute(..., stdout, stderr) *)
| Abort                                  (* assert_never(...): raises *)
| If (guard : option text) (a b : skel) (k : skel)
| Loop (a : skel) (k : skel).

Inductive event := EvErr (e : err_kind) | EvOut (tmpl : list frag).
Inductive term := Fell | Returned (z : Z) | Delegated (callee : text).

(** Traces. *)
Inductive exec : skel -> list event -> term -> Prop :=
| EDone : exec Done [] Fell
| EOpaque k tr t : exec k tr t -> exec (Opaque k) tr t
| EWriteErr e k tr t : exec k tr t -> exec (WriteErr e k) (EvErr e :: tr) t
| EWriteOut o k tr t : exec k tr t -> exec (WriteOut o k) (EvOut o :: tr) t
| ERet z : exec (Ret z) [] (Returned z)
| ERetCall c : exec (RetCall c) [] (Delegated c)
| EIfThenExit g a b k tr t : exec a tr t -> t <> Fell -> exec (If g a b k) tr t
| EIfThenFall g a b k tr1 tr2 t :
    exec a tr1 Fell -> exec k tr2 t -> exec (If g a b k) (tr1 ++ tr2) t
| EIfElseExit g a b k tr t : exec b tr t -> t <> Fell -> exec (If g a b k) tr t
| EIfElseFall g a b k tr1 tr2 t :
    exec b tr1 Fell -> exec k tr2 t -> exec (If g a b k) (tr1 ++ tr2) t
| ELoopEnd a k tr t : exec k tr t -> exec (Loop a k) tr t
| ELoopExit a k tr t : exec a tr t -> t <> Fell -> exec (Loop a k) tr t
| ELoopNext a k tr1 tr2 t :
    exec a tr1 Fell -> exec (Loop a k) tr2 t -> exec (Loop a k) (tr1 ++ tr2) t.

(** ["Code generated to: " <hole> "\n"] *)
Definition generated_prefix : text :=
  [67;111;100;101;32;103;101;110;101;114;97;116;101;100;32;116;111;58;32]%N.
Definition is_generated_line (tmpl : list frag) : bool :=
  match tmpl with
  | [Lit p; Hole; Lit nl] => text_eqb p generated_prefix && text_eqb nl [NL]
  | _ => false
  end.

(** After a write to stderr only further writes to stderr and opaque statements may
    follow, then a non-zero return. *)
Fixpoint err_exit (s : skel) : bool :=
  match s with
  | WriteErr _ k | Opaque k => err_exit k
  | Ret z => negb (z =? 0)
  | _ => false
  end.

(** The contract check. Started with nothing written, a checked skeleton either falls
    through with nothing written, delegates with nothing written, returns non-zero right
    after writing to stderr, or returns 0 right after writing the "Code generated to"
    line to stdout. *)
Fixpoint check_contract (s : skel) : bool :=
  match s with
  | Done => true
  | Opaque k => check_contract k
  | WriteErr _ k => err_exit k
  | WriteOut o k => is_generated_line o && match k with Ret z => z =? 0 | _ => false end
  | Ret _ => false
  | RetCall _ => true
  | Abort => true
  | If _ a b k => check_contract a && check_contract b && check_contract k
  | Loop a k => check_contract a && check_contract k
  end.

(** Errors are not dropped: a branch guarded by an error variable starts by writing a
    report that uses that variable. *)
Definition err_uses (e : err_kind) : list text :=
  match e with ErrReport _ u | ErrLine _ u | ErrDynamic u => u end.
Fixpoint starts_with_report_of (v : text) (s : skel) : bool :=
  match s with
  | Opaque k => starts_with_report_of v k
  | WriteErr e _ => mem_text v (err_uses e)
  | _ => false
  end.
Fixpoint errors_reported (s : skel) : bool :=
  match s with
  | Done | Ret _ | RetCall _ | Abort => true
  | Opaque k | WriteErr _ k | WriteOut _ k => errors_reported k
  | If g a b k =>
      match g with Some v => starts_with_report_of v a | None => true end
      && errors_reported a && errors_reported b && errors_reported k
  | Loop a k => errors_reported a && errors_reported k
  end.

(** Headline constants. *)
Fixpoint headlines (s : skel) : list (list frag) :=
  match s with
  | Done | Ret _ | RetCall _ | Abort => []
  | Opaque k | WriteOut _ k => headlines k
  | WriteErr (ErrReport h _) k => h :: headlines k
  | WriteErr _ k => headlines k
  | If _ a b k => headlines a ++ headlines b ++ headlines k
  | Loop a k => headlines a ++ headlines k
  end.
Definition frag_one_line (f : frag) : bool :=
  match f with Lit t => negb (memN NL t) | Hole => true end.
Definition headline_one_line (h : list frag) : bool := forallb frag_one_line h.

(** Properties of traces. *)
Definition is_err (ev : event) : bool := match ev with EvErr _ => true | _ => false end.
Definition stderr_of (tr : list event) : list event := filter is_err tr.
Definition last_out (tr : list event) : option (list frag) :=
  fold_left (fun acc ev => match ev with EvOut o => Some o | _ => acc end) tr None.
