"""C15 — Schema constraint inference equals the invariant conjunction
(infer_for_schema: _len.py, _pattern.py, _set.py, _inline.py, match.py, _types.py)."""
from __future__ import annotations

import copy
import itertools
import json
import operator
from typing import Any, Dict, List, Optional, Tuple

from harness import lib
from harness.gen import infer as G

META = {
    "title": "Schema constraint inference equals the invariant conjunction",
    "design_ref": "§4 C15",
    "level_text": (
        "Coq theorems for all inputs over Gallina models of the matchers (six comparators x "
        "both operand orders, guarded forms), of _reduce_constraints / min,max_with_none, of "
        "LenConstraint's precondition, of the _merge_* functions, the literal-set "
        "intersections and the stacking along the inheritance order; the comparator table "
        "and LENGTHABLE_PRIMITIVES are re-translated from the source on every run; the model "
        "is tied to the code by a correspondence stream (meta-model text -> real front end -> "
        "infer_constraints_by_class, compared inside Coq) and the property is run directly on "
        "the implementation (brute force over lengths 0..80) to obtain replays."
    ),
    "level_note": (
        "Trusted: the hand-written models agree with the code beyond the sampled inputs; the "
        "generator's rendering of an abstract invariant as source text parses to the tree the "
        "model is given (checked only through the correspondence); regular-expression "
        "satisfiability is out of scope (patterns are compared as sets); an empty literal-set "
        "intersection is an exact but unreported empty constraint."
    ),
    "technique": "Coq proof (fold invariants, case analysis on the comparator table) + "
                 "in-Coq correspondence check + brute-force property oracle",
}
GEN = ["GenInfer"]
MODEL = ["Model/InferInline", "Gen/GenInfer"]
TRUSTED = [
    "Model/InferExpr.v, LenInfer.v, PatternInfer.v, SetInfer.v, InferInline.v are hand-written "
    "models of infer_for_schema (correspondence-checked on every run)",
    "harness/translate/infer.py (comparator table of _match_len_constraint_on_member_or_name, "
    "LENGTHABLE_PRIMITIVES) via Python's ast",
    "harness/gen/infer.py renders abstract invariants to meta-model text; the real parser "
    "(parse/_rules.py) turns it into the tree the model receives",
]
RULE = ("case = one generated meta-model (<= 6 classes in chains/branches, <= 3 constrained "
        "primitives, length bounds with all six operators, both operand orders, constants "
        "-2..70, guards on the same / another property, pattern calls, constant-set "
        "membership, unrecognised forms; constrained-primitive chains of depth 3..5 declared in "
        "shuffled, non-topological text order, also after the classes using them; constrained "
        "primitives with two parents and diamonds of classes whose branches constrain the same "
        "value, compatible or excluding each other; one to three enumerations sharing literal names, "
        "several constant sets per element type, memberships whose set matches / does not match "
        "the property's type); non-trivial = at least one (class, property) whose "
        "expected constraint combines >= 2 recognised invariants or crosses an inheritance "
        "edge, or an expected error; distinct by model text")

HEADER = """From Coq Require Import List NArith ZArith Bool.
From Acg Require Import Base.Str Base.Outcome Model.InferExpr Model.LenInfer
     Model.PatternInfer Model.SetInfer Model.InferInline.
Import ListNotations.
Open Scope N_scope.
Definition case_ok (c : mmodel * obs) : bool := obs_eqb (obs_of (observe (fst c))) (snd c).
Fixpoint bad_from (i : nat) (cs : list (mmodel * obs)) : list nat :=
  match cs with
  | [] => []
  | c :: r => if case_ok c then bad_from (S i) r else i :: bad_from (S i) r
  end.
Definition bad := bad_from 0.
"""

UNIT_HEADER = """From Coq Require Import List NArith ZArith Bool.
From Acg Require Import Base.Str Base.Outcome Model.InferExpr Model.LenInfer.
Import ListNotations.
Open Scope Z_scope.
(* expected: 0 = error list, 1 = exception, 2 = range *)
Definition res_eqb (o : outcome lenc (list rerr)) (e : nat * (option Z * option Z)) : bool :=
  match o, e with
  | Err _, (0%nat, _) => true
  | Crash _, (1%nat, _) => true
  | Ok (a, b), (2%nat, (a', b')) => option_eqb Z.eqb a a' && option_eqb Z.eqb b b'
  | _, _ => false
  end.
Definition mres_eqb (o : outcome (option lenc) nat) (e : nat * (option Z * option Z)) : bool :=
  match o, e with
  | Crash _, (1%nat, _) => true
  | Ok (Some (a, b)), (2%nat, (a', b')) => option_eqb Z.eqb a a' && option_eqb Z.eqb b b'
  | _, _ => false
  end.
Definition case_ok (c : (list lc + (lenc * lenc)) * (nat * (option Z * option Z))) : bool :=
  match fst c with
  | inl cs => res_eqb (reduce cs) (snd c)
  | inr (a, b) => mres_eqb (merge_len (Some a) (Some b)) (snd c)
  end.
Fixpoint bad_from (i : nat) (cs : list ((list lc + (lenc * lenc)) * (nat * (option Z * option Z))))
  : list nat :=
  match cs with
  | [] => []
  | c :: r => if case_ok c then bad_from (S i) r else i :: bad_from (S i) r
  end.
Definition bad := bad_from 0.
"""

PYOP = {"<": operator.lt, "<=": operator.le, "==": operator.eq, ">": operator.gt,
        ">=": operator.ge, "!=": operator.ne}
EXC_TO_COQ = {"ViolationError": "Violation", "AssertionError": "AssertionError",
              "ValueError": "ValueError", "KeyError": "KeyError", "IndexError": "IndexError",
              "TypeError": "TypeError", "NotImplementedError": "NotImplementedError",
              "RecursionError": "RecursionError"}
LENS = range(0, 81)


# ---------------------------------------------------------------------------------
# the property statement, executed on the implementation's answer
# ---------------------------------------------------------------------------------
def recognised(tag) -> bool:
    return tag[-1] is None or tag[-1] == "same"


def tags_of(mm, owners: List[dict], prop: str) -> List[list]:
    out = []
    for o in owners:
        for inv in o["invs"]:
            for tag in inv["tags"]:
                if tag[0] in ("len", "pat", "set") and tag[1] == prop and recognised(tag):
                    out.append(tag)
    return out


def expectation(mm) -> Dict[str, Any]:
    """Meaning of the recognised invariants, by brute force."""
    cls_by = G.class_by_name(mm)
    cp_by = G.cprim_by_name(mm)
    pat_of = dict((f, p) for f, p in mm["patterns"])
    const_of = dict((k[0], k) for k in mm["consts"])
    expect_err = []
    for c in mm["classes"]:
        for inv in c["invs"]:
            for tag in inv["tags"]:
                if tag[0] == "expect_err":
                    expect_err.append(f"{c['name']}: {tag[1]}")

    def cp_tags(name):
        chain = [cp_by[n] for n in G.cprim_chain(mm, name)]
        tags = tags_of(mm, chain, "self")
        base = cp_by[name]["base"]
        return [t for t in tags if (t[0] == "len" and base in ("str", "bytearray"))
                or (t[0] == "pat" and base == "str")]

    def meaning(tags):
        lens = [t for t in tags if t[0] == "len"]
        admitted = [n for n in LENS
                    if all(PYOP[t[2]](n, t[3]) if t[4] == "L" else PYOP[t[2]](t[3], n)
                           for t in lens)]
        pats = sorted(set(pat_of[t[2]] for t in tags if t[0] == "pat"))
        setp = None
        sete = None
        for t in tags:
            if t[0] != "set":
                continue
            k = const_of[t[2]]
            if k[1] == "enum":
                vals = set(k[2][1])
                sete = vals if sete is None else sete & vals
            else:
                vals = set(k[2])
                setp = vals if setp is None else setp & vals
        return {"n_len": len(lens), "admitted": admitted, "pats": pats,
                "setp": None if setp is None else sorted(setp),
                "sete": None if sete is None else sorted(sete), "n_tags": len(tags)}

    unsat = []
    for cp in mm["cprims"]:
        m = meaning(cp_tags(cp["name"]))
        if not m["admitted"]:
            unsat.append(f"constrained primitive {cp['name']}")
    per = {}
    nontrivial = False
    for c in mm["classes"]:
        owners = [cls_by[n] for n in G.ancestors_and_self(mm, c["name"])]
        per[c["name"]] = {}
        for pn, pt in G.all_props(mm, c["name"]):
            lv_out = []
            for i, lv in enumerate(G.levels(pt)):
                tags = tags_of(mm, owners, pn) if i == 0 else []
                n_own = len(tags)
                if lv[0] == "our" and lv[1] in cp_by:
                    tags = tags + cp_tags(lv[1])
                m = meaning(tags)
                if not m["admitted"]:
                    unsat.append(f"{c['name']}.{pn} level {i}")
                if m["n_tags"] >= 2 and (len(owners) > 1 or n_own < m["n_tags"]):
                    nontrivial = True
                lv_out.append(m)
            per[c["name"]][pn] = lv_out
    return {"expect_err": expect_err, "unsat": unsat, "per": per,
            "nontrivial": nontrivial or bool(unsat) or bool(expect_err)}


def oracle(mm, res, exp=None) -> List[Tuple[str, str]]:
    """Kinds of violations of the property by the implementation's answer ``res``."""
    exp = exp or expectation(mm)
    fails: List[Tuple[str, str]] = []
    if "exc" in res:
        return [(f"exception-{res['exc']}-in-{res.get('at', '?')}",
                 f"infer_constraints_by_class raised {res['exc']} in {res.get('at', '?')}")]
    must_err = exp["expect_err"] or exp["unsat"]
    if "err" in res:
        if not must_err:
            fails.append(("spurious-error",
                          "errors reported although all recognised constraints are satisfiable"))
        return fails
    if exp["unsat"]:
        fails.append(("unsat-not-reported", "unsatisfiable: " + "; ".join(exp["unsat"][:3])))
    elif exp["expect_err"]:
        fails.append(("error-not-reported", "; ".join(exp["expect_err"][:3])))
    for cname, props in exp["per"].items():
        for pn, lvls in props.items():
            got_lvls = res["ok"].get(cname, {}).get(pn)
            if got_lvls is None or len(got_lvls) != len(lvls):
                fails.append(("shape", f"{cname}.{pn}: levels {got_lvls}"))
                continue
            for i, (m, got) in enumerate(zip(lvls, got_lvls)):
                where = f"{cname}.{pn}[{i}]"
                rng_ = (got or {}).get("len")
                lo, hi = rng_ if rng_ else (None, None)
                adm = set(m["admitted"])
                if adm:
                    for n in LENS:
                        inside = (lo is None or lo <= n) and (hi is None or n <= hi)
                        if inside and n not in adm:
                            fails.append(("len-too-loose",
                                          f"{where}: inferred [{lo},{hi}] admits {n}, the "
                                          f"recognised invariants do not"))
                            break
                        if not inside and n in adm:
                            fails.append(("len-too-tight",
                                          f"{where}: inferred [{lo},{hi}] rejects {n}, which "
                                          f"satisfies all recognised invariants"))
                            break
                gp = sorted(set((got or {}).get("pats") or []))
                if gp != m["pats"]:
                    fails.append(("patterns-too-many" if set(gp) - set(m["pats"])
                                  else "patterns-missing",
                                  f"{where}: inferred {gp}, expected {m['pats']}"))
                gs = (got or {}).get("setp")
                gs = None if gs is None else sorted(set(gs[1]))
                if gs != m["setp"]:
                    fails.append(("set-mismatch", f"{where}: inferred {gs}, expected {m['setp']}"))
                ge = (got or {}).get("sete")
                ge = None if ge is None else sorted(set(ge[1]))
                if ge != m["sete"]:
                    fails.append(("enum-set-mismatch",
                                  f"{where}: inferred {ge}, expected {m['sete']}"))
    # one per kind
    seen = set()
    out = []
    for k, d in fails:
        if k not in seen:
            seen.add(k)
            out.append((k, d))
    return out


# ---------------------------------------------------------------------------------
# Coq rendering of the implementation's answer
# ---------------------------------------------------------------------------------
def coq_opt(x: Optional[str]) -> str:
    return "None" if x is None else f"(Some {x})"


def coq_z(n) -> str:
    return f"({n})%Z"


def coq_constraints(c) -> str:
    if c is None:
        return "None"
    ln = None
    if c["len"] is not None:
        lo, hi = c["len"]
        ln = f"({coq_opt(None if lo is None else coq_z(lo))}, {coq_opt(None if hi is None else coq_z(hi))})"
    pats = None if c["pats"] is None else G.coq_list(G.coq_text(p) for p in c["pats"])
    setp = None
    if c["setp"] is not None:
        setp = f"({G.COQ_PRIM[c['setp'][0]]}, {G.coq_list(G.coq_lit(v) for v in c['setp'][1])})"
    sete = None
    if c["sete"] is not None:
        sete = f"({G.coq_text(c['sete'][0])}, {G.coq_list(G.coq_text(v) for v in c['sete'][1])})"
    return f"(Some (mk_constraints {coq_opt(ln)} {coq_opt(pats)} {coq_opt(setp)} {coq_opt(sete)}))"


def coq_obs(mm, res) -> str:
    if "exc" in res:
        return f"(ObsExc {EXC_TO_COQ.get(res['exc'], 'OutOfFuel')})"
    if "err" in res:
        return "ObsErr"
    classes = []
    for c in mm["classes"]:
        props = []
        for pn, _ in G.all_props(mm, c["name"]):
            lv = res["ok"].get(c["name"], {}).get(pn, [])
            props.append(G.coq_list(coq_constraints(x) for x in lv))
        classes.append(G.coq_list(props))
    return f"(ObsOk {G.coq_list(classes)})"


# ---------------------------------------------------------------------------------
# corpus: minimised past disagreements and the witnesses of the repaired defects
# ---------------------------------------------------------------------------------
def _cls(name, parents, props, invs):
    return {"name": name, "parents": parents, "props": props, "invs": invs}


def _mm(classes, cprims=(), patterns=(), consts=(), enums=()):
    return {"patterns": [list(p) for p in patterns], "plain_fns": [],
            "consts": [list(c) for c in consts], "enums": [list(e) for e in enums],
            "cprims": list(cprims), "classes": list(classes)}


def _len(prop, op, c, side="L", guard=None, form="or"):
    target = ["name", "self"] if prop == "self" else G.self_prop(prop)
    core = ["cmp", op, G.len_of(target), ["int", c]] if side == "L" \
        else ["cmp", op, ["int", c], G.len_of(target)]
    e = core
    tag_guard = None
    if guard is not None:
        tag_guard = "same" if guard == prop else ["other", guard]
        e = ["or", [["isnone", G.self_prop(guard)], core]] if form == "or" \
            else ["impl", ["isnotnone", G.self_prop(guard)], core]
    return {"e": e, "tags": [["len", prop, op, c, side, tag_guard]]}


STR = ["prim", "str"]
OSTR = ["opt", ["prim", "str"]]


def corpus() -> List[dict]:
    out = []
    # guard on another property (length, pattern, set)
    out.append(_mm([_cls("C0", [], [["a", OSTR], ["b", STR]], [_len("b", "<", 3, guard="a")])]))
    out.append(_mm([_cls("C0", [], [["a", OSTR], ["b", STR]],
                         [_len("b", ">=", 2, guard="a", form="impl")])]))
    out.append(_mm([_cls("C0", [], [["a", OSTR], ["b", STR]],
                         [{"e": ["or", [["isnone", G.self_prop("a")],
                                        ["call", "F0", [G.self_prop("b")]]]],
                           "tags": [["pat", "b", "F0", ["other", "a"]]]}])],
                   patterns=[["F0", "^a+$"]]))
    out.append(_mm([_cls("C0", [], [["a", OSTR], ["b", STR]],
                         [{"e": ["or", [["isnone", G.self_prop("a")],
                                        ["isin", G.self_prop("b"), ["name", "S0"]]]],
                           "tags": [["set", "b", "S0", ["other", "a"]]]}])],
                   consts=[["S0", "str", ["A", "B"]]]))
    # equal exact lengths
    out.append(_mm([_cls("C0", [], [["b", STR]], [_len("b", "==", 5), _len("b", "==", 5, "R")])]))
    # minimum zero with a maximum; exact zero; negative bounds
    out.append(_mm([_cls("C0", [], [["b", STR]], [_len("b", ">=", 0), _len("b", "<=", 5)])]))
    out.append(_mm([_cls("C0", [], [["b", STR]], [_len("b", "==", 0)])]))
    out.append(_mm([_cls("C0", [], [["b", STR]], [_len("b", ">", -2), _len("b", "<", 4)])]))
    out.append(_mm([_cls("C0", [], [["b", STR]], [_len("b", "<", 0)])]))
    out.append(_mm([_cls("C0", [], [["b", STR]], [_len("b", "==", -1)])]))
    # contradiction across inheritance, with a constrained primitive, between primitives
    out.append(_mm([_cls("C0", [], [["b", STR]], [_len("b", "<=", 3)]),
                    _cls("C1", ["C0"], [], [_len("b", ">=", 5)])]))
    out.append(_mm([_cls("C0", [], [["b", ["our", "P0"]]], [_len("b", ">=", 5)])],
                   cprims=[{"name": "P0", "base": "str", "parents": [],
                            "invs": [_len("self", "<=", 3)]}]))
    out.append(_mm([_cls("C0", [], [["b", ["our", "P1"]]], [])],
                   cprims=[{"name": "P0", "base": "str", "parents": [],
                            "invs": [_len("self", "<=", 3)]},
                           {"name": "P1", "base": "str", "parents": ["P0"],
                            "invs": [_len("self", ">", 4, "L")]}]))
    # satisfiable stacking, list of constrained primitives, patterns de-duplicated
    out.append(_mm([_cls("C0", [], [["b", ["list", ["our", "P0"]]]], [_len("b", ">=", 1)]),
                    _cls("C1", ["C0"], [], [_len("b", "<", 9, "L"), _len("b", "<=", 3, "R")])],
                   cprims=[{"name": "P0", "base": "str", "parents": [],
                            "invs": [_len("self", "<=", 3),
                                     {"e": ["call", "F0", [["name", "self"]]],
                                      "tags": [["pat", "self", "F0", None]]}]}],
                   patterns=[["F0", "^a+$"]]))
    # literal sets: intersection across inheritance, duplicated literal
    def isin(p, c):
        return {"e": ["isin", G.self_prop(p), ["name", c]], "tags": [["set", p, c, None]]}
    out.append(_mm([_cls("C0", [], [["b", STR]], [isin("b", "S0")]),
                    _cls("C1", ["C0"], [], [isin("b", "S1")])],
                   consts=[["S0", "str", ["A", "B", "C"]], ["S1", "str", ["C", "B", "D"]]]))
    out.append(_mm([_cls("C0", [], [["b", STR]], [isin("b", "S0"), isin("b", "S1")])],
                   consts=[["S0", "str", ["A", "B", "A"]], ["S1", "str", ["A"]]]))
    out.append(_mm([_cls("C0", [], [["b", STR]], [isin("b", "S0")]),
                    _cls("C1", ["C0"], [], [isin("b", "S1")])],
                   consts=[["S0", "str", ["A", "A"]], ["S1", "str", ["B"]]]))
    # declaration order of the text differs from the topological order (seeded change
    # C15-2: the stacking of constrained primitives iterated in declaration order, so that
    # a descendant declared before its parent lost its grand-ancestor's constraints)
    def pat_self(f):
        return {"e": ["call", f, [["name", "self"]]], "tags": [["pat", "self", f, None]]}
    chain = [{"name": "P0", "base": "str", "parents": [], "invs": [_len("self", "<=", 10)]},
             {"name": "P1", "base": "str", "parents": ["P0"], "invs": [pat_self("F0")]},
             {"name": "P2", "base": "str", "parents": ["P1"], "invs": [_len("self", ">=", 2)]}]
    m = _mm([_cls("C0", [], [["b", ["our", "P2"]]], [])], cprims=copy.deepcopy(chain),
            patterns=[["F0", "^a+$"]])
    m["decl_order"] = ["P2", "P1", "P0", "C0"]
    out.append(m)
    m = _mm([_cls("C0", [], [["b", ["list", ["our", "P2"]]], ["c", ["opt", ["our", "P1"]]]],
                  [_len("b", "<", 4)])], cprims=copy.deepcopy(chain), patterns=[["F0", "^a+$"]])
    m["decl_order"] = ["C0", "P1", "P2", "P0"]
    out.append(m)
    # ... and the contradiction with the grand-ancestor must still be reported
    chain2 = copy.deepcopy(chain)
    chain2[2]["invs"] = [_len("self", ">", 12, "L")]
    m = _mm([_cls("C0", [], [["b", ["our", "P2"]]], [])], cprims=chain2, patterns=[["F0", "^a+$"]])
    m["decl_order"] = ["P2", "P1", "P0", "C0"]
    out.append(m)
    # several parents (seeded change C02-2: each parent was checked against the child's OWN
    # constraints instead of the ones accumulated from the earlier parents, so two parents
    # excluding each other violated the precondition of LenConstraint)
    def cpj(inv_a, inv_b, own, grand=None):
        cps = []
        if grand is not None:
            cps.append({"name": "PG", "base": "str", "parents": [], "invs": [grand]})
        par = ["PG"] if grand is not None else []
        cps += [{"name": "P0", "base": "str", "parents": list(par), "invs": [inv_a]},
                {"name": "P1", "base": "str", "parents": list(par), "invs": [inv_b]},
                {"name": "P2", "base": "str", "parents": ["P0", "P1"], "invs": own}]
        return _mm([_cls("C0", [], [["b", ["our", "P2"]]], [])], cprims=cps,
                   patterns=[["F0", "^a+$"]])
    out.append(cpj(_len("self", ">=", 5), _len("self", "<=", 3), []))
    out.append(cpj(_len("self", "<=", 3), _len("self", ">=", 5), [_len("self", "<=", 9)]))
    out.append(cpj(_len("self", ">=", 2), _len("self", "<=", 9), [pat_self("F0")]))
    out.append(cpj(_len("self", ">=", 2), _len("self", "<=", 9), [], grand=_len("self", "<", 7)))
    out.append(cpj(_len("self", ">=", 8), _len("self", "<=", 9), [], grand=_len("self", "<", 7)))
    # ... and the same for classes: a diamond whose branches constrain the inherited property
    def diamond(inv_l, inv_r, own, consts=()):
        return _mm([_cls("C0", [], [["b", STR]], [_len("b", ">=", 1)]),
                    _cls("C1", ["C0"], [], inv_l), _cls("C2", ["C0"], [], inv_r),
                    _cls("C3", ["C1", "C2"], [], own)], consts=consts,
                   patterns=[["F0", "^a+$"]])
    out.append(diamond([_len("b", ">=", 5)], [_len("b", "<=", 3)], []))
    out.append(diamond([_len("b", ">=", 5)], [_len("b", "<=", 9)], [_len("b", "<", 8, "L")]))
    out.append(diamond([isin("b", "S0"), _len("b", ">=", 2)],
                       [isin("b", "S1"),
                        {"e": ["call", "F0", [G.self_prop("b")]], "tags": [["pat", "b", "F0", None]]}],
                       [], consts=[["S0", "str", ["A", "B", "C"]], ["S1", "str", ["C", "B", "D"]]]))
    # constant sets whose element type does / does not match the property (seeded change
    # C02-4: a set of ANOTHER enumeration was accepted on an enumeration property; a second
    # membership then violated a precondition, or raised ValueError across inheritance)
    ENUMS = [["E0", ["L0", "L1", "L2"]], ["E1", ["L0", "L2", "L3"]]]
    SETS = [["ES0", "enum", ["E0", ["L0", "L1"]]], ["ES0b", "enum", ["E0", ["L1", "L2"]]],
            ["ES1", "enum", ["E1", ["L0"]]], ["S0", "str", ["A", "B"]], ["I0", "int", [1, 2]]]
    PROPS = [["e", ["our", "E0"]], ["f", ["opt", ["our", "E1"]]], ["b", STR], ["a", OSTR]]

    def wrong(p, c, guard=None):
        core = ["isin", G.self_prop(p), ["name", c]]
        if guard is None:
            return {"e": core, "tags": [["expect_err", f"set {c} of another element type on {p}"]]}
        e = ["or", [["isnone", G.self_prop(guard)], core]]
        return {"e": e, "tags": [] if guard != p
                else [["expect_err", f"set {c} of another element type on {p}"]]}

    def sets_model(invs, child=None):
        classes = [_cls("C0", [], PROPS, invs)]
        if child is not None:
            classes.append(_cls("C1", ["C0"], [], child))
        return _mm(classes, consts=SETS, enums=ENUMS)
    out.append(sets_model([isin("e", "ES0"), isin("e", "ES0b")]))          # intersection [L1]
    out.append(sets_model([isin("e", "ES0")], [isin("e", "ES0b")]))        # ... across inheritance
    out.append(sets_model([wrong("e", "ES1")]))                            # another enumeration
    out.append(sets_model([isin("e", "ES0"), wrong("e", "ES1")]))          # ... next to a matching
    out.append(sets_model([wrong("e", "ES1"), isin("e", "ES0")]))
    out.append(sets_model([isin("e", "ES0")], [wrong("e", "ES1")]))        # ... split parent/child
    out.append(sets_model([wrong("e", "ES1")], [isin("e", "ES0")]))
    out.append(sets_model([wrong("e", "S0")]))                             # primitive set, enum property
    out.append(sets_model([wrong("b", "ES0")]))                            # enum set, str property
    out.append(sets_model([wrong("b", "I0")]))                             # int set, str property
    out.append(sets_model([wrong("f", "ES0", guard="f")]))                 # guarded, same property
    out.append(sets_model([wrong("e", "ES1", guard="a"), isin("e", "ES0")]))   # guarded by another: ignored
    out.append(sets_model([{"e": ["and", [["isin", G.self_prop("e"), ["name", "ES0"]],
                                          ["isin", G.self_prop("e"), ["name", "ES1"]]]],
                            "tags": [["expect_err", "conjunction with a set of another enumeration"]]}]))
    return out


def single_bound_table() -> List[dict]:
    """Every operator x side x constant -2..7 alone, unguarded and guarded (same prop)."""
    out = []
    for op in G.OPS:
        for side in "LR":
            for c in range(-2, 8):
                inv = _len("b", op, c, side, guard=("b" if (c + len(op)) % 3 == 0 else None),
                           form="or" if c % 2 else "impl")
                if op == "!=":
                    inv["tags"] = []
                out.append(_mm([_cls("C0", [], [["b", OSTR]], [inv])]))
    return out


# ---------------------------------------------------------------------------------
# driver
# ---------------------------------------------------------------------------------
def run_impl(models: List[dict]) -> List[dict]:
    results: List[dict] = []
    B = 400
    for k in range(0, len(models), B):
        results += lib.impl_call("infer.py", [G.render_source(m) for m in models[k:k + B]],
                                 timeout=1800)
    return results


def shrink(mm: dict, kind: str) -> dict:
    """Greedy structural delta debugging keeping the same kind of violation."""
    cur = mm
    for _ in range(60):
        cands = G.reductions(cur)
        if not cands:
            break
        res = run_impl(cands)
        nxt = None
        for cand, r in zip(cands, res):
            if "rejected" in r:
                continue
            if kind in [k for k, _ in oracle(cand, r)]:
                nxt = cand
                break
        if nxt is None:
            break
        cur = nxt
    return cur


def inv_sources(mm) -> str:
    parts = []
    for c in mm["cprims"] + mm["classes"]:
        for inv in c["invs"]:
            parts.append(f"{c['name']}:{G.src(inv['e'])}")
    return "; ".join(parts)


def unit_stream(ctx: lib.Ctx) -> None:
    """_reduce_constraints and _merge_len_constraints called directly: exhaustive small
    scope (all sequences of <= 3 bounds with values -1..7) at thorough, sampled at quick."""
    vals = list(range(-1, 8))
    atoms = [(k, v) for k in ("min", "max", "exact") for v in vals]
    seqs: List[list] = [[]]
    seqs += [[a] for a in atoms]
    seqs += [list(p) for p in itertools.product(atoms, repeat=2)]
    triples = [list(p) for p in itertools.combinations_with_replacement(atoms, 3)]
    if not ctx.thorough:
        triples = ctx.rng.sample(triples, 220)
        seqs = seqs[:1 + len(atoms)] + ctx.rng.sample(seqs[1 + len(atoms):], 120)
    seqs += triples
    ranges = [(lo, hi) for lo in [None, 1, 2, 5] for hi in [None, 0, 1, 3, 5]
              if lo is None or hi is None or lo <= hi]
    merges = [(a, b) for a in ranges for b in ranges]
    payload = {"reduce": seqs, "merge": merges}
    res = lib.impl_call("infer_unit.py", payload, timeout=900)

    def coq_lc(a):
        return {"min": "MinL", "max": "MaxL", "exact": "ExactL"}[a[0]] + f" ({a[1]})%Z"

    def coq_rng(r):
        lo, hi = r
        return f"({coq_opt(None if lo is None else coq_z(lo))}, {coq_opt(None if hi is None else coq_z(hi))})"

    def coq_res(r):
        if "err" in r:
            return "(0%nat, (None, None))"
        if "exc" in r:
            return "(1%nat, (None, None))"
        return f"(2%nat, {coq_rng(r['ok'])})"

    cases = []
    inputs = []
    n_err = n_exc = 0
    reported = set()

    def report(kind, what, s, r):
        # one (the shortest, first) witness per kind of failure
        if kind in reported:
            return
        reported.add(kind)
        ctx.impl_failure(f"{kind}:_reduce_constraints{json.dumps(s)}".replace(" ", ""),
                         what, {"constraints": s}, r, "reduce-unit",
                         how=(f"PYTHONPATH={lib.REPO} {lib.PY} {lib.VERIF}/harness/impl/"
                              f"infer_unit.py  # stdin: {{\"reduce\": [constraints], "
                              f"\"merge\": []}}"))

    for s, r in zip(seqs, res["reduce"]):
        cases.append(f"(inl {G.coq_list('(' + coq_lc(a) + ')' for a in s)}, {coq_res(r)})")
        inputs.append({"reduce": s})
        n_err += "err" in r
        if "exc" in r:
            n_exc += 1
            report(f"exception-{r['exc']}", f"_reduce_constraints raised {r['exc']}", s, r)
        else:
            # the statement itself: the range admits n iff every bound does; Err iff unsat
            adm = [n for n in LENS if all((k == "min" and v <= n) or (k == "max" and n <= v)
                                          or (k == "exact" and n == v) for k, v in s)]
            if "err" in r and adm:
                report("spurious-error", "errors for satisfiable bounds", s, r)
            if "ok" in r:
                lo, hi = r["ok"]
                got = [n for n in LENS if (lo is None or lo <= n) and (hi is None or n <= hi)]
                if got != adm and not adm:
                    report("unsat-not-reported",
                           f"unsatisfiable bounds reduced to [{lo},{hi}] without an error", s, r)
                elif got != adm:
                    report("len-range",
                           f"reduced range [{lo},{hi}] differs from the conjunction", s, r)
    for (a, b), r in zip(merges, res["merge"]):
        cases.append(f"(inr ({coq_rng(a)}, {coq_rng(b)}), {coq_res(r)})")
        inputs.append({"merge": [a, b]})
        # an exception here is only a violation when reachable through the stacking,
        # which the main stream decides; the correspondence pins the precondition.
    bad, _ = lib.run_cases(ctx.work, "unit", UNIT_HEADER,
                           "(list lc + (lenc * lenc)) * (nat * (option Z * option Z))", "bad",
                           cases, shard=(400 if ctx.thorough else 1000))
    for i in bad[:10]:
        ctx.corr_break("reduce-unit", inputs[i], "see Model/LenInfer.v reduce / merge_len",
                       (res["reduce"] + res["merge"])[i])
    ctx.count("reduce-unit", len(cases), nontrivial_keys=[json.dumps(x) for x in inputs
                                                           if len(x.get("reduce", [1, 1])) >= 2],
              validated=len(cases), reduce_errors=n_err, reduce_exceptions=n_exc,
              scope="all sequences of <=2 and multisets of 3 bounds, values -1..7"
              + ("" if ctx.thorough else " (sampled)"))


def streams(ctx: lib.Ctx) -> None:
    import time
    t0 = time.time()
    timing = ctx.coverage.setdefault("timing_s", {})
    models: List[dict] = list(corpus())
    n_corpus = len(models)
    models += single_bound_table()
    n_random = ctx.n(300, 9000)
    profiles = ["mixed", "bounds", "small"]
    for i in range(n_random):
        models.append(G.gen_model(ctx.rng, profiles[i % 3] if i % 7 else "bounds"))
    results = run_impl(models)
    timing["impl"] = round(time.time() - t0, 1)

    coq_cases = []
    case_index = []
    nontrivial = []
    dist = {"rejected": 0, "ok": 0, "err": 0, "exc": 0, "classes": 0, "invariants": 0,
            "len_tags": 0, "pat_tags": 0, "set_tags": 0, "unrecognised": 0,
            "guard_other": 0, "guard_same": 0}
    rejected_why: Dict[str, int] = {}
    first_of_kind: Dict[str, Tuple[int, str]] = {}
    for idx, (mm, res) in enumerate(zip(models, results)):
        if "rejected" in res:
            dist["rejected"] += 1
            why = res.get("why", res["rejected"])[:80]
            rejected_why[why] = rejected_why.get(why, 0) + 1
            continue
        dist["ok" if "ok" in res else "err" if "err" in res else "exc"] += 1
        dist["classes"] += len(mm["classes"])
        for c in mm["classes"] + mm["cprims"]:
            for inv in c["invs"]:
                dist["invariants"] += 1
                if not inv["tags"]:
                    dist["unrecognised"] += 1
                for t in inv["tags"]:
                    if t[0] in ("len", "pat", "set"):
                        dist[t[0] + "_tags"] += 1
                        if t[-1] == "same":
                            dist["guard_same"] += 1
                        elif t[-1] is not None:
                            dist["guard_other"] += 1
        exp = expectation(mm)
        if exp["nontrivial"]:
            nontrivial.append(G.render_source(mm))
        for kind, detail in oracle(mm, res, exp):
            if kind not in first_of_kind:
                first_of_kind[kind] = (idx, detail)
        coq_cases.append(f"({G.render_coq(mm)}, {coq_obs(mm, res)})")
        case_index.append(idx)

    if dist["rejected"] > 0.2 * len(models):
        raise lib.HarnessError(f"the front end rejected {dist['rejected']} of {len(models)} "
                               f"generated meta-models: {rejected_why}")
    for i in range(n_corpus):
        if "rejected" in results[i]:
            raise lib.HarnessError(f"corpus model {i} rejected by the front end: {results[i]}")

    # the property fails on the implementation: shrink one witness per kind
    for kind, (idx, detail) in sorted(first_of_kind.items()):
        small = shrink(models[idx], kind)
        res = run_impl([small])[0]
        details = dict(oracle(small, res))
        source = G.render_source(small)
        ctx.impl_failure(
            f"{kind}:{inv_sources(small)}".replace(" ", ""),
            f"{kind}: {details.get(kind, detail)}",
            {"model": small, "source": source, "invariants": inv_sources(small)}, res, "infer",
            how=(f"echo '<json list with the source text>' | PYTHONPATH={lib.REPO} {lib.PY} "
                 f"{lib.VERIF}/harness/impl/infer.py   # source text is in input.source"))

    timing["oracle+shrink"] = round(time.time() - t0, 1)
    bad, _log = lib.run_cases(ctx.work, "cases", HEADER, "mmodel * obs", "bad", coq_cases,
                              shard=150)
    timing["coq-cases"] = round(time.time() - t0, 1)
    for i in bad[:12]:
        idx = case_index[i]
        model_out = lib.coq_eval(ctx.work, "show", HEADER,
                                 f"observe {G.render_coq(models[idx])}")
        ctx.corr_break("infer", {"model": models[idx], "source": G.render_source(models[idx])},
                       model_out[-3000:], results[idx])

    ctx.count("infer", len(models), nontrivial_keys=nontrivial, validated=len(coq_cases),
              corpus=n_corpus, single_bound_table=len(models) - n_corpus - n_random,
              random_models=n_random, rejected_reasons=rejected_why, **dist)
    for m in models[:2] + models[n_corpus + 240:n_corpus + 243]:
        ctx.sample({"invariants": inv_sources(m), "classes": [c["name"] for c in m["classes"]]})

    unit_stream(ctx)
    timing["unit"] = round(time.time() - t0, 1)


def replay(ctx: lib.Ctx, data: dict) -> int:
    """./check C15 --replay FILE: run the stored input against the current tree and print
    the implementation's answer and the verdict of the property oracle."""
    inp = data.get("input") or {}
    if not inp and data.get("correspondence_breaks"):
        inp = data["correspondence_breaks"][0].get("input", {})
    if "model" in inp:
        mm = inp["model"]
        print(G.render_source(mm))
        res = run_impl([mm])[0]
        print("implementation:", json.dumps(res))
        if "rejected" in res:
            print("the front end no longer accepts this meta-model")
            return 2
        fails = oracle(mm, res)
        for kind, detail in fails:
            print(f"PROPERTY FAILS ({kind}): {detail}")
        if not fails:
            print("the property holds on this input")
        return 1 if fails else 0
    if "constraints" in inp:
        res = lib.impl_call("infer_unit.py", {"reduce": [inp["constraints"]], "merge": []})
        print("constraints:", inp["constraints"], "->", res["reduce"][0])
        return 1 if "exc" in res["reduce"][0] else 0
    print(json.dumps(data, indent=1)[:4000])
    return 0
