"""Adapter (C23): histories of run.load_model(model_path, flag) runs sharing one TMPDIR.

stdin : {"histories": [[[text, flag], ...], ...]}
stdout: {"version": str, "histories": [{"tmp": dir, "runs": [{"result":…, "events":[…],
         "listing": {...}, "entries": {name: fp|"BAD:<exc>"}}]}]}
isolation "fork" (default): every run is a forked child (own tempfile state, own audit hook):
separate processes that share the temp directory. isolation "inproc": runs are made in
this process with TMPDIR / tempfile state reset per run and a switchable audit sink (two
orders of magnitude cheaper on this machine; the first `fork_first` histories still fork).
"""
import json
import os
import pathlib
import pickle
import sys

sys.path.insert(0, os.path.dirname(os.path.abspath(__file__)))
import cachelib  # noqa: E402

import aas_core_codegen  # noqa: E402
from aas_core_codegen import run  # noqa: E402


def one_run(model_path, flag):
    events = []
    cachelib.install_audit(events)
    res = cachelib.result_of(lambda: run.load_model(model_path, flag) if flag is not None
                             else run.load_model(model_path))
    return {"result": res, "events": list(events)}


def one_run_inproc(model_path, flag):
    return {"result": cachelib.result_of(lambda: run.load_model(model_path, flag))}


def entries(tmp):
    """Try to unpickle every *.pickle below tmp: name -> fingerprint or BAD."""
    out = {}
    for p in sorted(pathlib.Path(tmp).rglob("*")):
        if p.is_file():
            try:
                with p.open("rb") as f:
                    c = pickle.load(f)
                out[p.name] = cachelib.fingerprint((c.symbol_table, c.atok))[0]
            except BaseException as e:  # noqa
                out[p.name] = f"BAD:{type(e).__name__}"
    return out


def main():
    payload = json.load(sys.stdin)
    base = pathlib.Path.cwd()
    out = []
    for i, hist in enumerate(payload["histories"]):
        hd = base / f"h{i}"
        tmp = hd / "tmp"
        tmp.mkdir(parents=True)
        model = hd / "model.py"
        runs = []
        for text, flag in hist:
            model.write_text(text, encoding="utf-8")
            if payload.get("isolation", "fork") == "fork" or i < payload.get("fork_first", 0):
                r = cachelib.run_child(lambda: one_run(model, flag), tmpdir=tmp)
            else:
                r = cachelib.run_inproc(lambda: one_run_inproc(model, flag), tmp)
            d = r["data"] or {"result": {"class": "exc", "type": f"child-exit-{r['exit']}", "msg": ""},
                              "events": []}
            d["listing"] = cachelib.list_tmp(tmp)
            runs.append(d)
        out.append({"tmp": str(tmp), "model": str(model), "runs": runs, "entries": entries(tmp)})
    json.dump({"version": aas_core_codegen.__version__, "histories": out}, sys.stdout)


main()
