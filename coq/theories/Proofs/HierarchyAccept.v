(** C05: an accepted hierarchy is well-formed (the DFS reports every cycle), so the
    theorems about well-formed hierarchies hold for every accepted meta-model. *)
From Coq Require Import List NArith Bool Arith Lia Permutation Relations.
From Acg Require Import Base.Str Base.Outcome Model.Hierarchy Proofs.HierarchyFacts
  Proofs.HierarchyStack.
Import ListNotations.
Open Scope nat_scope.

Fixpoint pos (n : name) (l : list name) : nat :=
  match l with
  | [] => 0
  | x :: r => if text_eqb x n then 0 else S (pos n r)
  end.

Lemma pos_app_notin : forall n l1 l2, ~ In n l1 -> pos n (l1 ++ n :: l2) = length l1.
Proof.
  intros n l1 l2. induction l1 as [|x l1 IH]; intro H; cbn [app pos length].
  - rewrite text_eqb_refl. reflexivity.
  - destruct (text_eqb x n) eqn:E.
    + apply text_eqb_eq in E. exfalso. apply H. left. exact E.
    + rewrite IH; [reflexivity|]. intro Hx. apply H. right. exact Hx.
Qed.

Lemma pos_In_lt : forall b l1 l2, In b l1 -> pos b (l1 ++ l2) < length l1.
Proof.
  intros b l1 l2. induction l1 as [|x l1 IH]; intro H; [contradiction|].
  cbn [app pos length]. destruct (text_eqb x b) eqn:E; [lia|].
  destruct H as [H|H]; [apply text_eqb_neq in E; contradiction|].
  specialize (IH H). lia.
Qed.

Section Sound.
  Variable prims : list name.
  Variable m : mm.

  Notation topo := (topo prims m).
  Notation base := (base prims m).

  (** Partial correctness of the DFS without any assumption on the hierarchy. *)
  Lemma visit_sound : forall fuel path perm c perm',
    visit prims m fuel path perm c = Ok perm' ->
    topo perm -> NoDup perm ->
    topo perm' /\ NoDup perm' /\ incl perm perm' /\ In c perm'
    /\ (forall t, In t path -> In t perm' -> In t perm).
  Proof.
    induction fuel as [|f IH]; intros path perm c perm' H Ht Hnd; cbn [visit] in H; [discriminate|].
    destruct (mem_text c perm) eqn:Ecp.
    { injection H as <-. split; [exact Ht|]. split; [exact Hnd|]. split; [apply incl_refl|].
      split; [apply mem_text_In; exact Ecp | auto]. }
    destruct (mem_text c path) eqn:Ecpath; [discriminate|].
    apply mem_text_false in Ecp. apply mem_text_false in Ecpath.
    destruct (find_class m c) as [cl|] eqn:Hcl; [|discriminate].
    destruct (fold_o (visit prims m f (c :: path)) (class_bases prims cl) perm) as [p1| |] eqn:E1;
      try discriminate.
    injection H as <-.
    assert (Hfold : forall bs perm0 p,
               fold_o (visit prims m f (c :: path)) bs perm0 = Ok p ->
               topo perm0 -> NoDup perm0 ->
               topo p /\ NoDup p /\ incl perm0 p /\ (forall b, In b bs -> In b p)
               /\ (forall t, In t (c :: path) -> In t p -> In t perm0)).
    { induction bs as [|b bs IHbs]; intros perm0 p Hf Ht0 Hnd0; cbn [fold_o] in Hf.
      - injection Hf as <-. split; [exact Ht0|]. split; [exact Hnd0|]. split; [apply incl_refl|].
        split; [intros b [] | auto].
      - destruct (visit prims m f (c :: path) perm0 b) as [q| |] eqn:Eq; try discriminate.
        destruct (IH _ _ _ _ Eq Ht0 Hnd0) as [Htq [Hndq [Hiq [Hbq Hpq]]]].
        destruct (IHbs _ _ Hf Htq Hndq) as [Htp [Hndp [Hip [Hbp Hpp]]]].
        split; [exact Htp|]. split; [exact Hndp|]. split; [|split].
        + eapply incl_tran; eassumption.
        + intros b' [<-|Hb']; [apply Hip; exact Hbq | apply Hbp; exact Hb'].
        + intros t Htp' Hin. apply Hpq; [exact Htp'|]. apply Hpp; assumption. }
    destruct (Hfold _ _ _ E1 Ht Hnd) as [Ht1 [Hnd1 [Hi1 [Hb1 Hp1]]]].
    assert (Hc1 : ~ In c p1).
    { intro Hin. apply Ecp. apply Hp1; [left; reflexivity | exact Hin]. }
    split; [|split; [|split; [|split]]].
    - apply topo_snoc; [exact Ht1|]. intros b [cl' [Hcl' Hb]].
      rewrite Hcl in Hcl'. injection Hcl' as <-. apply Hb1. exact Hb.
    - apply NoDup_snoc; assumption.
    - intros t Hin. apply in_or_app. left. apply Hi1. exact Hin.
    - apply in_or_app. right. left. reflexivity.
    - intros t Htp Hin. apply in_app_or in Hin. destruct Hin as [Hin|[<-|[]]].
      + apply Hp1; [right; exact Htp | exact Hin].
      + contradiction.
  Qed.

  Lemma topo_sort_sound : forall order, topo_sort prims m = Ok order ->
    topo order /\ NoDup order /\ forall n, In n (names m) -> In n order.
  Proof.
    intros order H. unfold topo_sort in H.
    assert (Hfold : forall cs perm p,
               fold_o (visit prims m (S (length m)) []) cs perm = Ok p ->
               topo perm -> NoDup perm ->
               topo p /\ NoDup p /\ incl perm p /\ forall c, In c cs -> In c p).
    { induction cs as [|c cs IH]; intros perm p Hf Ht Hnd; cbn [fold_o] in Hf.
      - injection Hf as <-. split; [exact Ht|]. split; [exact Hnd|]. split; [apply incl_refl | intros c []].
      - destruct (visit prims m (S (length m)) [] perm c) as [q| |] eqn:Eq; try discriminate.
        destruct (visit_sound _ _ _ _ _ Eq Ht Hnd) as [Htq [Hndq [Hiq [Hcq _]]]].
        destruct (IH _ _ Hf Htq Hndq) as [Htp [Hndp [Hip Hcp]]].
        split; [exact Htp|]. split; [exact Hndp|]. split.
        + eapply incl_tran; eassumption.
        + intros c' [<-|Hc']; [apply Hip; exact Hcq | apply Hcp; exact Hc']. }
    destruct (Hfold _ _ _ H (topo_nil prims m) (NoDup_nil _)) as [Ht [Hnd [_ Hall]]].
    split; [exact Ht|]. split; [exact Hnd|]. intros n Hn. apply Hall. apply sort_names_In. exact Hn.
  Qed.

  (** A hierarchy that passes the parse-stage checks and the DFS is well-formed: in
      particular the DFS reports every cycle. *)
  Theorem sorted_wf : forall order, parse_ok prims m = true -> topo_sort prims m = Ok order ->
    wf prims m.
  Proof.
    intros order Hp Ht. unfold parse_ok in Hp. apply andb_true_iff in Hp. destruct Hp as [Hnd Hb].
    apply nodupb_NoDup in Hnd.
    assert (Hbases : forall cl b, In cl m -> In b (class_bases prims cl) -> In b (names m)).
    { intros cl b Hcl Hbb. rewrite forallb_forall in Hb. specialize (Hb cl Hcl).
      rewrite forallb_forall in Hb. apply mem_text_In. apply Hb. exact Hbb. }
    destruct (topo_sort_sound order Ht) as [Htopo [Hndo Hall]].
    split; [exact Hnd|]. split; [exact Hbases|].
    exists (fun n => pos n order). intros cl b Hcl Hbb.
    assert (Hin : In (c_name cl) order) by (apply Hall; unfold names; apply in_map; exact Hcl).
    destruct (order_split order (c_name cl) Hin Hndo) as [l1 [l2 [Eo [Hn1 _]]]].
    assert (Hb1 : In b l1).
    { eapply (topo_split prims m order Htopo l1 (c_name cl) l2 Eo).
      exists cl. split; [apply find_class_unique; assumption | exact Hbb]. }
    rewrite Eo. rewrite (pos_app_notin _ l1 l2 Hn1). apply pos_In_lt. exact Hb1.
  Qed.
End Sound.

(** Every accepted meta-model is well-formed. *)
Theorem accepted_wf : forall prims m r, translate prims m = Ok r -> wf prims m.
Proof.
  intros prims m r H.
  destruct (translate_inv prims m r H)
    as [order [anc [smap [mmap [kmap [ifm [Hp [Et _]]]]]]]].
  eapply sorted_wf; eassumption.
Qed.

Lemma onto_fold_prims_alone : forall prims m order l acc anc,
  fold_o (onto_step prims m order) l acc = Ok anc ->
  forall n cl, In n l -> find_class m n = Some cl -> has_prim_base prims cl = true ->
    length (c_bases cl) = 1.
Proof.
  intros prims m order. induction l as [|x l IH]; intros acc anc H n cl Hn Hcl Hp; [destruct Hn|].
  cbn [fold_o] in H.
  destruct (onto_step prims m order acc x) as [acc'| |] eqn:E; try discriminate.
  destruct Hn as [->|Hn]; [|eapply IH; eassumption].
  unfold onto_step in E. rewrite Hcl, Hp in E.
  destruct (Nat.eqb (length (c_bases cl)) 1) eqn:El; [|discriminate].
  apply Nat.eqb_eq. exact El.
Qed.

Section Accepted.
  Variable prims : list name.

  Theorem accepted_prims_alone : forall m r, translate prims m = Ok r -> prims_alone prims m.
  Proof.
    intros m r H cl Hcl Hp.
    pose proof (accepted_wf prims m r H) as Hwf. pose proof Hwf as [Hnd _].
    destruct (translate_inv prims m r H)
      as [order [anc [smap [mmap [kmap [ifm [Hpo [Et [Ea _]]]]]]]]].
    destruct (topo_sort_sound prims m order Et) as [_ [_ Hall]].
    unfold onto_ancestors in Ea.
    eapply (onto_fold_prims_alone prims m order order [] anc Ea (c_name cl) cl).
    - apply Hall. unfold names. apply in_map. exact Hcl.
    - apply find_class_unique; assumption.
    - exact Hp.
  Qed.

  (** Ancestors = transitive closure of the declared bases, descendants = inverse relation,
      both without duplicates — for every accepted meta-model. *)
  Theorem ancestors_closure_e2e : forall m r, translate prims m = Ok r ->
    forall c, In c m ->
      exists ci, class_ir r (c_name c) = Some ci
        /\ (forall a, In a (i_ancestors ci) <-> clos_trans name (base prims m) (c_name c) a)
        /\ (forall d, In d (names m) ->
              (In d (i_descendants ci) <-> clos_trans name (base prims m) d (c_name c)))
        /\ NoDup (i_ancestors ci) /\ NoDup (i_descendants ci)
        /\ (i_is_cp ci = false ->
              forall d, In d (i_concrete_descendants ci)
                        <-> In d (i_descendants ci) /\ is_abstract m d = false).
  Proof.
    intros m r H c Hc.
    pose proof (accepted_wf prims m r H) as Hwf. pose proof Hwf as [Hnd _].
    pose proof (accepted_prims_alone m r H) as Hpa.
    destruct (ancestors_closure_thm prims m Hwf Hpa) as [order' [anc' [Et' [Ea' Hclos]]]].
    destruct (translate_inv prims m r H)
      as [order [anc [smap [mmap [kmap [ifm [Hpo [Et [Ea [Hs [Hpv [Hm [Hk [Hi [Hv ->]]]]]]]]]]]]]]].
    rewrite Et in Et'. injection Et' as <-. rewrite Ea in Ea'. injection Ea' as <-.
    assert (Hcn : In (c_name c) (names m)) by (unfold names; apply in_map; exact Hc).
    eexists. split.
    { unfold class_ir. cbn [r_classes]. apply find_map_name; [intro x; reflexivity | exact Hnd | exact Hc]. }
    cbn [ir_of i_ancestors i_descendants i_concrete_descendants i_is_cp].
    split; [intro a; apply Hclos; exact Hcn|]. split.
    - intros d Hd. rewrite (descendants_inverse_thm m anc (c_name c) d Hcn). apply Hclos. exact Hd.
    - split; [apply ancestors_nodup_thm; exact Hnd|]. split; [apply descendants_nodup_thm|].
      intros Hcp d. rewrite Hcp. apply concrete_descendants_thm.
  Qed.

  Theorem properties_stacked_acc : forall m r, translate prims m = Ok r ->
    exists pmap imap : list (name * list (ident name)),
      forall c, In c m ->
        exists ci, class_ir r (c_name c) = Some ci
          /\ i_props ci = map pair_owner (lk (c_name c) pmap)
          /\ i_invs ci = map pair_owner (lk (c_name c) imap)
          /\ lk (c_name c) imap
             = dedup id_eqb (flat_map (fun b => lk b imap) (class_bases prims c))
               ++ own_ids (c_name c) (c_invs c)
          /\ (i_is_cp ci = false ->
                lk (c_name c) pmap
                = dedup id_eqb (flat_map (fun b => lk b pmap) (class_bases prims c))
                  ++ own_ids (c_name c) (c_props c)
                /\ NoDup (map fst (i_props ci))).
  Proof. intros m r H. eapply properties_stacked_e2e; [exact H | eapply accepted_wf; exact H]. Qed.

  Theorem ctor_inlined_acc : forall m r, translate prims m = Ok r ->
    forall c, In c m ->
      exists ci, class_ir r (c_name c) = Some ci
        /\ (i_is_cp ci = false ->
              NoDup (i_inlined ci)
              /\ (forall p, In p (i_inlined ci) <-> In p (map fst (i_props ci)))
              /\ exists stmts : list (ident stmt),
                   i_inlined ci = map (fun x => stmt_prop (id_val x)) stmts
                   /\ forallb (fun x => is_assign (id_val x)) stmts = true).
  Proof. intros m r H. eapply ctor_inlined_e2e; [exact H | eapply accepted_wf; exact H]. Qed.

  Theorem interface_iff_acc : forall m r, translate prims m = Ok r ->
    forall c, In c m ->
      exists ci, class_ir r (c_name c) = Some ci
        /\ (i_is_cp ci = false ->
              (i_iface ci <> None <-> c_abstract c = true \/ i_descendants ci <> [])
              /\ forall l, i_iface ci = Some l -> l = c_bases c).
  Proof. intros m r H. eapply interface_iff_e2e; [exact H | eapply accepted_wf; exact H]. Qed.

  Theorem model_type_consistent_acc : forall m r, translate prims m = Ok r ->
    exists setting : name -> option bool,
      forall c, In c m ->
        exists ci, class_ir r (c_name c) = Some ci
          /\ (i_is_cp ci = false ->
                i_wmt ci = Some (match setting (c_name c) with Some v => v | None => false end)
                /\ (forall b v, In b (c_bases c) -> setting b = Some v -> setting (c_name c) = Some v)
                /\ (forall v, decl_wmt c = Some v -> setting (c_name c) = Some v)
                /\ (forall v, setting (c_name c) = Some v ->
                      decl_wmt c = Some v \/ exists b, In b (c_bases c) /\ setting b = Some v)).
  Proof. intros m r H. eapply model_type_consistent_e2e; [exact H | eapply accepted_wf; exact H]. Qed.

  (** The type order of an accepted meta-model is a topological permutation. *)
  Theorem topo_acc : forall m r, translate prims m = Ok r ->
    Permutation (r_topo r) (names m)
    /\ forall l1 c l2, r_topo r = l1 ++ c :: l2 -> forall b, base prims m c b -> In b l1.
  Proof.
    intros m r H. pose proof (accepted_wf prims m r H) as Hwf.
    destruct (translate_inv prims m r H)
      as [order [anc [smap [mmap [kmap [ifm [Hpo [Et [Ea [Hs [Hpv [Hm [Hk [Hi [Hv ->]]]]]]]]]]]]]]].
    cbn [r_topo]. destruct (topo_sort_ok prims m Hwf) as [o [Et' [Htopo Hperm]]].
    rewrite Et in Et'. injection Et' as <-. split; [exact Hperm|].
    apply (topo_split prims m order Htopo).
  Qed.
End Accepted.

Theorem methods_stacked_acc : forall prims m r, translate prims m = Ok r ->
  exists mmap : list (name * list (ident name)),
    forall c, In c m ->
      exists ci, class_ir r (c_name c) = Some ci
        /\ i_methods ci = map pair_owner (lk (c_name c) mmap)
        /\ (i_is_cp ci = false ->
              let inh := flat_map (fun b => lk b mmap) (c_bases c) in
              lk (c_name c) mmap = inh ++ own_ids (c_name c) (c_methods c)
              /\ NoDup (map id_val inh)
              /\ forall x, In x (own_ids (c_name c) (c_methods c)) ->
                           ~ In (id_val x) (map id_val inh)).
Proof.
  intros prims m r H. pose proof (accepted_wf prims m r H) as Hwf. pose proof Hwf as [Hnd _].
  destruct (translate_inv prims m r H)
    as [order [anc [smap [mmap [kmap [ifm [Hpo [Et [Ea [Hs [Hpv [Hm [Hk [Hi [Hv ->]]]]]]]]]]]]]]].
  exists mmap. intros c Hc. eexists. split.
  { unfold class_ir. cbn [r_classes]. apply find_map_name; [intro x; reflexivity | exact Hnd | exact Hc]. }
  cbn [ir_of i_methods i_is_cp]. split; [reflexivity|]. intro Hcp.
  apply (methods_fold_thm prims m anc Hwf order mmap Et Hm c Hc Hcp).
Qed.

(** * Who contributes to a stacked list: exactly the class itself and its ancestors *)
Lemma dedup_acc_incl : forall (A : Type) (eqb : A -> A -> bool) l seen x,
  In x (dedup_acc eqb seen l) -> In x l.
Proof.
  intros A eqb. induction l as [|y l IH]; intros seen x H; cbn [dedup_acc] in H; [destruct H|].
  destruct (existsb (eqb y) seen).
  - right. eapply IH. exact H.
  - destruct H as [<-|H]; [left; reflexivity | right; eapply IH; exact H].
Qed.

Lemma dedup_acc_complete : forall (A : Type) (eqb : A -> A -> bool),
  (forall a, eqb a a = true) ->
  forall l seen x, In x l ->
    (exists s, In s seen /\ eqb x s = true) \/ (exists y, In y (dedup_acc eqb seen l) /\ eqb x y = true).
Proof.
  intros A eqb Hrefl. induction l as [|z l IH]; intros seen x Hx; [destruct Hx|].
  cbn [dedup_acc]. destruct (existsb (eqb z) seen) eqn:E.
  - destruct Hx as [<-|Hx].
    + left. apply existsb_exists in E. destruct E as [s [Hs Es]]. exists s. split; assumption.
    + apply IH. exact Hx.
  - destruct Hx as [<-|Hx].
    + right. exists z. split; [left; reflexivity | apply Hrefl].
    + destruct (IH (z :: seen) x Hx) as [[s [[<-|Hs] Es]]|[y [Hy Ey]]].
      * right. exists z. split; [left; reflexivity | exact Es].
      * left. exists s. split; assumption.
      * right. exists y. split; [right; exact Hy | exact Ey].
Qed.

Lemma id_eqb_refl : forall (A : Type) (x : ident A), id_eqb x x = true.
Proof. intros A x. unfold id_eqb. rewrite text_eqb_refl, Nat.eqb_refl. reflexivity. Qed.

Lemma id_eqb_true : forall (A : Type) (x y : ident A),
  id_eqb x y = true -> id_owner x = id_owner y /\ id_idx x = id_idx y.
Proof.
  intros A x y H. unfold id_eqb in H. apply andb_true_iff in H. destruct H as [H1 H2].
  apply text_eqb_eq in H1. apply Nat.eqb_eq in H2. split; assumption.
Qed.

Lemma number_from_In : forall (A : Type) o (l : list A) i x,
  In x (number_from o i l) -> id_owner x = o /\ i <= id_idx x.
Proof.
  intros A o. induction l as [|v l IH]; intros i x H; cbn [number_from] in H; [destruct H|].
  destruct H as [<-|H]; [cbn; split; [reflexivity | lia]|].
  apply IH in H. destruct H as [H1 H2]. split; [exact H1 | lia].
Qed.

Lemma number_from_fun : forall (A : Type) o (l : list A) i x y,
  In x (number_from o i l) -> In y (number_from o i l) -> id_idx x = id_idx y -> x = y.
Proof.
  intros A o. induction l as [|v l IH]; intros i x y Hx Hy E; cbn [number_from] in *; [destruct Hx|].
  destruct Hx as [<-|Hx]; destruct Hy as [<-|Hy].
  - reflexivity.
  - apply number_from_In in Hy. cbn in E. destruct Hy as [_ Hy]. lia.
  - apply number_from_In in Hx. cbn in E. destruct Hx as [_ Hx]. lia.
  - eapply IH; eassumption.
Qed.

Lemma names_inj : forall m a b, NoDup (names m) -> In a m -> In b m -> c_name a = c_name b -> a = b.
Proof.
  intros m a b Hnd Ha Hb E. pose proof (find_class_unique m a Hnd Ha) as H1.
  pose proof (find_class_unique m b Hnd Hb) as H2. rewrite E in H1. congruence.
Qed.

Section Members.
  Variable prims : list name.
  Variable m : mm.
  Variable A : Type.
  Variable skip : name -> bool.
  Variable own : cls -> list A.

  (** [reach c a]: [a] is [c] or is reached from [c] through bases, passing only through
      classes that take part in the stacking. *)
  Inductive reach : name -> name -> Prop :=
  | reach_refl : forall c, reach c c
  | reach_step : forall c b a, skip c = false -> base prims m c b -> reach b a -> reach c a.

  Hypothesis Hwf : wf prims m.
  Variable order : list name.
  Hypothesis Et : topo_sort prims m = Ok order.

  Let final := stack_ids prims m skip own order.

  Definition contributed (n : name) (x : ident A) : Prop :=
    exists a, In a m /\ reach n (c_name a) /\ In x (own_ids (c_name a) (own a)).

  Lemma members_sound : forall c, In c m ->
    forall x, In x (lk (c_name c) final) -> contributed (c_name c) x.
  Proof.
    intros c Hc. destruct Hwf as [_ [_ [rank Hrank]]].
    (* the bound: any rank function is bounded on the finitely many classes; we use the
       given one to pick k, but the statement of [members_sound] quantifies over all ranks,
       so instantiate it through a fixed one *)
    assert (Hgen : forall k, rank (c_name c) < k ->
              forall x, In x (lk (c_name c) final) -> contributed (c_name c) x).
    { intros k Hk. revert c Hc Hk.
      induction k as [|k IH]; intros c Hc Hk x Hx; [lia|].
      destruct Hwf as [Hnd [Hbases _]].
      pose proof (stacked_fold_thm prims m A skip own Hwf order Et c Hc) as Heq.
      cbv zeta in Heq. fold final in Heq. rewrite Heq in Hx.
      destruct (skip (c_name c)) eqn:Es.
      - exists c. split; [exact Hc|]. split; [apply reach_refl | exact Hx].
      - apply in_app_or in Hx. destruct Hx as [Hx|Hx].
        + apply dedup_acc_incl in Hx. apply in_flat_map in Hx. destruct Hx as [b [Hb Hx]].
          destruct (find_class_In m b (Hbases c b Hc Hb)) as [bc Hbc].
          pose proof (find_class_Some _ _ _ Hbc) as [Hbcm Hbcn]. subst b.
          destruct (IH bc Hbcm) with (x := x) as [a [Ha [Hr Hin]]].
          * pose proof (Hrank c (c_name bc) Hc Hb). lia.
          * exact Hx.
          * exists a. split; [exact Ha|]. split; [|exact Hin].
            eapply reach_step; [exact Es | | exact Hr].
            exists c. split; [apply find_class_unique; assumption | exact Hb].
        + exists c. split; [exact Hc|]. split; [apply reach_refl | exact Hx]. }
    apply (Hgen (S (rank (c_name c)))). lia.
  Qed.

  Lemma contributed_eq : forall n1 n2 x y,
    contributed n1 x -> contributed n2 y -> id_eqb x y = true -> x = y.
  Proof.
    intros n1 n2 x y [a [Ha [_ Hx]]] [b [Hb [_ Hy]]] E.
    destruct Hwf as [Hnd _]. apply id_eqb_true in E. destruct E as [Eo Ei].
    unfold own_ids in Hx, Hy.
    pose proof (number_from_In _ _ _ _ _ Hx) as [Hox _].
    pose proof (number_from_In _ _ _ _ _ Hy) as [Hoy _].
    assert (a = b) by (apply (names_inj m a b Hnd Ha Hb); congruence). subst b.
    eapply number_from_fun; eassumption.
  Qed.

  Lemma members_complete : forall n an, reach n an ->
    forall c a, In c m -> c_name c = n -> In a m -> c_name a = an ->
    forall x, In x (own_ids (c_name a) (own a)) -> In x (lk (c_name c) final).
  Proof.
    pose proof Hwf as [Hnd [Hbases _]].
    intros n an Hr. induction Hr as [n|n b an Hs Hb Hr IH]; intros c a Hc Ecn Ha Ean x Hx.
    - assert (a = c) by (apply (names_inj m a c Hnd Ha Hc); congruence). subst a.
      pose proof (stacked_fold_thm prims m A skip own Hwf order Et c Hc) as Heq.
      cbv zeta in Heq. fold final in Heq. rewrite Heq.
      destruct (skip (c_name c)); [exact Hx | apply in_or_app; right; exact Hx].
    - pose proof (stacked_fold_thm prims m A skip own Hwf order Et c Hc) as Heq.
      cbv zeta in Heq. fold final in Heq. rewrite Heq. rewrite Ecn, Hs.
      apply in_or_app. left.
      destruct Hb as [cl [Hcl Hbb]]. rewrite <- Ecn in Hcl.
      rewrite (find_class_unique m c Hnd Hc) in Hcl. injection Hcl as <-.
      destruct (find_class_In m b (Hbases c b Hc Hbb)) as [bc Hbc].
      pose proof (find_class_Some _ _ _ Hbc) as [Hbcm Hbcn].
      pose proof (IH bc a Hbcm Hbcn Ha Ean x Hx) as Hxb. rewrite Hbcn in Hxb.
      set (L := flat_map (fun b0 => lk b0 final) (class_bases prims c)).
      assert (HxL : In x L) by (apply in_flat_map; exists b; split; assumption).
      destruct (dedup_acc_complete _ id_eqb (id_eqb_refl A) L [] x HxL) as [[s [[] _]]|[y [Hy Ey]]].
      assert (HyL : In y L) by (eapply dedup_acc_incl; exact Hy).
      apply in_flat_map in HyL. destruct HyL as [b' [Hb' Hyb']].
      destruct (find_class_In m b' (Hbases c b' Hc Hb')) as [bc' Hbc'].
      pose proof (find_class_Some _ _ _ Hbc') as [Hbcm' Hbcn']. subst b'.
      assert (Hcy : contributed (c_name bc') y) by (apply members_sound; assumption).
      assert (Hcx : contributed (c_name bc) x).
      { rewrite <- Hbcn in Hxb. apply members_sound; assumption. }
      rewrite (contributed_eq _ _ x y Hcx Hcy Ey). exact Hy.
  Qed.

  (** The stacked list of a class consists exactly of the own items of the class and of
      the classes it reaches through its bases. *)
  Theorem stacked_members_thm : forall c, In c m -> forall x,
    In x (lk (c_name c) final) <-> contributed (c_name c) x.
  Proof.
    intros c Hc x. split; [apply members_sound; exact Hc|].
    intros [a [Ha [Hr Hx]]]. eapply members_complete; try eassumption; reflexivity.
  Qed.
End Members.

Lemma reach_all_iff : forall prims m c a,
  reach prims m (fun _ => false) c a <-> c = a \/ clos_trans name (base prims m) c a.
Proof.
  intros prims m c a. split.
  - intro H. induction H as [c|c b a _ Hb _ IH]; [left; reflexivity|].
    right. destruct IH as [<-|IH]; [apply t_step; exact Hb|].
    eapply t_trans; [apply t_step; exact Hb | exact IH].
  - intros [<-|H]; [apply reach_refl|].
    apply clos_trans_t1n in H. induction H as [c b Hb|c b a Hb _ IH].
    + eapply reach_step; [reflexivity | exact Hb | apply reach_refl].
    + eapply reach_step; [reflexivity | exact Hb | exact IH].
Qed.

Theorem invariants_members_acc : forall prims m r, translate prims m = Ok r ->
  exists imap : list (name * list (ident name)),
    forall c, In c m ->
      exists ci, class_ir r (c_name c) = Some ci
        /\ i_invs ci = map pair_owner (lk (c_name c) imap)
        /\ forall x, In x (lk (c_name c) imap) <->
             exists a, In a m
               /\ (c_name c = c_name a \/ clos_trans name (base prims m) (c_name c) (c_name a))
               /\ In x (own_ids (c_name a) (c_invs a)).
Proof.
  intros prims m r H. pose proof (accepted_wf prims m r H) as Hwf. pose proof Hwf as [Hnd _].
  destruct (translate_inv prims m r H)
    as [order [anc [smap [mmap [kmap [ifm [Hpo [Et [Ea [Hs [Hpv [Hm [Hk [Hi [Hv ->]]]]]]]]]]]]]]].
  exists (stack_invariants prims m order). intros c Hc. eexists. split.
  { unfold class_ir. cbn [r_classes]. apply find_map_name; [intro x; reflexivity | exact Hnd | exact Hc]. }
  cbn [ir_of i_invs]. split; [reflexivity|]. intro x.
  unfold stack_invariants.
  rewrite (stacked_members_thm prims m name (fun _ => false) c_invs Hwf order Et c Hc x).
  unfold contributed. split; intros [a [Ha [Hr Hx]]]; exists a; (split; [exact Ha|]); (split; [|exact Hx]);
    apply reach_all_iff; exact Hr.
Qed.

(** * with_model_type in closed form *)
Section SerClosed.
  Variable prims : list name.
  Variable m : mm.
  Variable anc : amap.
  Hypothesis Hwf : wf prims m.
  Variable order : list name.
  Variable smap : list (name * option (option bool)).
  Hypothesis Et : topo_sort prims m = Ok order.
  Hypothesis Hs : stack_serializations prims m anc order = (smap, false).

  Lemma ser_fold_cp_stable : forall l st k,
    (In k l -> is_cp prims m anc k = true) ->
    lookup k (fst (fold_left (ser_step prims m anc) l st)) = lookup k (fst st).
  Proof.
    induction l as [|n l IH]; intros st k Hk; cbn [fold_left]; [reflexivity|].
    rewrite IH; [|intro H; apply Hk; right; exact H].
    destruct (list_eq_dec N.eq_dec k n) as [->|Hne].
    - assert (Hcp : is_cp prims m anc n = true) by (apply Hk; left; reflexivity).
      destruct st as [s e]. unfold ser_step. rewrite Hcp. reflexivity.
    - apply ser_step_other. exact Hne.
  Qed.

  Lemma sv_cp : forall c, In c m -> is_cp prims m anc (c_name c) = true ->
    sv smap (c_name c) = decl_wmt c.
  Proof.
    intros c Hc Hcp. destruct Hwf as [Hnd _]. unfold sv.
    assert (E : lookup (c_name c) smap = Some (c_wmt c)).
    { unfold stack_serializations in Hs.
      pose proof (ser_fold_cp_stable order (map (fun c0 => (c_name c0, c_wmt c0)) m, false)
                    (c_name c) (fun _ => Hcp)) as H.
      rewrite Hs in H. cbn [fst] in H. rewrite H.
      apply (lookup_init _ (fun x => c_wmt x)); assumption. }
    unfold decl_wmt. rewrite E. destruct (c_wmt c) as [[w|]|]; reflexivity.
  Qed.

  Notation reachs := (reach prims m (is_cp prims m anc)).

  (** The setting of a class after propagation is [Some v] exactly if the class itself or
      a class it reaches through its bases declares [v]. *)
  Theorem model_type_closed_thm : forall c, In c m -> forall v,
    sv smap (c_name c) = Some v <->
    exists a, In a m /\ reachs (c_name c) (c_name a) /\ decl_wmt a = Some v.
  Proof.
    pose proof Hwf as [Hnd [Hbases [rank Hrank]]].
    intros c Hc v. split.
    - assert (Hgen : forall k c0, In c0 m -> rank (c_name c0) < k ->
                sv smap (c_name c0) = Some v ->
                exists a, In a m /\ reachs (c_name c0) (c_name a) /\ decl_wmt a = Some v).
      { induction k as [|k IH]; intros c0 Hc0 Hk Hv; [lia|].
        destruct (is_cp prims m anc (c_name c0)) eqn:Ecp.
        - rewrite (sv_cp c0 Hc0 Ecp) in Hv. exists c0. split; [exact Hc0|].
          split; [apply reach_refl | exact Hv].
        - destruct (model_type_consistent_thm prims m anc Hwf order smap Et Hs c0 Hc0 Ecp)
            as [_ [_ H3]].
          destruct (H3 v Hv) as [Hown|[b [Hb Hvb]]].
          + exists c0. split; [exact Hc0|]. split; [apply reach_refl | exact Hown].
          + rewrite <- (not_cp_no_prim prims m anc c0 Hc0 Hnd Ecp) in Hb.
            destruct (find_class_In m b (Hbases c0 b Hc0 Hb)) as [bc Hbc].
            pose proof (find_class_Some _ _ _ Hbc) as [Hbcm Hbcn]. subst b.
            destruct (IH bc Hbcm) as [a [Ha [Hr Hw]]].
            * pose proof (Hrank c0 (c_name bc) Hc0 Hb). lia.
            * exact Hvb.
            * exists a. split; [exact Ha|]. split; [|exact Hw].
              eapply reach_step; [exact Ecp | | exact Hr].
              exists c0. split; [apply find_class_unique; assumption | exact Hb]. }
      apply (Hgen (S (rank (c_name c))) c Hc). lia.
    - intros [a [Ha [Hr Hw]]].
      assert (Hgen : forall n an, reachs n an ->
                forall c0, In c0 m -> c_name c0 = n -> c_name a = an -> sv smap n = Some v).
      { clear c Hc Hr. intros n an Hr.
        induction Hr as [n|n b an Hsk Hb Hr IH]; intros c0 Hc0 En Ean.
        - assert (a = c0) by (apply (names_inj m a c0 Hnd Ha Hc0); congruence). subst a.
          rewrite <- En.
          destruct (is_cp prims m anc (c_name c0)) eqn:Ecp.
          + rewrite (sv_cp c0 Hc0 Ecp). exact Hw.
          + destruct (model_type_consistent_thm prims m anc Hwf order smap Et Hs c0 Hc0 Ecp)
              as [_ [H2 _]]. apply H2. exact Hw.
        - rewrite <- En in Hsk, Hb |- *.
          destruct Hb as [cl [Hcl Hbb]].
          rewrite (find_class_unique m c0 Hnd Hc0) in Hcl. injection Hcl as <-.
          destruct (find_class_In m b (Hbases c0 b Hc0 Hbb)) as [bc Hbc].
          pose proof (find_class_Some _ _ _ Hbc) as [Hbcm Hbcn].
          pose proof (IH bc Hbcm Hbcn Ean) as Hvb.
          destruct (model_type_consistent_thm prims m anc Hwf order smap Et Hs c0 Hc0 Hsk)
            as [H1 _].
          apply (H1 b v); [|exact Hvb].
          rewrite <- (not_cp_no_prim prims m anc c0 Hc0 Hnd Hsk). exact Hbb. }
      exact (Hgen (c_name c) (c_name a) Hr c Hc eq_refl eq_refl).
  Qed.
End SerClosed.

Theorem model_type_closed_acc : forall prims m r, translate prims m = Ok r ->
  exists (skipped : name -> bool),
    forall c, In c m ->
      exists ci, class_ir r (c_name c) = Some ci /\ skipped (c_name c) = i_is_cp ci
        /\ (i_is_cp ci = false ->
              (i_wmt ci = Some true <->
               exists a, In a m /\ reach prims m skipped (c_name c) (c_name a) /\ decl_wmt a = Some true)).
Proof.
  intros prims m r H. pose proof (accepted_wf prims m r H) as Hwf. pose proof Hwf as [Hnd _].
  destruct (translate_inv prims m r H)
    as [order [anc [smap [mmap [kmap [ifm [Hpo [Et [Ea [Hs [Hpv [Hm [Hk [Hi [Hv ->]]]]]]]]]]]]]]].
  exists (is_cp prims m anc). intros c Hc. eexists. split.
  { unfold class_ir. cbn [r_classes]. apply find_map_name; [intro x; reflexivity | exact Hnd | exact Hc]. }
  cbn [ir_of i_wmt i_is_cp]. split; [reflexivity|]. intro Hcp. rewrite Hcp.
  rewrite <- (model_type_closed_thm prims m anc Hwf order smap Et Hs c Hc true).
  unfold final_wmt, sv. destruct (lookup (c_name c) smap) as [[[[|]|]|]|]; split; congruence.
Qed.
