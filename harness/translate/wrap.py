"""common.wrap_text_into_lines: the article tuple(s) and the default line width."""
from __future__ import annotations

import ast

from harness.translate.astutil import TranslateError, coq_string_list, find_function, parse


def gen_wrap() -> str:
    fn = find_function(parse("aas_core_codegen/common.py"), "wrap_text_into_lines")
    # default of line_width
    args = fn.args
    names = [a.arg for a in args.args]
    if names != ["text", "line_width"] or len(args.defaults) != 1:
        raise TranslateError(f"unexpected signature {names}")
    d = args.defaults[0]
    if not (isinstance(d, ast.Constant) and isinstance(d.value, int)):
        raise TranslateError("default of line_width is not an int constant")
    # every `part in (<string constants>)` test
    tuples = []
    for node in ast.walk(fn):
        if isinstance(node, ast.Compare) and len(node.ops) == 1 and isinstance(node.ops[0], (ast.In, ast.NotIn)):
            comp = node.comparators[0]
            if not isinstance(comp, (ast.Tuple, ast.List, ast.Set)):
                raise TranslateError("membership test against a non-literal container")
            vals = []
            for e in comp.elts:
                if not (isinstance(e, ast.Constant) and isinstance(e.value, str)):
                    raise TranslateError("non-string article")
                vals.append(e.value)
            tuples.append((isinstance(node.ops[0], ast.NotIn), vals))
    if not tuples:
        raise TranslateError("no article membership test found")
    if any(neg for neg, _ in tuples):
        raise TranslateError("negated membership test: loop shape changed")
    out = [
        "From Coq Require Import List NArith ZArith.",
        "Import ListNotations.",
        f"Definition default_line_width : Z := ({d.value})%Z.",
        "(* one entry per `part in (...)` test, in source order *)",
        "Definition article_tuples : list (list (list N)) := ["
        + ";\n  ".join(coq_string_list(v) for _, v in tuples) + "].",
    ]
    return "\n".join(out) + "\n"


GEN_FILES = {"GenWrap": gen_wrap}
