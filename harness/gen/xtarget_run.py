"""C09, compile-and-run tier: the generated Java and C++ SDKs against the generated Python
SDK on the same instances (verification errors, enumeration literals, constants, JSON where
a JSON library is installed). Everything is built under ``ctx.work`` and removed afterwards.
"""
from __future__ import annotations

import json
import os
import pathlib
import random
import re
import shutil
import subprocess
import time
from concurrent.futures import ThreadPoolExecutor
from typing import Any, Dict, List, Optional, Tuple

from harness import lib
from harness.gen import metamodel as mmg
from harness.gen import xtarget as xg
from harness.gen.xtarget_text import nn

JAVA_PREFIX = "Invariant violated:\n"
_SEARCH_ROOTS = ["/usr/include", "/usr/local/include", "/usr/share/java", "/opt", "/root/miniconda/include",
                 "/root/miniconda/pkgs", "/usr/lib/jvm", "/usr/share/maven-repo", "/root/.m2"]


# ----------------------------------------------------------------------------------------
# tool discovery (nothing is cached between runs)
# ----------------------------------------------------------------------------------------
def _find(name_glob: str, path_part: str = "") -> List[str]:
    roots = [r for r in _SEARCH_ROOTS if os.path.isdir(r)]
    if not roots:
        return []
    cmd = ["timeout", "90", "find", *roots, "-name", name_glob]
    try:
        out = subprocess.run(cmd, stdout=subprocess.PIPE, stderr=subprocess.DEVNULL, text=True, timeout=100).stdout
    except subprocess.TimeoutExpired:
        return []
    return sorted(p for p in out.splitlines() if path_part in p)


def find_jackson() -> Optional[List[str]]:
    jars = _find("jackson-*.jar")
    best: Dict[str, str] = {}
    for kind in ("core", "databind", "annotations"):
        c = [j for j in jars if re.search(rf"/jackson-{kind}-[0-9.]+\.jar$", j)]
        if not c:
            return None
        best[kind] = c
    # same version for all three if possible
    for j in best["core"]:
        ver = re.search(r"jackson-core-([0-9.]+)\.jar$", j).group(1)
        d = os.path.dirname(j)
        trio = [os.path.join(d, f"jackson-{k}-{ver}.jar") for k in ("core", "databind", "annotations")]
        if all(os.path.exists(t) for t in trio):
            return trio
    return None


def find_cpp_headers(work: pathlib.Path) -> Dict[str, Any]:
    """A private include directory with only tl/expected.hpp (and nlohmann/ if present)."""
    inc = work / "inc"
    (inc / "tl").mkdir(parents=True, exist_ok=True)
    res = {"include": str(inc), "expected": False, "nlohmann": False}
    exp = [p for p in _find("expected.hpp") if p.endswith("/tl/expected.hpp")]
    if exp:
        shutil.copy(exp[0], inc / "tl" / "expected.hpp")
        res["expected"] = True
    nl = [p for p in _find("json.hpp") if p.endswith("/nlohmann/json.hpp")]
    if nl:
        dst = inc / "nlohmann"
        if not dst.exists():
            os.symlink(os.path.dirname(nl[0]), dst)
        res["nlohmann"] = True
    return res


def _run(cmd, cwd, timeout):
    try:
        p = subprocess.run(cmd, cwd=cwd, stdout=subprocess.PIPE, stderr=subprocess.PIPE, text=True,
                           timeout=timeout, errors="replace")
        return p.returncode, p.stdout, p.stderr
    except subprocess.TimeoutExpired as e:
        return 124, "", f"[timeout after {timeout}s]"


def _write_files(root: pathlib.Path, files: Dict[str, Any]) -> None:
    for rel, content in files.items():
        p = root / rel
        p.parent.mkdir(parents=True, exist_ok=True)
        if isinstance(content, str):
            p.write_text(content, encoding="utf-8")


# ----------------------------------------------------------------------------------------
# output of the drivers: lines  E/J/X/D <i> ... ; L <enum> <lit> <value> ; C/S <name> <value>
# ----------------------------------------------------------------------------------------
def _unesc(s: str) -> str:
    out = []
    i = 0
    while i < len(s):
        if s[i] == "\\" and i + 1 < len(s):
            out.append({"n": "\n", "t": "\t", "r": "\r", "\\": "\\"}.get(s[i + 1], s[i + 1]))
            i += 2
        else:
            out.append(s[i])
            i += 1
    return "".join(out)


def parse_driver_output(text: str, n: int) -> Dict[str, Any]:
    res = {"instances": [{"errors": [], "json": None, "exception": None, "done": False} for _ in range(n)],
           "literals": {}, "constants": {}}
    for line in text.split("\n"):
        if not line:
            continue
        f = line.split("\t")
        tag = f[0]
        if tag == "E" and len(f) >= 3:
            res["instances"][int(f[1])]["errors"].append([_unesc(f[2]), _unesc(f[3]) if len(f) > 3 else ""])
        elif tag == "J":
            res["instances"][int(f[1])]["json"] = _unesc(f[2])
        elif tag == "X":
            res["instances"][int(f[1])]["exception"] = _unesc(f[2])
        elif tag == "D":
            res["instances"][int(f[1])]["done"] = True
        elif tag == "L":
            res["literals"].setdefault(f[1], {})[f[2]] = _unesc(f[3]) if len(f) > 3 else ""
        elif tag in ("C", "S"):
            res["constants"][f[1]] = _unesc(f[2]) if len(f) > 2 else ""
    return res


def norm_path(p: str) -> str:
    """`.short_text[0].x`, `shortText[0].x` -> `shorttext[0].x`."""
    p = p.strip()
    p = re.sub(r"[A-Za-z_][A-Za-z0-9_]*", lambda m: nn(m.group(0)), p)
    return p.lstrip(".")


def norm_errors(errs, java: bool = False) -> List[Tuple[str, str]]:
    out = []
    for cause, path in errs:
        if java and cause.startswith(JAVA_PREFIX):
            cause = cause[len(JAVA_PREFIX):]
        out.append((cause, norm_path(path)))
    return sorted(out)


# ----------------------------------------------------------------------------------------
# Java
# ----------------------------------------------------------------------------------------
def compile_error_class(target: str, failing_files: List[str], errors: List[str], files_with_dirs: List[str]) -> str:
    """Stable class of a compilation failure: the generated modules that fail (directory
    names for Java, file names for C++), or a named cause that spreads over many files."""
    text = "\n".join(errors)
    if target == "java" and re.search(r"package \S+\.types\.enums does not exist", text):
        return "no-enums-package"
    if target == "java":
        mods = sorted({f.split("/")[-2] for f in files_with_dirs if "/" in f})
        return ",".join(mods) or "unknown"
    return ",".join(sorted(failing_files)) or "unknown"


def java_package(files: Dict[str, Any]) -> Optional[str]:
    for rel in files:
        m = re.match(r"^src/main/java/(.+)/verification/Verification\.java$", rel)
        if m:
            return m.group(1).replace("/", ".")
    return None


def build_and_run_java(work: pathlib.Path, mm, files, instances, jackson) -> Dict[str, Any]:
    root = work / "java"
    if root.exists():
        shutil.rmtree(root)
    _write_files(root, {k: v for k, v in files.items() if k.startswith("src/main/")})
    pkg = java_package(files)
    res: Dict[str, Any] = {"status": "ok", "pkg": pkg, "side_findings": []}
    if pkg is None:
        return {"status": "no-package"}
    cp = ":".join(jackson) if jackson else ""
    out = root / "out"
    t0 = time.time()
    # XML is out of scope here; JSON needs Jackson. When only Jsonization.java fails to compile
    # the verdict half is still run without it (and the failure is reported).
    attempts = [True, False] if jackson is not None else [False]
    for with_json in attempts:
        skip = ["/xmlization/"] + ([] if with_json else ["/jsonization/"])
        srcs = [str(p.relative_to(root)) for p in sorted(root.rglob("*.java"))
                if not any(s in str(p) for s in skip) and "/out/" not in str(p) and p.name not in ("Main.java", "MainConstants.java")]
        (root / "Main.java").write_text(xg.render_java_main(mm, instances, pkg, with_json))
        if out.exists():
            shutil.rmtree(out)
        out.mkdir()
        rc, so, se = _run(["javac", "-nowarn", "-encoding", "UTF-8", "-d", "out", *(["-cp", cp] if with_json else []),
                           *srcs, "Main.java"], root, 900)
        if rc == 0:
            break
        errs = [l for l in se.splitlines() if ": error:" in l]
        paths = sorted({l.split(":")[0] for l in errs})
        failing = sorted({re.sub(r"^.*/", "", q) for q in paths})
        klass = compile_error_class("java", failing, errs, paths)
        if with_json and failing == ["Jsonization.java"]:
            res["side_findings"].append({"failing_files": failing, "class": klass, "errors": errs[:12],
                                         "stderr": se[-3000:]})
            continue
        res["javac_s"] = round(time.time() - t0, 1)
        res.update(status="compile-error", failing_files=failing, errors=errs[:12], stderr=se[-3000:])
        res["class"] = klass
        return res
    res["javac_s"] = round(time.time() - t0, 1)
    res["with_json"] = with_json
    if not with_json:
        cp = ""
    rc, so, se = _run(["java", "-Dfile.encoding=UTF-8", "-cp", "out" + (":" + cp if cp else ""), "Main"], root, 600)
    if rc != 0:
        res.update(status="run-error", rc=rc, stderr=se[-3000:], stdout=so[-2000:])
        return res
    res["out"] = parse_driver_output(so, len(instances))
    # constants: a separate program
    (root / "MainConstants.java").write_text(xg.render_java_constants_main(mm, pkg))
    rc, so, se = _run(["javac", "-nowarn", "-encoding", "UTF-8", "-d", "out", "-cp", "out" + (":" + cp if cp else ""),
                       "MainConstants.java"], root, 600)
    if rc != 0:
        res["constants_error"] = se[-2000:]
    else:
        rc, so, se = _run(["java", "-Dfile.encoding=UTF-8", "-cp", "out" + (":" + cp if cp else ""),
                           "MainConstants"], root, 300)
        if rc != 0:
            res["constants_error"] = se[-2000:]
        else:
            res["out"]["constants"] = parse_driver_output(so, 0)["constants"]
    return res


# ----------------------------------------------------------------------------------------
# C++
# ----------------------------------------------------------------------------------------
def cpp_namespace_path(files: Dict[str, Any]) -> Optional[str]:
    for rel in files:
        m = re.match(r"^include/(.+)/types\.hpp$", rel)
        if m:
            return m.group(1)
    return None


def build_and_run_cpp(work: pathlib.Path, mm, files, instances, headers, jobs: int = 6) -> Dict[str, Any]:
    root = work / "cpp"
    if root.exists():
        shutil.rmtree(root)
    _write_files(root, {k: v for k, v in files.items() if k.startswith(("src/", "include/"))})
    nsp = cpp_namespace_path(files)
    if nsp is None:
        return {"status": "no-namespace"}
    with_json = bool(headers["nlohmann"])
    units = ["types", "common", "constants", "stringification", "verification", "pattern", "revm", "iteration"]
    if with_json:
        units += ["jsonization", "wstringification"]
    units = [u for u in units if (root / "src" / f"{u}.cpp").exists()]
    (root / "src" / "main_driver.cpp").write_text(xg.render_cpp_main(mm, instances, nsp, with_json))
    units.append("main_driver")
    (root / "obj").mkdir()
    res: Dict[str, Any] = {"status": "ok"}
    t0 = time.time()

    def compile_unit(u):
        return u, _run(["g++", "-std=c++17", "-O0", "-w", "-c", "-Iinclude", "-I" + headers["include"],
                        f"src/{u}.cpp", "-o", f"obj/{u}.o"], root, 1200)

    with ThreadPoolExecutor(max_workers=jobs) as ex:
        results = list(ex.map(compile_unit, units))
    res["gxx_s"] = round(time.time() - t0, 1)
    bad = [(u, r) for u, r in results if r[0] != 0]
    if bad:
        res.update(status="compile-error", failing_files=[f"{u}.cpp" for u, _ in bad],
                   errors=[l for u, r in bad for l in r[2].splitlines() if "error" in l][:12],
                   stderr="\n".join(r[2][-1500:] for _, r in bad)[-4000:])
        res["class"] = compile_error_class("cpp", res["failing_files"], res["errors"], [])
        return res
    rc, so, se = _run(["g++", "-o", "driver", *[f"obj/{u}.o" for u in units]], root, 600)
    if rc != 0:
        res.update(status="link-error", stderr=se[-3000:])
        return res
    rc, so, se = _run(["./driver"], root, 600)
    if rc != 0:
        res.update(status="run-error", rc=rc, stderr=se[-3000:], stdout=so[-2000:])
        return res
    res["out"] = parse_driver_output(so, len(instances))
    return res


# ----------------------------------------------------------------------------------------
# comparison
# ----------------------------------------------------------------------------------------
def _py_const_repr(c, val, target: str) -> str:
    """How the driver of ``target`` prints the constant whose Python value is ``val``."""
    if isinstance(c, mmg.ConstantPrimitive):
        if c.kind == "bool":
            return "true" if val else "false"
        if c.kind == "float":
            return repr(float(val)) if target == "java" else ("%g" % float(val))
        return str(val)
    items = []
    for x in val:
        if isinstance(x, bool):
            items.append("true" if x else "false")
        elif isinstance(x, float):
            items.append(repr(x) if target == "java" else "%f" % x)
        else:
            items.append(str(x))
    items.sort()
    return "[" + ", ".join(items) + "]" if target == "java" else "|".join(items)


def _json_norm(x):
    """Numbers that are integral floats and ints compare equal; keys sorted by dumps."""
    if isinstance(x, float) and x == int(x):
        return int(x)
    if isinstance(x, list):
        return [_json_norm(y) for y in x]
    if isinstance(x, dict):
        return {k: _json_norm(v) for k, v in x.items()}
    return x


def compare(ctx: lib.Ctx, name: str, mm, target: str, instances, py, tg, source: str) -> Tuple[int, int]:
    """Returns (cases compared, disagreements)."""
    n = bad = 0
    out = tg["out"]
    for i, inst in enumerate(instances):
        p = py["instances"][i]
        t = out["instances"][i]
        n += 1
        if p["exception"]:
            continue  # the Python SDK itself failed: business of C08/C10
        if t["exception"] or not t["done"]:
            bad += 1
            ctx.impl_failure(f"run:{target}:exception", f"the {target} SDK raises while the Python SDK verifies the instance",
                             {"model": name, "instance": inst, "source": source}, t["exception"], "run")
            continue
        pe = norm_errors(p["errors"])
        te = norm_errors(t["errors"], java=(target == "java"))
        if pe != te:
            bad += 1
            only_py = [e for e in pe if e not in te]
            only_tg = [e for e in te if e not in pe]
            seen_kinds = set()
            for first in only_py + only_tg:
                inv_text = next((iv.source for _, iv in xg.all_invariants(mm) if iv.description == first[0]), "")
                kind = classify(inv_text, mm, target)
                if kind in seen_kinds:
                    continue
                seen_kinds.add(kind)
                ctx.impl_failure(
                    f"run:{target}:verdict:{kind}",
                    f"the {target} SDK and the Python SDK flag different invariants for the same instance "
                    f"(only python: {[e for e in only_py if e[0] == first[0]][:2]}; only {target}: "
                    f"{[e for e in only_tg if e[0] == first[0]][:2]}); invariant: {inv_text}",
                    {"model": name, "instance": inst, "invariant": inv_text, "description": first[0], "source": source},
                    {"python": pe, target: te}, "run",
                    f"generate the python and {target} SDKs from `source`, construct `instance` in both and call verify")
        if p["json"] is not None and t["json"] is not None:
            try:
                tj = json.loads(t["json"])
            except ValueError:
                tj = "<unparsable>"
            if _json_norm(tj) != _json_norm(p["json"]):
                bad += 1
                ctx.impl_failure(f"run:{target}:json", f"the {target} SDK serialises the instance to different JSON",
                                 {"model": name, "instance": inst, "source": source},
                                 {"python": p["json"], target: tj}, "run")
    # enumeration literals
    for en, lits in py["literals"].items():
        for lit, val in lits.items():
            n += 1
            got = out["literals"].get(en, {}).get(lit)
            if got != val:
                bad += 1
                ctx.impl_failure(f"run:{target}:enum-literal", f"enumeration literal {en}.{lit} is {got!r} in {target}, "
                                 f"{val!r} in python", {"model": name, "enum": en, "literal": lit, "source": source},
                                 {"python": val, target: got}, "run")
    # constants
    if "constants" in out:
        for c in mm.constants:
            if isinstance(c, mmg.ConstantPrimitive) and c.kind == "bytearray":
                continue
            if isinstance(c, mmg.ConstantSet) and c.items_type == "bytearray":
                continue
            if c.name not in py["constants"]:
                continue
            n += 1
            want = _py_const_repr(c, py["constants"][c.name], target)
            got = out["constants"].get(c.name)
            if got != want:
                bad += 1
                ctx.impl_failure(f"run:{target}:constant", f"constant {c.name} is {got!r} in {target}, expected {want!r}",
                                 {"model": name, "constant": c.name, "source": source},
                                 {"python": py["constants"][c.name], target: got}, "run")
    return n, bad


def classify(inv_text: str, mm, target: str) -> str:
    """Stable class of a verdict disagreement: which operators on which value kinds the
    implicated invariant uses. Java: every `==`/`!=` whose operands are two boxed numbers or
    involve a string is the one known defect class `boxed-equality`."""
    ops = sorted(set(re.findall(r"(==|!=|<=|>=|<|>| in | and | or |not )", inv_text)))
    names = re.findall(r"(?:self|item)\.([A-Za-z_0-9]+)", inv_text)
    kinds = set()
    for c in mm.classes:
        for p in c.properties:
            if p.name in names:
                t = mmg.beneath_optional(p.type)
                if isinstance(t, mmg.TList):
                    t = t.items
                if isinstance(t, mmg.TPrim):
                    kinds.add(t.name)
                elif isinstance(t, mmg.TOur):
                    if mm.find_enum(t.name):
                        kinds.add("enum")
                    elif mm.find_cprim(t.name):
                        kinds.add(mmg.cprim_constrainee(mm, t.name) or "cprim")
                    else:
                        kinds.add("class")
    if target == "cpp" and "len(" in inv_text and "-" in inv_text:
        # `x.size()` is an unsigned std::size_t: `len(x) - 1` wraps around for an empty x, and a
        # negative value compared with a length is converted to a huge unsigned number
        return "unsigned-length"
    str_literal = bool(re.search(r"""(==|!=)\s*['"]""", inv_text))
    if target == "java" and ("==" in ops or "!=" in ops):
        eqs = re.findall(r"([A-Za-z_.0-9\[\]()]+)\s*(?:==|!=)\s*([A-Za-z_.0-9\[\]()'\" /-]+)", inv_text)
        for l, r in eqs:
            l_lit = bool(re.fullmatch(r"-?[0-9.]+|True|False", l.strip("() ")))
            r_lit = bool(re.fullmatch(r"-?[0-9.]+|True|False", r.strip("() ")))
            is_len = "len(" in l or "len(" in r or bool(re.search(r" [+-] ", l + " " + r))  # primitive in Java
            r_str = r.strip().startswith(("'", '"'))
            if r_str or (not l_lit and not r_lit and not is_len and (kinds & {"str", "int", "float"})):
                return "boxed-equality"
    tag = ",".join(o.strip() for o in ops) or "noop"
    return f"{tag}:{'+'.join(sorted(kinds)) or ('str-literal' if str_literal else 'other')}"


# ----------------------------------------------------------------------------------------
def run_stream(ctx: lib.Ctx, models, gens) -> None:
    work = ctx.work / "xrun"
    if work.exists():
        shutil.rmtree(work)
    work.mkdir(parents=True)
    try:
        _run_stream(ctx, models, gens, work)
    finally:
        shutil.rmtree(work, ignore_errors=True)


def _run_stream(ctx: lib.Ctx, models, gens, work: pathlib.Path) -> None:
    have_javac = shutil.which("javac") and shutil.which("java")
    have_gxx = shutil.which("g++")
    jackson = find_jackson() if have_javac else None
    headers = find_cpp_headers(work) if have_gxx else {"expected": False, "nlohmann": False, "include": ""}
    ctx.coverage["toolchains"] = {
        "javac": bool(have_javac), "g++": bool(have_gxx), "jackson": jackson or "absent (Java JSON not compiled)",
        "tl/expected.hpp": headers["expected"], "nlohmann/json.hpp": headers["nlohmann"],
        "typescript": "no tsc: not compiled, not run"}
    if not jackson:
        ctx.assume("Jackson jars not found: Java jsonization was not compiled, JSON of the Java SDK not compared")
    if not headers["nlohmann"]:
        ctx.assume("nlohmann/json.hpp not found: C++ jsonization was not compiled, JSON of the C++ SDK not compared")
    if have_gxx and not headers["expected"]:
        ctx.assume("tl/expected.hpp not found: the generated C++ SDK cannot be compiled with C++17 here; C++ not run")
    rng = random.Random(ctx.rng.getrandbits(64))
    n_java = int(os.environ.get("C09_JAVA_MODELS", "6"))
    n_cpp = int(os.environ.get("C09_CPP_MODELS", "3"))
    n_inst = int(os.environ.get("C09_INSTANCES", "40"))
    chosen = []
    skipped_impl_specific: List[str] = []
    for k, ((name, mm), gen) in enumerate(zip(models, gens)):
        if any(gen[t]["rc"] != 0 or gen[t]["exception"] for t in ("python", "java", "cpp")):
            continue
        if (any(f.kind == "implementation_specific" for f in mm.verification_functions)
                or any(c.is_implementation_specific or c.methods for c in mm.classes)):
            # bodies would come from the synthetic snippets of mmgen, not from the generators
            skipped_impl_specific.append(name)
            continue
        chosen.append((name, mm, gen))
    chosen = chosen[:max(n_java, n_cpp)]
    stats = {"models": 0, "instances": 0, "java_models": 0, "cpp_models": 0, "compared": 0, "disagreements": 0,
             "python_flagged_instances": 0, "timings": []}
    nontrivial = []
    for k, (name, mm, gen) in enumerate(chosen):
        source = mmg.render_source(mm)
        instances = xg.gen_instances(mm, random.Random(rng.getrandbits(64)), n_inst if name != "probe" else 2 * n_inst)
        curated = xg.curated_quantifier_instances(mm, random.Random(rng.getrandbits(64)))
        stats["curated_some_elements_instances"] = stats.get("curated_some_elements_instances", 0) + len(curated)
        instances = curated + instances
        if not instances:
            continue
        payload = {"files": gen["python"]["files"], "instances": instances,
                   "enums": {e.name: [l.name for l in e.literals] for e in mm.enumerations},
                   "constants": [{"name": c.name, "kind": "primitive" if isinstance(c, mmg.ConstantPrimitive) else "set"}
                                 for c in mm.constants
                                 if not (isinstance(c, mmg.ConstantPrimitive) and c.kind == "bytearray")]}
        try:
            py = lib.impl_call("xtarget_py.py", payload, timeout=900)
        except lib.HarnessError as e:
            ctx.corr_break("run", {"model": name, "source": source}, "python SDK importable", str(e)[-1500:])
            continue
        stats["models"] += 1
        stats["instances"] += len(instances)
        flagged = [i for i, r in enumerate(py["instances"]) if r["errors"]]
        stats["python_flagged_instances"] += len(flagged)
        mwork = work / f"m{k}"
        mwork.mkdir()
        todo = []
        if have_javac and k < n_java:
            todo.append(("java", lambda: build_and_run_java(mwork, mm, gen["java"]["files"], instances, jackson)))
        if have_gxx and headers["expected"] and k < n_cpp:
            todo.append(("cpp", lambda: build_and_run_cpp(mwork, mm, gen["cpp"]["files"], instances, headers)))
        with ThreadPoolExecutor(max_workers=2) as ex:
            futs = [(t, ex.submit(f)) for t, f in todo]
            results = [(t, f.result()) for t, f in futs]
        for target, res in results:
            stats[f"{target}_models"] += 1
            stats["timings"].append({name: {target: {k2: v for k2, v in res.items() if k2.endswith("_s")}}})
            if res["status"] in ("compile-error", "link-error"):
                files = ",".join(res.get("failing_files", [])[:3]) or res["status"]
                ctx.impl_failure(
                    f"run:{target}:does-not-compile:{res.get('class', files)}",
                    f"the generated {target} SDK does not compile ({files}): " + " | ".join(res.get("errors", [])[:4]),
                    {"model": name, "source": source}, res.get("stderr", "")[-2500:], "run",
                    f"generate the {target} SDK from `source` with aas-core-codegen and compile it")
                stats["disagreements"] += 1
                continue
            if res["status"] != "ok":
                ctx.impl_failure(f"run:{target}:{res['status']}", f"the {target} driver failed: {res.get('stderr', '')[-600:]}",
                                 {"model": name, "source": source}, res, "run")
                stats["disagreements"] += 1
                continue
            for sf in res.get("side_findings", []):
                files = ",".join(sf["failing_files"][:3])
                ctx.impl_failure(
                    f"run:{target}:does-not-compile:{sf['class']}",
                    f"the generated {target} SDK does not compile ({files}): " + " | ".join(sf["errors"][:4]),
                    {"model": name, "source": source}, sf["stderr"][-2500:], "run",
                    f"generate the {target} SDK from `source` with aas-core-codegen and compile it")
            if target == "java" and "constants_error" in res:
                ctx.impl_failure("run:java:does-not-compile:constants",
                                 "the constants of the Java SDK cannot be read: " + res["constants_error"][-600:],
                                 {"model": name, "source": source}, res["constants_error"], "run")
            n, bad = compare(ctx, name, mm, target, instances, py, res, source)
            stats["compared"] += n
            stats["disagreements"] += bad
            nontrivial += [(name, i, target) for i in flagged]
        shutil.rmtree(mwork, ignore_errors=True)
    stats["models_skipped_implementation_specific"] = len(skipped_impl_specific)
    ctx.count("run", stats["compared"], nontrivial_keys=nontrivial, validated=stats["compared"], **stats)
    if chosen:
        ctx.sample({"run_model": chosen[0][0], "instances": xg.gen_instances(chosen[0][1], random.Random(1), 1)})
