"""Adapter: run the real command-line entry points in-process on materialised files.

JSON stdin -> JSON stdout. Run with the interpreter of the repository under test
(``lib.impl_call("cli.py", payload)`` or ``/venv/bin/python cli.py < in.json``) and a
fresh empty ``TMPDIR`` (the CLI caches parsed models under ``tempfile.gettempdir()``;
``lib.impl_call`` takes care of that).

Input: ``{"jobs": [job, ...], "files": "text" | "hash" | "none",
"fresh_tmp_per_job": true}``. With ``fresh_tmp_per_job`` (default) every job sees its own
empty ``tempfile.gettempdir()``, so the model cache cannot leak between jobs of one call;
set it to false to study the cache (jobs then share the process' TMPDIR). A job is::

    {"model_text": str,                  # written to <job dir>/meta_model.py
     "target": "python" | ... | "smoke", # "smoke" = aas_core_codegen.smoke.main
     "snippets": {rel path: text},       # written below <job dir>/snippets
     "entry": "execute" | "main",        # default "execute" (main.execute / smoke execute);
                                         # "main" goes through argparse with sys.argv patched
     "extra_args": [..],                 # appended to argv for entry == "main"
     "cache_model": bool,                # Parameters(cache_model=...) for entry == "execute"
     "model_path": str | null,           # override (e.g. a path that does not exist)
     "files": "text" | "hash" | "none"}  # per-job override of the output listing

Output: one result per job::

    {"rc": int | null, "stdout": str, "stderr": str,
     "exception": null | {"class": .., "message": .., "traceback": tail},
     "files": {rel path: text or sha256}, "cache_files": [names under TMPDIR created]}

``rc`` is the value returned by the entry point (``SystemExit`` codes from argparse are
reported as rc with ``exception.class == "SystemExit"``).
"""
import contextlib
import hashlib
import io
import json
import os
import pathlib
import shutil
import sys
import tempfile
import traceback


def _listing(root: pathlib.Path, mode: str):
    out = {}
    if mode == "none" or not root.exists():
        return out
    for pth in sorted(root.rglob("*")):
        if pth.is_dir():
            continue
        rel = pth.relative_to(root).as_posix()
        data = pth.read_bytes()
        if mode == "hash":
            out[rel] = hashlib.sha256(data).hexdigest()
        else:
            try:
                out[rel] = data.decode("utf-8")
            except UnicodeDecodeError:
                out[rel] = {"hex": data.hex()}
    return out


def _tmp_snapshot(exclude=None):
    root = pathlib.Path(tempfile.gettempdir())
    if not root.exists():
        return set()
    if exclude is not None and (exclude == root or exclude in root.parents):
        exclude = None
    out = set()
    for p in root.rglob("*"):
        if not p.is_file():
            continue
        if exclude is not None and (p == exclude or exclude in p.parents):
            continue
        out.add(p.relative_to(root).as_posix())
    return out


def run_job(job, workdir: pathlib.Path, default_files: str):
    import aas_core_codegen.main as cg_main
    import aas_core_codegen.smoke.main as smoke_main

    workdir.mkdir(parents=True, exist_ok=True)
    model_path = workdir / "meta_model.py"
    if job.get("model_text") is not None:
        model_path.write_text(job["model_text"], encoding="utf-8")
    if job.get("model_path"):
        model_path = pathlib.Path(job["model_path"])
    snippets_dir = workdir / "snippets"
    snippets_dir.mkdir(exist_ok=True)
    for rel, content in (job.get("snippets") or {}).items():
        pth = snippets_dir / rel
        pth.parent.mkdir(parents=True, exist_ok=True)
        if isinstance(content, dict) and "hex" in content:
            pth.write_bytes(bytes.fromhex(content["hex"]))
        else:
            pth.write_text(content, encoding="utf-8")
    output_dir = workdir / "output"
    target = job["target"]
    entry = job.get("entry", "execute")
    before = _tmp_snapshot(exclude=workdir.parent)

    stdout, stderr = io.StringIO(), io.StringIO()
    rc = None
    exception = None
    try:
        if entry == "execute":
            if target == "smoke":
                rc = smoke_main.execute(model_path=model_path, stderr=stderr)
            else:
                params = cg_main.Parameters(
                    model_path=model_path,
                    target=cg_main.Target(target),
                    snippets_dir=snippets_dir,
                    output_dir=output_dir,
                    cache_model=bool(job.get("cache_model", False)),
                )
                rc = cg_main.execute(params=params, stdout=stdout, stderr=stderr)
        elif entry == "main":
            if target == "smoke":
                argv = ["aas-core-codegen-smoke", "--model_path", str(model_path)]
                fn = lambda: smoke_main.main(prog="aas-core-codegen-smoke")  # noqa: E731
            else:
                argv = ["aas-core-codegen", "--model_path", str(model_path),
                        "--snippets_dir", str(snippets_dir), "--output_dir", str(output_dir),
                        "--target", target]
                fn = lambda: cg_main.main(prog="aas-core-codegen")  # noqa: E731
            argv += list(job.get("extra_args") or [])
            old_argv = sys.argv
            sys.argv = argv
            try:
                with contextlib.redirect_stdout(stdout), contextlib.redirect_stderr(stderr):
                    rc = fn()
            finally:
                sys.argv = old_argv
        else:
            raise ValueError(f"unexpected entry {entry!r}")
    except SystemExit as exc:
        code = exc.code
        rc = code if isinstance(code, int) else (0 if code is None else 1)
        exception = {"class": "SystemExit", "message": str(exc.code), "traceback": ""}
    except BaseException as exc:  # noqa
        if isinstance(exc, KeyboardInterrupt):
            raise
        exception = {"class": type(exc).__name__, "message": str(exc)[:2000],
                     "traceback": traceback.format_exc()[-4000:]}

    mode = job.get("files", default_files)
    result = {
        "rc": rc,
        "stdout": stdout.getvalue(),
        "stderr": stderr.getvalue(),
        "exception": exception,
        "files": _listing(output_dir, mode),
        "cache_files": sorted(_tmp_snapshot(exclude=workdir.parent) - before),
    }
    return result


def main():
    payload = json.load(sys.stdin)
    if isinstance(payload, list):
        payload = {"jobs": payload}
    default_files = payload.get("files", "text")
    keep = payload.get("keep_dirs", False)
    fresh_tmp = payload.get("fresh_tmp_per_job", True)
    original_tmp = tempfile.gettempdir()
    base = pathlib.Path(tempfile.mkdtemp(prefix="mmgen-cli-", dir=os.getcwd()))
    out = []
    try:
        for i, job in enumerate(payload["jobs"]):
            workdir = base / f"job{i}"
            if fresh_tmp:
                job_tmp = base / f"tmp{i}"
                job_tmp.mkdir(parents=True, exist_ok=True)
                tempfile.tempdir = str(job_tmp)
            result = run_job(job, workdir, default_files)
            if fresh_tmp:
                tempfile.tempdir = original_tmp
                shutil.rmtree(base / f"tmp{i}", ignore_errors=True)
            if keep:
                result["workdir"] = str(workdir)
            else:
                shutil.rmtree(workdir, ignore_errors=True)
            out.append(result)
    finally:
        if not keep:
            shutil.rmtree(base, ignore_errors=True)
    json.dump(out, sys.stdout)


if __name__ == "__main__":
    main()
