"""Shared stream runner of C11 and C12 (see harness/props/c11.py, c12.py, docs/C11.md).

One pipeline: generated + hand-built meta-models -> real CLI (jsonschema, python) ->
schema checks, SDK instances (valid ones by ``verify``), single-constraint mutants,
structural mutants -> verdicts of the independent validator; then the two in-Coq
correspondences (generator model vs the real ``definitions``; validation semantics vs the
independent validator). ``prop`` selects which oracle failures are reported.
"""
from __future__ import annotations

import json
import random
import sys
import time
from typing import Any, Dict, List, Tuple

from harness import lib
from harness.gen import jsonschema as jg
from harness.gen import metamodel as mmg
from harness.gen.metamodel import (Call, Class, Cmp, Const, ConstrainedPrimitive, Invariant, Member,
                                   MetaModel, Name, Property, TList, TOpt, TOur, TPrim,
                                   VerificationFunction)

GEN_HEADER = """From Coq Require Import List NArith ZArith Bool.
From Acg Require Import Base.Str Base.Outcome Model.JsonSchemaSem Model.JsonSchemaGen Gen.GenJsonSchema.
Import ListNotations.
Open Scope N_scope.
Definition fix_of (tbl : list (text * text)) (p : text) : text :=
  match lookup p tbl with Some q => q | None => p end.
(* case: view, fix table, real definitions (None: the real generator raised an exception) *)
Definition case_ok (c : list our_type * list (text * text) * option (list (text * schema))) : bool :=
  match c with
  | (ts, tbl, real) =>
      match gen primitive_map (fix_of tbl) ts, real with
      | Ok ds, Some rs =>
          Nat.eqb (length ds) (length rs)
          && forallb (fun r : text * schema =>
                        match lookup (fst r) ds with
                        | Some d => schema_eqb 60 (normalize 60 d) (normalize 60 (snd r))
                        | None => false
                        end) rs
      | Crash _, None => true
      | _, _ => false
      end
  end.
Fixpoint bad_from (i : nat) (cs : list (list our_type * list (text * text) * option (list (text * schema)))) : list nat :=
  match cs with
  | [] => []
  | c :: r => if case_ok c then bad_from (S i) r else i :: bad_from (S i) r
  end.
Definition bad := bad_from 0.
"""
GEN_TYPE = "list our_type * list (text * text) * option (list (text * schema))"

SEM_HEADER = """From Coq Require Import List NArith ZArith Bool.
From Acg Require Import Base.Str Model.JsonSchemaSem.
Import ListNotations.
Open Scope N_scope.
(* regex oracle: pattern -> the strings of the document it is found in *)
Definition find_hit (tbl : list (text * list text)) (p s : text) : bool :=
  match lookup p tbl with
  | Some l => mem_text s l
  | None => false
  end.
"""
SEM_TAIL = """
(* case: definition name, document, regex oracle table, verdict of the independent
   validator (true = accepted), all [$ref] of the real schema resolve *)
Definition case_ok (c : nat * text * json * list (text * list text) * bool) : bool :=
  match c with
  | (k, name, doc, tbl, accepted) =>
      match validates (find_hit tbl) (nth k all_defs []) 300 (Schema [KRef name]) doc with
      | Some b => Bool.eqb b accepted
      | None => false
      end
  end.
Fixpoint bad_from (i : nat) (cs : list (nat * text * json * list (text * list text) * bool)) : list nat :=
  match cs with
  | [] => []
  | c :: r => if case_ok c then bad_from (S i) r else i :: bad_from (S i) r
  end.
Definition bad := bad_from 0.
"""
SEM_TYPE = "nat * text * json * list (text * list text) * bool"


# ------------------------------------------------------------------------------------
# hand-built corpus (minimised witnesses; run first)
# ------------------------------------------------------------------------------------
def _me(p):
    return Member(Name("self"), p)


def _len(op, p, n, guarded=False):
    body = Cmp(op, Call("len", (_me(p),)), Const(n))
    meta = {"prop": p, "op": op, "n": n, "swapped": False, "guard": None}
    if guarded:
        from harness.gen.metamodel import Implies, IsNotNone
        body = Implies(IsNotNone(_me(p)), body)
        meta["guard"] = "implication"
    return Invariant(f"{p} length {op} {n}".capitalize(), body, "len_bound", meta)


def _pat(p, fn):
    return Invariant(f"{p} shall match {fn}".capitalize(), Call(fn, (_me(p),)), "pattern",
                     {"prop": p, "fn": fn, "guard": None})


def corpus(rng: random.Random = None) -> List[Tuple[str, MetaModel]]:
    rng = rng or random.Random(0)
    out = []
    mm = MetaModel(doc=None, version="V1", xml_namespace="urn:c11:bytes")
    mm.classes = [Class("Blob", properties=[Property("data", TPrim("bytearray")),
                                            Property("more", TOpt(TPrim("bytearray")))],
                        invariants=[_len("<=", "data", 3), _len(">=", "data", 2),
                                    _len("<=", "more", 4, guarded=True)])]
    out.append(("bytes-max", mm))

    mm = MetaModel(doc=None, version="V1", xml_namespace="urn:c11:leaf")
    mm.classes = [Class("Leafy", is_abstract=True, properties=[Property("x", TPrim("int"))]),
                  Class("Holder", properties=[Property("leafy", TOpt(TOur("Leafy"))),
                                              Property("n", TPrim("int"))])]
    out.append(("abstract-leaf", mm))

    mm = MetaModel(doc=None, version="V1", xml_namespace="urn:c11:diamond")
    mm.classes = [Class("Top", is_abstract=True, with_model_type=True,
                        properties=[Property("s", TPrim("str"))], invariants=[_len("<=", "s", 3)]),
                  Class("Left", is_abstract=True, bases=["Top"]),
                  Class("Right", is_abstract=True, bases=["Top"]),
                  Class("Join", bases=["Left", "Right"])]
    out.append(("diamond-constraint", mm))

    mm = MetaModel(doc=None, version="V1", xml_namespace="urn:c11:solo")
    mm.classes = [Class("Solo", with_model_type=True, properties=[Property("x", TPrim("int"))]),
                  Class("Plain", properties=[Property("solo", TOur("Solo")), Property("flag", TPrim("bool"))])]
    out.append(("solo-model-type", mm))

    mm = MetaModel(doc=None, version="V1", xml_namespace="urn:c11:chain")
    mm.verification_functions = [
        VerificationFunction("matches_lower", "pattern", [("text", TPrim("str"))], pattern="^[a-z]+$"),
        VerificationFunction("matches_short", "pattern", [("text", TPrim("str"))], pattern="^.{1,6}$")]
    mm.constrained_primitives = [
        ConstrainedPrimitive("Code", "str", invariants=[
            Invariant("Code is lower", Call("matches_lower", (Name("self"),)), "pattern",
                      {"fn": "matches_lower", "subject": "self"}),
            Invariant("Code length", Cmp("<=", Call("len", (Name("self"),)), Const(4)), "len_bound",
                      {"subject": "self", "op": "<=", "n": 4, "swapped": False, "guard": None})])]
    mm.classes = [
        Class("Basis", is_abstract=True, with_model_type=True,
              properties=[Property("s", TPrim("str")), Property("codes", TList(TOur("Code"))),
                          Property("tags", TOpt(TList(TPrim("str"))))],
              invariants=[_len("<=", "s", 10), _len(">=", "codes", 1)]),
        Class("Mid", bases=["Basis"], properties=[Property("code", TOpt(TOur("Code")))],
              invariants=[_len("<=", "s", 5), _pat("s", "matches_lower")]),
        Class("Leaf", bases=["Mid"], invariants=[_len(">=", "s", 2), _pat("s", "matches_short"),
                                                 _len("<=", "codes", 2), _len("<=", "tags", 1, guarded=True)]),
        Class("Parcel", properties=[Property("items", TList(TOur("Basis"))), Property("one", TOpt(TOur("Mid")))],
              invariants=[_len(">=", "items", 1)])]
    out.append(("tightening-chain", mm))
    out.append(("inherited-tightening", inherited_tightening(rng)))
    out.append(("cprim-chain", cprim_chain(rng)))
    out.append(("zero-bounds", zero_bounds(rng)))
    return out


def inherited_tightening(rng: random.Random) -> MetaModel:
    """(i) bytearray / str / list properties defined in a parent, their minimum and maximum
    tightened by invariants of a descendant and of a grand-descendant (bounds drawn from the
    seed; the parent has its own bound or none)."""
    mm = MetaModel(doc=None, version="V1", xml_namespace="urn:c11:inherited")
    props = [Property("blob", TPrim("bytearray")), Property("label", TPrim("str")),
             Property("numbers", TList(TPrim("int"))), Property("spare", TOpt(TPrim("bytearray"))),
             Property("memo", TOpt(TPrim("str")))]
    top, mid, low = [], [], []
    for p in props:
        guarded = isinstance(p.type, TOpt)
        hi0 = rng.randint(10, 16)
        hi1 = rng.randint(5, 8)
        hi2 = rng.randint(3, hi1 - 1)
        lo1 = rng.randint(1, 2)
        lo2 = rng.randint(lo1, 3)
        if rng.random() < 0.6:
            top.append(_len("<=", p.name, hi0, guarded))
        mid.append(_len(rng.choice(["<=", "<"]), p.name, hi1, guarded))
        if mid[-1].meta["op"] == "<":
            hi1 -= 1
        mid.append(_len(">=", p.name, lo1, guarded))
        low.append(_len("<=", p.name, min(hi2, hi1), guarded))
        low.append(_len(">=", p.name, lo2, guarded))
    for k, inv in enumerate(top + mid + low):
        inv.description = f"Rule {k}: {inv.description}"
    mm.classes = [
        Class("Vault", is_abstract=True, with_model_type=True, properties=props, invariants=top),
        Class("Small_vault", bases=["Vault"], invariants=mid,
              properties=[Property("extra", TOpt(TPrim("int")))]),
        Class("Tiny_vault", bases=["Small_vault"], invariants=low),
        Class("Depot", properties=[Property("vaults", TList(TOur("Vault")))])]
    return mm


def cprim_chain(rng: random.Random) -> MetaModel:
    """(ii) chains of constrained primitives of depth 3..5 (str) and 3 (bytearray), declared
    in a non-topological order (a child before its parent), used as property types."""
    mm = MetaModel(doc=None, version="V1", xml_namespace="urn:c11:cprims")
    mm.verification_functions = [
        VerificationFunction("matches_lower", "pattern", [("text", TPrim("str"))], pattern="^[a-z]*$"),
        VerificationFunction("matches_word", "pattern", [("text", TPrim("str"))], pattern="^[a-z0-9_]*$")]
    depth = rng.randint(3, 5)
    me = Name("self")

    def clen(op, n, k):
        return Invariant(f"Level {k} length {op} {n}", Cmp(op, Call("len", (me,)), Const(n)), "len_bound",
                         {"subject": "self", "op": op, "n": n, "swapped": False, "guard": None})

    def cpat(fn, k):
        return Invariant(f"Level {k} matches {fn}", Call(fn, (me,)), "pattern", {"fn": fn, "subject": "self"})

    cps = []
    hi = rng.randint(8, 12)
    for k in range(depth):
        invs = []
        if k == 0:
            invs.append(clen("<=", hi, k))
        elif k == 1:
            invs.append(cpat("matches_word", k))
        elif k == 2:
            invs.append(clen(">=", rng.randint(1, 2), k))
        elif k == 3:
            invs.append(cpat("matches_lower", k))
        else:
            invs.append(clen("<=", rng.randint(4, hi - 1), k))
        cps.append(ConstrainedPrimitive(f"Word_{k}", "str", bases=[f"Word_{k - 1}"] if k else [],
                                        invariants=invs))
    bhi = rng.randint(7, 11)
    cps += [ConstrainedPrimitive("Chunk_0", "bytearray", invariants=[clen("<=", bhi, 10)]),
            ConstrainedPrimitive("Chunk_1", "bytearray", bases=["Chunk_0"], invariants=[clen(">=", 1, 11)]),
            ConstrainedPrimitive("Chunk_2", "bytearray", bases=["Chunk_1"],
                                 invariants=[clen("<=", rng.randint(3, bhi - 1), 12)])]
    mm.constrained_primitives = cps
    last = f"Word_{depth - 1}"
    mm.classes = [Class("Carrier", properties=[
        Property("word", TOur(last)), Property("middle", TOpt(TOur("Word_2"))),
        Property("words", TList(TOur(last))), Property("chunk", TOur("Chunk_2")),
        Property("chunks", TOpt(TList(TOur("Chunk_1"))))])]
    # declaration order: the str chain always most-derived first (every level is declared
    # before all of its ancestors); the bytearray chain interleaved in a seeded order
    words = [c.name for c in reversed(cps) if c.name.startswith("Word_")]
    chunks = [c.name for c in cps if c.name.startswith("Chunk_")]
    rng.shuffle(chunks)
    order = words[:]
    for c in chunks:
        order.insert(rng.randint(0, len(order)), c)
    mm.decl_order = order
    return mm


def zero_bounds(rng: random.Random) -> MetaModel:
    """(iii) bounds that are zero: lists and strings that must stay empty, at the defining
    class and imposed by a descendant on an inherited list."""
    mm = MetaModel(doc=None, version="V1", xml_namespace="urn:c11:zero")
    forms = [("<", 1), ("<=", 0), ("==", 0)]
    rng.shuffle(forms)
    (o1, n1), (o2, n2), (o3, n3) = forms
    mm.classes = [
        Class("Quiet", properties=[Property("values", TList(TPrim("str"))),
                                   Property("numbers", TOpt(TList(TPrim("int")))),
                                   Property("text", TPrim("str")), Property("remark", TOpt(TPrim("str")))],
              invariants=[_len(o1, "values", n1), _len(o2, "numbers", n2, guarded=True),
                          _len(o3, "text", n3), _len(o1, "remark", n1, guarded=True)]),
        Class("Shelf", is_abstract=True, with_model_type=True,
              properties=[Property("things", TList(TPrim("int"))), Property("tag", TPrim("str"))]),
        Class("Empty_shelf", bases=["Shelf"], invariants=[_len(o2, "things", n2), _len(o3, "tag", n3)]),
        Class("Full_shelf", bases=["Shelf"], invariants=[_len(">=", "things", 1)])]
    k = 0
    for c in mm.classes:
        for inv in c.invariants:
            inv.description = f"Zero rule {k}: {inv.description}"
            k += 1
    return mm


def shuffle_cprims(mm: MetaModel, rng: random.Random) -> None:
    """Declare the constrained primitives of a random model children-first (the front end
    accepts forward references between constrained primitives)."""
    names = [c.name for c in mm.constrained_primitives]
    if len(names) < 2:
        return
    order = list(mm.decl_order) if mm.decl_order else [t.name for t in mm.ordered_our_types()]
    slots = [i for i, n in enumerate(order) if n in names]
    present = [order[i] for i in slots]
    new = list(reversed(present))
    for i, n in zip(slots, new):
        order[i] = n
    mm.decl_order = order


# ------------------------------------------------------------------------------------
def _instances(mm: MetaModel, rng: random.Random, per_class: int, astral: bool, n_mutants: int = 5):
    ig = jg.InstanceGen(mm, rng, astral=astral)
    insts, meta = [], []
    for c in mm.classes:
        if c.is_abstract or c.is_implementation_specific:
            continue
        # boundary instances first (every length at its minimum / maximum), then random ones
        for boundary in ["lo", "hi"] + [None] * per_class:
            i = ig.try_instance(c, boundary=boundary)
            if i is None:
                continue
            base = len(insts)
            insts.append(i)
            meta.append({"role": "valid"})
            for m in jg.constraint_mutants(mm, i, rng, n_mutants, ig=ig):
                insts.append(m.pop("inst"))
                m["role"] = "mutant"
                m["base"] = base
                meta.append(m)
    return insts, meta


def _brief(x: Any, n: int = 1500) -> Any:
    s = json.dumps(x, ensure_ascii=True, default=str)
    return x if len(s) <= n else s[:n] + "..."


def _tick(ctx, label, t0):
    tm = ctx.coverage.setdefault("timing_s", {})
    tm[label] = round(tm.get(label, 0.0) + time.time() - t0, 1)
    return time.time()


def _cleanup(ctx, name, keep):
    """Remove the generated cases files of a stream (kept when it found a disagreement)."""
    if keep:
        return
    for pth in ctx.work.glob(f"{name}_*.v"):
        try:
            pth.unlink()
        except OSError:
            pass


def run(ctx: lib.Ctx, prop: str) -> None:
    rng = ctx.rng
    t0 = time.time()
    want11 = prop == "C11"
    n_models = ctx.n(4, 16)
    per_class = ctx.n(5, 8)
    prof = jg.profile()

    def batches():
        """Quick: one batch (witness models + random ones). Thorough: the witness models,
        then the random models six at a time -- a batch is generated, run, checked inside
        Coq and dropped before the next one is built (bounded memory, small Coq files)."""
        first: List[Tuple[str, MetaModel, bool]] = [(name, mm, False) for name, mm in corpus(rng)]
        group = n_models if not ctx.thorough else 6
        k = 0
        if not ctx.thorough:
            pending = first
        else:
            yield first
            pending = []
        while k < n_models:
            astral = k % 4 == 3
            rmm = mmg.random_metamodel(rng, prof)
            if k % 2 == 1:
                shuffle_cprims(rmm, rng)
            pending.append((f"random-{k}", rmm, astral))
            k += 1
            if len([m for m in pending if m[0].startswith("random-")]) >= group:
                yield pending
                pending = []
        if pending:
            yield pending

    stats = {"models": 0, "schemas": 0, "generator_rejected": 0, "generator_crashed": 0,
             "sdk_failed": 0, "candidates": 0, "valid_docs": 0, "valid_docs_with_bytes_limits": 0,
             "constraint_mutants": 0, "excluded_byte_mutants": 0, "structural_mutants": 0,
             "mutants_not_violating": 0, "astral_docs": 0, "batches": 0}
    kinds: Dict[str, int] = {}
    features: Dict[str, int] = {}
    nontrivial = []
    n_gen_total, gen_keys, n_sem_total = 0, [], 0
    for batch_no, models in enumerate(batches()):
        stats["batches"] += 1
        stats["models"] += len(models)
        entries, metas = [], []
        for name, mm, astral in models:
            is_corpus = not name.startswith("random-")
            insts, meta = _instances(mm, rng, 3 if is_corpus else per_class, astral, 14 if is_corpus else 5)
            entries.append({"model_text": mmg.render_source(mm),
                            "snippets_jsonschema": mmg.synth_snippets(mm, "jsonschema"),
                            "snippets_python": mmg.synth_snippets(mm, "python"), "instances": insts})
            metas.append((insts, meta))
        results: List[Dict[str, Any]] = []
        B = 12
        for k in range(0, len(entries), B):
            results += lib.impl_call("jsonschema_run.py", {"mode": "build", "models": entries[k:k + B]},
                                     timeout=3000)

        t0 = _tick(ctx, "generate+real CLI+SDK", t0)
        gen_cases, gen_inputs = [], []
        sem_jobs = []          # (model idx, name, defs term, [(case term, info)], unresolved)
        struct_jobs, sem_models = [], []

        for idx, ((name, mm, astral), entry, (insts, meta), r) in enumerate(zip(models, entries, metas, results)):
            for k, v in (mm.features or {}).items():
                if k.startswith(("shape:", "invariant:", "cprim:")):
                    features[k] = features.get(k, 0) + v
            model_in = {"model": name, "meta_model_text": entry["model_text"]}
            if "adapter_error" in r:
                raise lib.HarnessError(f"adapter failed on {name}: {r['adapter_error']}\n{r.get('traceback')}")
            if r["frontend"] is None or r["frontend"].get("status") != "ok":
                # not an accepted meta-model: outside the property
                if not name.startswith("random-"):
                    raise lib.HarnessError(f"corpus model {name} is not accepted: {r['frontend']}")
                stats["generator_rejected"] += 1
                continue
            js = r["jsonschema"]
            crashed = js["exception"] is not None
            if crashed:
                stats["generator_crashed"] += 1
                exc = js["exception"]
                site = "unknown"
                for line in reversed(exc.get("traceback", "").splitlines()):
                    if ", in " in line and "aas_core_codegen" in line:
                        site = line.rsplit(", in ", 1)[1].strip()
                        break
                if want11:
                    ctx.impl_failure(
                        f"generator-crash:{exc['class']}:{site}",
                        f"the JSON-Schema generator raised {exc['class']} on an accepted meta-model (no schema)",
                        model_in, {"exception": exc["class"], "message": exc["message"][:400]}, "schema",
                        "aas-core-codegen --target jsonschema on the meta_model_text of this replay")
            elif js["rc"] != 0:
                stats["generator_rejected"] += 1
            # --- generator model vs real definitions -------------------------------------
            view = r.get("view")
            schema = None
            if r.get("schema_text"):
                schema = json.loads(r["schema_text"])
            if view and "error" not in view and (schema is not None or crashed):
                try:
                    real = "None" if schema is None else f"(Some {jg.coq_definitions(schema['definitions'])})"
                    gen_cases.append(lib.coq_pair(jg.coq_view(view), jg.coq_fix_table(view), real))
                    gen_inputs.append((name, entry["model_text"], None if schema is None else schema["definitions"]))
                except jg.Unsupported as e:
                    ctx.corr_break("generator", model_in, "unsupported by the model", str(e),
                                   "the real schema uses a construct outside the modelled subset")
            if schema is None:
                continue
            stats["schemas"] += 1
            chk = r["schema_check"]
            if want11:
                if chk["check_schema_error"] or chk["declared"] is None or chk["parse_error"]:
                    ctx.impl_failure("schema-invalid", "the schema does not conform to its declared draft",
                                     model_in, chk, "schema")
                for ref in chk["unresolved_refs"][:1]:
                    what = "abstract-class-without-concrete-descendants"
                    target = ref.rsplit("/", 1)[-1]
                    c = next((c for c in mm.classes if r["names"]["classes"].get(c.name) == target), None)
                    if not (c is not None and c.is_abstract and not mmg.concrete_descendants(mm, c)):
                        what = "other"
                    ctx.impl_failure(f"unresolved-ref:{what}", f"$ref {ref} does not resolve",
                                     model_in, {"unresolved_refs": chk["unresolved_refs"]}, "schema")
            if r["python"]["rc"] != 0 or r["python"]["exception"] or r["python"].get("import_error"):
                stats["sdk_failed"] += 1
                continue
            names = r["names"]
            pats: List[str] = []
            jg.patterns_in(schema, pats)
            sem_cases = []
            valid_idx = {}
            # --- valid documents (C11) ---------------------------------------------------
            for i, (m, it) in enumerate(zip(meta, r["instances"])):
                if m["role"] != "valid":
                    continue
                stats["candidates"] += 1
                if it["error"] is not None or it["verify"]:
                    continue
                valid_idx[i] = it
                stats["valid_docs"] += 1
                doc = it["doc"]
                nontrivial.append(lib.stable_key(name, doc))
                strs: List[str] = []
                jg.strings_in(doc, strs)
                if any(ord(ch) > 0xFFFF for s in strs for ch in s):
                    stats["astral_docs"] += 1
                ref = names["classes"][insts[i]["c"]]
                accepted = not it["schema_errors"]
                sem_cases.append((ref, doc, accepted, {"model": name, "doc": _brief(doc), "definition": ref}))
                if want11 and not accepted:
                    e = it["schema_errors"][0]
                    last = e["path"][-1] if e["path"] else ""
                    astral_here = any(ord(ch) > 0xFFFF for s in strs for ch in s) and e["kw"] in ("pattern", "oneOf", "allOf")
                    suspect = any(
                        jg._prim_of(mm, t) == "bytearray" and vc.rec_hi is not None
                        and jg.b64len(len(cont[key_]["b"]) // 2) > vc.rec_hi
                        for _p, _c, _pr, t, vc, cont, key_, _l in jg._walk(mm, insts[i]))
                    if suspect and e["kw"] in ("maxLength", "oneOf", "allOf"):
                        key = "valid-rejected:maxLength:bytearray"
                    else:
                        key = f"valid-rejected:{e['kw']}" + (":astral" if astral_here else "")
                    ctx.impl_failure(
                        key, "a document produced by the SDK from an instance satisfying all invariants "
                             f"is rejected by the schema ({e['kw']} at /{'/'.join(e['path'])})",
                        {**model_in, "instance": insts[i], "document": doc},
                        {"schema_errors": it["schema_errors"][:3]}, "valid-docs",
                        "generate schema.json and the Python SDK, build the instance, verify() is empty, "
                        "to_jsonable(), validate")
            # --- single-constraint mutants (C12) -----------------------------------------
            for i, (m, it) in enumerate(zip(meta, r["instances"])):
                if m["role"] != "mutant" or m["base"] not in valid_idx:
                    continue
                if it["error"] is not None:
                    continue
                if not it["verify"]:
                    stats["mutants_not_violating"] += 1
                    continue
                ref = names["classes"][insts[i]["c"]]
                accepted = not it["schema_errors"]
                if not m["expect_reject"]:
                    stats["excluded_byte_mutants"] += 1
                    sem_cases.append((ref, it["doc"], accepted, {"model": name, "doc": _brief(it["doc"])}))
                    continue
                stats["constraint_mutants"] += 1
                kk = f"{m['kind']}/{m['origin']}/{m['level']}"
                kinds[kk] = kinds.get(kk, 0) + 1
                nontrivial.append(lib.stable_key(name, it["doc"]))
                sem_cases.append((ref, it["doc"], accepted, {"model": name, "doc": _brief(it["doc"])}))
                if not want11 and accepted:
                    inherited = m["level"] == "property" and m["origin"] in ("own-class",) and \
                        m["class"] != m["where"].split(":", 1)[1]
                    ctx.impl_failure(
                        f"mutant-accepted:{m['kind']}:{m['origin']}",
                        f"a document whose value at {m['path']} breaks the {m['kind']} constraint "
                        f"({m['where']}) is accepted by the schema",
                        {**model_in, "instance": insts[i], "document": it["doc"], "mutation": {
                            k: m[k] for k in ("kind", "where", "path", "level", "class", "prop")}},
                        {"sdk_verify": it["verify"][:2], "schema_errors": []}, "constraint-mutants")
            # --- structural mutants (C12): collected here, validated in one call below ------
            smut = []
            for i, it in list(valid_idx.items())[: ctx.n(8, 16)]:
                for sm in jg.structural_mutants(mm, names, insts[i], it["doc"], rng, 8):
                    sm["ref"] = names["classes"][insts[i]["c"]]
                    sm["valid_document"] = it["doc"]
                    smut.append(sm)
            struct_jobs.append((idx, name, mm, model_in, schema, smut, sem_cases))
            sem_models.append((idx, name, schema, pats, chk, model_in, sem_cases))

        if struct_jobs:
            vr = lib.impl_call("jsonschema_run.py", {"mode": "validate", "jobs": [
                {"schema": j[4], "docs": [{"doc": sm["doc"], "ref": "#/definitions/" + sm["ref"]} for sm in j[5]]}
                for j in struct_jobs]}, timeout=1800)
            for (idx, name, mm, model_in, schema, smut, sem_cases), res in zip(struct_jobs, vr):
                for sm, errs in zip(smut, res["results"]):
                    stats["structural_mutants"] += 1
                    kinds[sm["kind"]] = kinds.get(sm["kind"], 0) + 1
                    accepted = not errs
                    sem_cases.append((sm["ref"], sm["doc"], accepted, {"model": name, "doc": _brief(sm["doc"])}))
                    if not want11 and accepted:
                        cls = mm.find_class(sm["class"]) if sm["class"] else None
                        detail = ""
                        if sm["kind"] == "missing-modelType" and cls is not None:
                            has_desc = bool(mmg.concrete_descendants(mm, cls))
                            root = bool(cls.with_model_type) and not any(
                                mmg.effective_with_model_type(mm, mm.find_class(b)) for b in cls.bases)
                            detail = ":leaf-class-declaring-model-type" if (root and not has_desc) else ":other"
                        ctx.impl_failure(
                            f"mutant-accepted:{sm['kind']}{detail}",
                            f"a document with a {sm['kind']} at /{'/'.join(map(str, sm['path']))} is accepted",
                            {**model_in, "valid_document": sm["valid_document"], "document": sm["doc"],
                             "mutation": {k: sm[k] for k in ("kind", "path", "class") if k in sm}},
                            {"schema_errors": []}, "structural-mutants")

        for idx, name, schema, pats, chk, model_in, sem_cases in sem_models:
            if sem_cases:
                try:
                    defs_term = jg.coq_definitions(schema["definitions"])
                    limit = ctx.n(25, 60)
                    picked = sem_cases if len(sem_cases) <= limit else rng.sample(sem_cases, limit)
                    terms = [(lib.coq_pair(jg._t(ref), jg.coq_json(doc), jg.search_table(pats, doc),
                                           lib.coq_bool(acc)), info) for ref, doc, acc, info in picked]
                    sem_jobs.append((idx, name, defs_term, terms, bool(chk["unresolved_refs"])))
                except jg.Unsupported as e:
                    ctx.corr_break("semantics", model_in, "unsupported by the model", str(e))

        t0 = _tick(ctx, "oracles+structural validation", t0)
        # --- in-Coq correspondence: generator model ------------------------------------------
        bad, _ = lib.run_cases(ctx.work, "gen", GEN_HEADER, GEN_TYPE, "bad", gen_cases, shard=max(3, (len(gen_cases) + 3) // 4))
        for i in bad[:6]:
            name, text, real = gen_inputs[i]
            ctx.corr_break("generator", {"model": name, "meta_model_text": text},
                           "Model/JsonSchemaGen.gen disagrees (normalised definitions differ)",
                           _brief(real, 3000))
        n_gen_total += len(gen_cases)
        gen_keys += [lib.stable_key(g[1]) for g in gen_inputs]
        _cleanup(ctx, "gen", bool(bad))
        t0 = _tick(ctx, "coq generator correspondence", t0)
        # --- in-Coq correspondence: validation semantics -------------------------------------
        n_sem = 0
        if sem_jobs:
            header = (SEM_HEADER + "Definition all_defs : list (list (text * schema)) := [\n"
                      + ";\n".join(j[2] for j in sem_jobs) + "\n].\n" + SEM_TAIL)
            flat = []
            for k, (_idx, _name, _defs, terms, _u) in enumerate(sem_jobs):
                for t, info in terms:
                    flat.append((f"({k}%nat, " + t[1:], info))
            # bound the size of a cases file (coqc memory grows with the size of the terms):
            # very large documents stay with the oracle only
            kept = [(t, info) for t, info in flat if len(t) <= 120_000]
            stats["sem_skipped_large"] = stats.get("sem_skipped_large", 0) + len(flat) - len(kept)
            flat = kept
            n_sem = len(flat)
            total = sum(len(t) for t, _ in flat) + 1
            n_files = max(4 if not ctx.thorough else 1, -(-total // 2_000_000))
            bad, _ = lib.run_cases(ctx.work, "sem", header, SEM_TYPE, "bad", [t for t, _ in flat],
                                   shard=max(1, -(-len(flat) // n_files)))
            for i in bad[:6]:
                ctx.corr_break("semantics", flat[i][1], "Model/JsonSchemaSem.validates disagrees",
                               "verdict of the jsonschema package differs")
            _cleanup(ctx, "sem", bool(bad))
            n_sem_total += n_sem
            del flat, header
        t0 = _tick(ctx, "coq semantics correspondence", t0)
        if batch_no == 0:
            for (name, mm, _a), r in list(zip(models, results))[:2]:
                ctx.sample({"model": name, "classes": [c.name for c in mm.classes],
                            "schema_definitions": sorted(json.loads(r["schema_text"])["definitions"])
                            if r.get("schema_text") else None})
        del entries, metas, results, gen_cases, gen_inputs, sem_jobs, struct_jobs, sem_models
    ctx.count("generator", n_gen_total, nontrivial_keys=gen_keys, validated=n_gen_total)
    ctx.count("semantics", n_sem_total, validated=n_sem_total)
    ctx.count("documents", stats["valid_docs"] + stats["constraint_mutants"] + stats["structural_mutants"],
              nontrivial_keys=nontrivial, validated=stats["valid_docs"], **stats,
              mutant_kinds=kinds, meta_model_features=features)
    under = []
    if stats["valid_docs"] < 20:
        under.append("valid documents")
    if not want11 and stats["constraint_mutants"] < 20:
        under.append("constraint mutants")
    if under:
        ctx.coverage["under_exercised"] = under
        raise lib.HarnessError(f"stream under-exercised: {under}; stats={stats}")


