"""Adapter: run the real front end (parse + intermediate translate) in-process.

JSON stdin -> JSON stdout. Run with the interpreter of the repository under test
(``lib.impl_call("frontend.py", payload)`` or ``/venv/bin/python frontend.py < in.json``).

Input: ``{"models": [text, ...], "view": true}`` (or just a list of texts).
Output: a list, one entry per model, each one of

* ``{"status": "ok", "view": {...}}`` - the model was accepted,
* ``{"status": "rejected", "stage": "syntax" | "imports" | "parse" | "translate",
  "error": text}`` - a regular rejection with the message the CLI would print,
* ``{"status": "crash", "stage": ..., "exception": class name, "message": ...,
  "traceback": tail}`` - an exception escaped the front end.

The steps are those of ``aas_core_codegen.run.load_model`` without the cache.
"""
import io
import json
import sys
import traceback


def _type_str(anno):
    return str(anno)


def _doc_present(desc):
    return desc is not None


def _view(symbol_table):
    from aas_core_codegen import intermediate
    from aas_core_codegen.intermediate import construction

    def stmt(s):
        if isinstance(s, construction.AssignArgument):
            default = None
            if s.default is not None:
                default = type(s.default).__name__
            return {"kind": "assign", "name": s.name, "argument": s.argument, "default": default}
        if isinstance(s, construction.CallSuperConstructor):
            return {"kind": "super", "super_name": s.super_name}
        return {"kind": type(s).__name__}

    def arg(a):
        default = None
        if a.default is not None:
            if isinstance(a.default, intermediate.DefaultPrimitive):
                default = {"kind": "primitive", "value": a.default.value}
            else:
                default = {"kind": type(a.default).__name__}
        return {"name": a.name, "type": _type_str(a.type_annotation), "default": default,
                "has_default": a.default is not None}

    def invariants(t):
        return [
            {"description": inv.description, "specified_for": inv.specified_for.name}
            for inv in t.invariants
        ]

    our_types = []
    for t in symbol_table.our_types:
        if isinstance(t, intermediate.Enumeration):
            our_types.append({
                "kind": "enumeration", "name": t.name,
                "literals": [{"name": l.name, "value": l.value,
                              "has_description": l.description is not None} for l in t.literals],
                "has_description": t.description is not None,
            })
        elif isinstance(t, intermediate.ConstrainedPrimitive):
            our_types.append({
                "kind": "constrained_primitive", "name": t.name,
                "constrainee": t.constrainee.value,
                "inheritances": [x.name for x in t.inheritances],
                "ancestors": [x.name for x in t.ancestors],
                "descendants": [x.name for x in t.descendants],
                "invariants": invariants(t),
                "is_implementation_specific": t.is_implementation_specific,
                "has_description": t.description is not None,
            })
        else:
            kind = "abstract_class" if isinstance(t, intermediate.AbstractClass) else "concrete_class"
            methods = []
            for m in t.methods:
                methods.append({
                    "name": m.name,
                    "kind": type(m).__name__,
                    "specified_for": m.specified_for.name,
                    "arguments": [arg(a) for a in m.arguments],
                    "returns": None if m.returns is None else _type_str(m.returns),
                    "non_mutating": m.non_mutating,
                })
            iface = None
            if t.interface is not None:
                iface = {
                    "name": t.interface.name,
                    "inheritances": [i.name for i in t.interface.inheritances],
                    "implementers": [c.name for c in t.interface.implementers],
                    "properties": [p.name for p in t.interface.properties],
                    "signatures": [s.name for s in t.interface.signatures],
                }
            our_types.append({
                "kind": kind, "name": t.name,
                "inheritances": [x.name for x in t.inheritances],
                "ancestors": [x.name for x in t.ancestors],
                "descendants": [x.name for x in t.descendants],
                "concrete_descendants": [x.name for x in t.concrete_descendants],
                "properties": [
                    {"name": p.name, "type": _type_str(p.type_annotation),
                     "specified_for": p.specified_for.name,
                     "has_description": p.description is not None}
                    for p in t.properties
                ],
                "invariants": invariants(t),
                "methods": methods,
                "constructor": {
                    "arguments": [arg(a) for a in t.constructor.arguments],
                    "is_implementation_specific": t.constructor.is_implementation_specific,
                    "statements": [stmt(s) for s in t.constructor.statements],
                    "inlined_statements": [stmt(s) for s in t.constructor.inlined_statements],
                },
                "interface": iface,
                "has_interface": t.interface is not None,
                "with_model_type": t.serialization.with_model_type,
                "is_implementation_specific": t.is_implementation_specific,
                "has_description": t.description is not None,
            })

    constants = []
    for c in symbol_table.constants:
        if isinstance(c, intermediate.ConstantPrimitive):
            value = c.value
            if isinstance(value, (bytes, bytearray)):
                value = {"hex": bytes(value).hex()}
            constants.append({"kind": "primitive", "name": c.name, "a_type": c.a_type.value,
                              "value": value, "has_description": c.description is not None})
        elif isinstance(c, intermediate.ConstantSetOfPrimitives):
            constants.append({"kind": "set_of_primitives", "name": c.name, "a_type": c.a_type.value,
                              "literals": [l.value for l in c.literals],
                              "subsets": [s.name for s in c.subsets],
                              "has_description": c.description is not None})
        elif isinstance(c, intermediate.ConstantSetOfEnumerationLiterals):
            constants.append({"kind": "set_of_enumeration_literals", "name": c.name,
                              "enumeration": c.enumeration.name,
                              "literals": [l.name for l in c.literals],
                              "subsets": [s.name for s in c.subsets],
                              "has_description": c.description is not None})
        else:
            constants.append({"kind": type(c).__name__, "name": c.name})

    functions = []
    for f in symbol_table.verification_functions:
        if isinstance(f, intermediate.PatternVerification):
            kind = "pattern"
        elif isinstance(f, intermediate.TranspilableVerification):
            kind = "transpilable"
        elif isinstance(f, intermediate.ImplementationSpecificVerification):
            kind = "implementation_specific"
        else:
            kind = type(f).__name__
        functions.append({
            "kind": kind, "name": f.name,
            "arguments": [arg(a) for a in f.arguments],
            "returns": None if f.returns is None else _type_str(f.returns),
            "pattern": getattr(f, "pattern", None),
            "has_description": f.description is not None,
        })

    return {
        "our_types": our_types,
        "constants": constants,
        "verification_functions": functions,
        "topological_order": [t.name for t in symbol_table.our_types_topologically_sorted],
        "version": symbol_table.meta_model.version,
        "xml_namespace": symbol_table.meta_model.xml_namespace,
        "has_description": symbol_table.meta_model.description is not None,
    }


def load(text):
    """(symbol table, atok, None) or (None, None, result dict)."""
    from aas_core_codegen import parse, intermediate, run
    from aas_core_codegen.common import LinenoColumner

    stage = "syntax"
    try:
        atok, parse_exception = parse.source_to_atok(source=text)
        if parse_exception is not None:
            if isinstance(parse_exception, SyntaxError):
                msg = f"Failed to parse the meta-model: invalid syntax at line {parse_exception.lineno}"
            else:
                msg = f"Failed to parse the meta-model: {parse_exception}"
            return None, None, {"status": "rejected", "stage": stage, "error": msg}
        stage = "imports"
        import_errors = parse.check_expected_imports(atok=atok)
        if import_errors:
            w = io.StringIO()
            run.write_error_report(message="One or more unexpected imports in the meta-model",
                                   errors=import_errors, stderr=w)
            return None, None, {"status": "rejected", "stage": stage, "error": w.getvalue()}
        lineno_columner = LinenoColumner(atok=atok)
        stage = "parse"
        parsed, error = parse.atok_to_symbol_table(atok=atok)
        if error is not None:
            w = io.StringIO()
            run.write_error_report(message="Failed to construct the symbol table",
                                   errors=[lineno_columner.error_message(error)], stderr=w)
            return None, None, {"status": "rejected", "stage": stage, "error": w.getvalue()}
        stage = "translate"
        ir, error = intermediate.translate(parsed_symbol_table=parsed, atok=atok)
        if error is not None:
            w = io.StringIO()
            run.write_error_report(
                message="Failed to translate the parsed symbol table to intermediate symbol table",
                errors=[lineno_columner.error_message(error)], stderr=w)
            return None, None, {"status": "rejected", "stage": stage, "error": w.getvalue()}
        return ir, atok, None
    except BaseException as exc:  # noqa
        if isinstance(exc, KeyboardInterrupt):
            raise
        tb = traceback.format_exc()
        return None, None, {"status": "crash", "stage": stage, "exception": type(exc).__name__,
                            "message": str(exc)[:2000], "traceback": tb[-3000:]}


def main():
    payload = json.load(sys.stdin)
    if isinstance(payload, list):
        payload = {"models": payload}
    want_view = payload.get("view", True)
    out = []
    for text in payload["models"]:
        ir, _atok, failure = load(text)
        if failure is not None:
            out.append(failure)
            continue
        entry = {"status": "ok"}
        if want_view:
            try:
                entry["view"] = _view(ir)
            except BaseException as exc:  # noqa
                entry = {"status": "crash", "stage": "view", "exception": type(exc).__name__,
                         "message": str(exc)[:2000], "traceback": traceback.format_exc()[-3000:]}
        out.append(entry)
    json.dump(out, sys.stdout)


if __name__ == "__main__":
    main()
