"""Adapter: run yielding.linear.linearize_to_subroutines of the tree under test.

stdin : JSON list of flows. A flow is a list of nodes:
          ["C", code] | ["Y"] | ["T", cond, body, or_else|null] | ["F", cond, body, or_else|null]
          | ["R", init|null, cond, iteration, body] | ["W", cond, body]
        An if-node with an EMPTY body is built by emptying the body list after the
        constructor ran (outside the class contract; exercises the len(body)==0 branch).
stdout: JSON list, per flow
          {"flow": <flow as stored in the constructed nodes>, "ok": [[stmt,...],...]}
        | {"flow": ..., "exc": <exception class name>}
        | {"ctor_exc": <exception class name>}          (node construction raised)
        stmt = {"k": "C|I|J|Y|N", "label": int|null, + "code" | "cond","t","f" | "target" | "comment"}
With argv[1] == "cpp": additionally "cpp": text of cpp.yielding.generate_execute_body.
"""
import json
import sys

from aas_core_codegen.yielding import flow as yf
from aas_core_codegen.yielding import linear as yl

WANT_CPP = len(sys.argv) > 1 and sys.argv[1] == "cpp"


def build_seq(seq):
    return [build(n) for n in seq]


def build(n):
    k = n[0]
    if k == "C":
        return yf.Command(n[1])
    if k == "Y":
        return yf.Yield()
    if k in ("T", "F"):
        cls = yf.IfTrue if k == "T" else yf.IfFalse
        body = build_seq(n[2])
        or_else = None if n[3] is None else build_seq(n[3])
        if len(body) == 0:
            body = [yf.Yield()]
            node = cls(n[1], body, or_else)
            body.clear()
            return node
        return cls(n[1], body, or_else)
    if k == "R":
        return yf.For(condition=n[2], iteration=n[3], body=build_seq(n[4]), init=n[1])
    if k == "W":
        return yf.While(n[1], build_seq(n[2]))
    raise ValueError(k)


def export_seq(seq):
    return [export(n) for n in seq]


def export(n):
    if isinstance(n, yf.Command):
        return ["C", str(n.code)]
    if isinstance(n, yf.Yield):
        return ["Y"]
    if isinstance(n, (yf.IfTrue, yf.IfFalse)):
        return ["T" if isinstance(n, yf.IfTrue) else "F", str(n.condition), export_seq(n.body),
                None if n.or_else is None else export_seq(n.or_else)]
    if isinstance(n, yf.For):
        return ["R", None if n.init is None else str(n.init), str(n.condition),
                str(n.iteration), export_seq(n.body)]
    if isinstance(n, yf.While):
        return ["W", str(n.condition), export_seq(n.body)]
    raise ValueError(type(n).__name__)


def export_stmt(s):
    d = {"label": s.label}
    if isinstance(s, yl.Command):
        d.update(k="C", code=str(s.code))
    elif isinstance(s, yl.If):
        d.update(k="I", cond=str(s.condition), t=s.on_true, f=s.on_false)
    elif isinstance(s, yl.Jump):
        d.update(k="J", target=s.target)
    elif isinstance(s, yl.Yield):
        d.update(k="Y")
    elif isinstance(s, yl.Noop):
        d.update(k="N", comment=None if s.comment is None else str(s.comment))
    else:
        d.update(k="?" + type(s).__name__)
    return d


out = []
for spec in json.load(sys.stdin):
    try:
        flow = build_seq(spec)
    except BaseException as e:  # noqa
        out.append({"ctor_exc": type(e).__name__})
        continue
    res = {"flow": export_seq(flow)}
    try:
        subs = yl.linearize_to_subroutines(flow)
        res["ok"] = [[export_stmt(s) for s in sub] for sub in subs]
    except BaseException as e:  # noqa
        res["exc"] = type(e).__name__
    if WANT_CPP:
        try:
            from aas_core_codegen.cpp import yielding as cy
            from aas_core_codegen.common import Identifier
            res["cpp"] = str(cy.generate_execute_body(build_seq(spec), Identifier("state_")))
        except BaseException as e:  # noqa
            res["cpp_exc"] = type(e).__name__
    out.append(res)
json.dump(out, sys.stdout)
