(** Python evaluation of invariant expressions ([Model/Tree.v]) on instances.
    Executable definitions only, no proofs (shared by C07, C08).

    Values follow Python: [None], [bool], [int], [float] (dyadic q/8, see Tree.v), [str],
    [bytes], [list], [set] (constant sets of the meta-model), enumeration literals, objects
    (with an explicit identity [oid], because [==] on plain objects is identity), and — since
    names of functions and enumeration classes are ordinary Python names — function and class
    values. Every Python exception that such an expression can raise is explicit:

      NoneDeref  an operation failed because its operand is [None] (attribute access, call,
                 index, [len], iteration, [in], ordering comparison, arithmetic). In Python
                 these are AttributeError/TypeError mentioning 'NoneType'.
      TypeErr    any other TypeError (unorderable kinds, [len] of an int, not callable, ...)
      AttrErr    AttributeError on a non-None value
      IndexErr   list/str/bytes index out of range
      NameErr    unbound name
      ValueErr   e.g. [300 in b"..."]
      Malformed  trees that the parser cannot produce (empty [And]/[Or])
      OutOfFuel  model artefact: a [range] longer than the fuel

    Verification functions and methods are given by the environment as deterministic oracles
    ([fn_impl], [meth_impl]); side-effecting methods are outside the model (the code itself
    notes that it ignores them).

    [py_str] (used by f-strings) is exact for str/int/bool/None; for the other kinds it yields
    a fixed marker text: only the *kind* of a [JoinedStr] value is meaningful there. *)
From Coq Require Import List NArith ZArith Bool.
From Coq Require Strings.String.
Import Coq.Strings.String.StringSyntax.
From Acg Require Import Base.Str Model.Tree.
Import ListNotations.
Open Scope Z_scope.

Inductive value : Type :=
| VNone
| VBool (b : bool)
| VInt (z : Z)
| VFloat (q : Z)
| VStr (s : text)
| VBytes (b : list N)
| VList (vs : list value)
| VSet (vs : list value)
| VEnum (ename lit : text)
| VObj (oid : nat) (cls : text) (fields : list (text * value))
| VFun (name : text)
| VType (name : text).

Inductive exn : Type :=
| NoneDeref | TypeErr | AttrErr | IndexErr | NameErr | ValueErr | Malformed | OutOfFuel.

Inductive pyresult : Type :=
| Val (v : value)
| Raise (x : exn).

Inductive lres : Type :=
| LVal (vs : list value)
| LRaise (x : exn).

Record env : Type := mkEnv {
  vars : list (text * value);
  fn_impl : text -> list value -> pyresult;
  meth_impl : text -> list (text * value) -> text -> list value -> pyresult;
  enum_lits : text -> list text
}.

Definition bind_var (x : text) (v : value) (r : env) : env :=
  mkEnv ((x, v) :: vars r) (fn_impl r) (meth_impl r) (enum_lits r).

Definition exn_eqb (a b : exn) : bool :=
  match a, b with
  | NoneDeref, NoneDeref | TypeErr, TypeErr | AttrErr, AttrErr | IndexErr, IndexErr
  | NameErr, NameErr | ValueErr, ValueErr | Malformed, Malformed | OutOfFuel, OutOfFuel => true
  | _, _ => false
  end.

(** ** Truthiness, equality, ordering *)

Definition truthy (v : value) : bool :=
  match v with
  | VNone => false
  | VBool b => b
  | VInt z => negb (z =? 0)
  | VFloat q => negb (q =? 0)
  | VStr s => match s with [] => false | _ => true end
  | VBytes b => match b with [] => false | _ => true end
  | VList vs | VSet vs => match vs with [] => false | _ => true end
  | VEnum _ _ | VObj _ _ _ | VFun _ | VType _ => true
  end.

(** Numbers scaled by 8 ([bool] is a number in Python). *)
Definition num8 (v : value) : option Z :=
  match v with
  | VBool b => Some (if b then 8 else 0)
  | VInt z => Some (8 * z)
  | VFloat q => Some q
  | _ => None
  end.

Fixpoint py_eq (a b : value) {struct a} : bool :=
  match num8 a, num8 b with
  | Some x, Some y => x =? y
  | _, _ =>
    match a, b with
    | VNone, VNone => true
    | VStr s, VStr t => text_eqb s t
    | VBytes s, VBytes t => text_eqb s t
    | VList xs, VList ys =>
        (fix go (l : list value) (r : list value) : bool :=
           match l, r with
           | [], [] => true
           | x :: l', y :: r' => py_eq x y && go l' r'
           | _, _ => false
           end) xs ys
    | VSet xs, VSet ys =>
        (* equal as sets; constant sets have distinct elements *)
        Nat.eqb (length xs) (length ys) &&
        (fix all_in (l : list value) : bool :=
           match l with
           | [] => true
           | x :: l' => existsb (fun y => py_eq x y) ys && all_in l'
           end) xs
    | VEnum e l, VEnum e' l' => text_eqb e e' && text_eqb l l'
    | VObj i _ _, VObj j _ _ => Nat.eqb i j
    | VFun f, VFun g => text_eqb f g
    | VType f, VType g => text_eqb f g
    | _, _ => false
    end
  end.

Fixpoint seq_cmp (a b : list N) : comparison :=
  match a, b with
  | [], [] => Datatypes.Eq
  | [], _ :: _ => Datatypes.Lt
  | _ :: _, [] => Datatypes.Gt
  | x :: a', y :: b' =>
      match N.compare x y with Datatypes.Eq => seq_cmp a' b' | c => c end
  end.

Definition op_of_cmp (op : cmpop) (c : comparison) : bool :=
  match op, c with
  | Lt, Datatypes.Lt => true
  | Le, Datatypes.Lt | Le, Datatypes.Eq => true
  | Gt, Datatypes.Gt => true
  | Ge, Datatypes.Gt | Ge, Datatypes.Eq => true
  | _, _ => false
  end.

Definition is_none (v : value) : bool := match v with VNone => true | _ => false end.

(** Ordering comparison [a op b] for [op] one of <, <=, >, >=. *)
Fixpoint py_order (op : cmpop) (a b : value) {struct a} : pyresult :=
  match num8 a, num8 b with
  | Some x, Some y => Val (VBool (op_of_cmp op (Z.compare x y)))
  | _, _ =>
    match a, b with
    | VStr s, VStr t => Val (VBool (op_of_cmp op (seq_cmp s t)))
    | VBytes s, VBytes t => Val (VBool (op_of_cmp op (seq_cmp s t)))
    | VList xs, VList ys =>
        (fix go (l : list value) (r : list value) : pyresult :=
           match l, r with
           | x :: l', y :: r' =>
               if py_eq x y then go l' r'
               else match py_order op x y with
                    | Val (VBool c) => Val (VBool c)
                    | Val _ => Raise TypeErr             (* does not happen *)
                    | Raise NoneDeref => Raise TypeErr   (* the operand of [op] is the list *)
                    | Raise ex => Raise ex
                    end
           | _, _ => Val (VBool (op_of_cmp op (Nat.compare (length l) (length r))))
           end) xs ys
    | _, _ => if is_none a || is_none b then Raise NoneDeref else Raise TypeErr
    end
  end.

Definition py_compare (op : cmpop) (a b : value) : pyresult :=
  match op with
  | Eq => Val (VBool (py_eq a b))
  | Ne => Val (VBool (negb (py_eq a b)))
  | _ => py_order op a b
  end.

(** ** len, in, index, arithmetic, str *)

Definition py_len (args : list value) : pyresult :=
  match args with
  | [VStr s] => Val (VInt (zlen s))
  | [VBytes s] => Val (VInt (zlen s))
  | [VList vs] => Val (VInt (zlen vs))
  | [VSet vs] => Val (VInt (zlen vs))
  | [VNone] => Raise NoneDeref
  | _ => Raise TypeErr
  end.

Fixpoint is_infix (p t : text) : bool :=
  starts_with p t || match t with [] => false | _ :: t' => is_infix p t' end.

Definition py_in (m c : value) : pyresult :=
  match c with
  | VList vs => Val (VBool (existsb (fun y => py_eq m y) vs))
  | VSet vs =>
      match m with
      | VList _ | VSet _ => Raise TypeErr            (* unhashable *)
      | _ => Val (VBool (existsb (fun y => py_eq m y) vs))
      end
  | VStr t =>
      match m with
      | VStr p => Val (VBool (is_infix p t))
      | VNone => Raise NoneDeref
      | _ => Raise TypeErr
      end
  | VBytes t =>
      match m with
      | VBytes p => Val (VBool (is_infix p t))
      | VInt z => if (0 <=? z) && (z <? 256) then Val (VBool (memN (Z.to_N z) t))
                  else Raise ValueErr
      | VBool b => Val (VBool (memN (if b then 1%N else 0%N) t))
      | VNone => Raise NoneDeref
      | _ => Raise TypeErr
      end
  | VNone => Raise NoneDeref
  | _ => Raise TypeErr
  end.

Definition int_of (v : value) : option Z :=
  match v with VInt z => Some z | VBool b => Some (if b then 1 else 0) | _ => None end.

Fixpoint nth_opt {A} (l : list A) (n : nat) : option A :=
  match l, n with
  | [], _ => None
  | x :: _, O => Some x
  | _ :: r, S n' => nth_opt r n'
  end.

(** Python index with negative indices; no [Z.to_nat] of data: walk the list. *)
Fixpoint nth_z {A} (l : list A) (i : Z) : option A :=
  match l with
  | [] => None
  | x :: r => if i =? 0 then Some x else nth_z r (i - 1)
  end.

Definition py_nth {A} (l : list A) (i : Z) : option A :=
  if i <? 0 then (if zlen l + i <? 0 then None else nth_z l (zlen l + i))
  else nth_z l i.

Definition py_index (c i : value) : pyresult :=
  match c with
  | VNone => Raise NoneDeref
  | VList vs =>
      match int_of i with
      | Some z => match py_nth vs z with Some v => Val v | None => Raise IndexErr end
      | None => if is_none i then Raise NoneDeref else Raise TypeErr
      end
  | VStr s =>
      match int_of i with
      | Some z => match py_nth s z with Some ch => Val (VStr [ch]) | None => Raise IndexErr end
      | None => if is_none i then Raise NoneDeref else Raise TypeErr
      end
  | VBytes s =>
      match int_of i with
      | Some z => match py_nth s z with Some b => Val (VInt (Z.of_N b)) | None => Raise IndexErr end
      | None => if is_none i then Raise NoneDeref else Raise TypeErr
      end
  | _ => Raise TypeErr
  end.

Definition py_arith (add : bool) (a b : value) : pyresult :=
  match a, b with
  | VFloat _, _ | _, VFloat _ =>
      match num8 a, num8 b with
      | Some x, Some y => Val (VFloat (if add then x + y else x - y))
      | _, _ => if is_none a || is_none b then Raise NoneDeref else Raise TypeErr
      end
  | _, _ =>
      match int_of a, int_of b with
      | Some x, Some y => Val (VInt (if add then x + y else x - y))
      | _, _ =>
          match a, b with
          | VStr s, VStr t => if add then Val (VStr (s ++ t)) else Raise TypeErr
          | VBytes s, VBytes t => if add then Val (VBytes (s ++ t)) else Raise TypeErr
          | VList s, VList t => if add then Val (VList (s ++ t)) else Raise TypeErr
          | _, _ => if is_none a || is_none b then Raise NoneDeref else Raise TypeErr
          end
      end
  end.

(** Decimal digits of a non-negative number; [fuel] bounds the number of digits, and the
    callers pass the bit-size of the number, which is always enough. *)
Fixpoint digits_pos (fuel : nat) (z : Z) (acc : text) : text :=
  match fuel with
  | O => acc
  | S f =>
      let d := Z.to_N (48 + z mod 10) in
      if z <? 10 then d :: acc else digits_pos f (z / 10) (d :: acc)
  end.

Definition z_digits (z : Z) : text :=
  let a := Z.abs z in
  let ds := digits_pos (S (Z.to_nat (Z.log2 a))) a [] in
  if z <? 0 then 45%N :: ds else ds.

Definition py_str (v : value) : text :=
  match v with
  | VStr s => s
  | VInt z => z_digits z
  | VBool true => s2l "True"
  | VBool false => s2l "False"
  | VNone => s2l "None"
  | VFloat _ => s2l "<float>"
  | VBytes _ => s2l "<bytes>"
  | VList _ => s2l "<list>"
  | VSet _ => s2l "<set>"
  | VEnum _ _ => s2l "<enum>"
  | VObj _ _ _ => s2l "<object>"
  | VFun _ => s2l "<function>"
  | VType _ => s2l "<class>"
  end.

(** ** Sequencing of results *)

(** [a and b and ...]: the first falsy value, else the last value. *)
Fixpoint and_results (rs : list pyresult) : pyresult :=
  match rs with
  | [] => Raise Malformed
  | r :: rest =>
      match r with
      | Raise x => Raise x
      | Val v =>
          match rest with
          | [] => Val v
          | _ :: _ => if truthy v then and_results rest else Val v
          end
      end
  end.

(** [a or b or ...]: the first truthy value, else the last value. *)
Fixpoint or_results (rs : list pyresult) : pyresult :=
  match rs with
  | [] => Raise Malformed
  | r :: rest =>
      match r with
      | Raise x => Raise x
      | Val v =>
          match rest with
          | [] => Val v
          | _ :: _ => if truthy v then Val v else or_results rest
          end
      end
  end.

(** Arguments, left to right: the first exception wins. *)
Fixpoint args_results (rs : list pyresult) : lres :=
  match rs with
  | [] => LVal []
  | Raise x :: _ => LRaise x
  | Val v :: rest =>
      match args_results rest with
      | LVal vs => LVal (v :: vs)
      | LRaise x => LRaise x
      end
  end.

(** [all(c for ...)] / [any(c for ...)] over the per-item results of the condition. *)
Fixpoint all_results (rs : list pyresult) : pyresult :=
  match rs with
  | [] => Val (VBool true)
  | Raise x :: _ => Raise x
  | Val v :: rest => if truthy v then all_results rest else Val (VBool false)
  end.

Fixpoint any_results (rs : list pyresult) : pyresult :=
  match rs with
  | [] => Val (VBool false)
  | Raise x :: _ => Raise x
  | Val v :: rest => if truthy v then Val (VBool true) else any_results rest
  end.

(** Items that Python iterates over. *)
Definition iter_items (v : value) : option (list value) :=
  match v with
  | VList vs | VSet vs => Some vs
  | VStr s => Some (map (fun ch => VStr [ch]) s)
  | VBytes s => Some (map (fun b => VInt (Z.of_N b)) s)
  | _ => None
  end.

(** [range(a, b)] as a list, at most [fuel] items ([None]: longer than the fuel). *)
Fixpoint range_items (fuel : nat) (a b : Z) : option (list value) :=
  if b <=? a then Some []
  else match fuel with
       | O => None
       | S f => match range_items f (a + 1) b with
                | Some l => Some (VInt a :: l)
                | None => None
                end
       end.

Definition join_results (rs : list pyresult) : pyresult :=
  match args_results rs with
  | LVal vs => Val (VStr (flat_map py_str vs))
  | LRaise x => Raise x
  end.

(** The items a generator runs over, from the results of its sub-expressions (evaluated in
    the enclosing scope, left to right). *)
Definition gen_items (fuel : nat) (g : gen pyresult) : list value + exn :=
  match g with
  | ForEach ri =>
      match ri with
      | Raise ex => inr ex
      | Val vi => match iter_items vi with
                  | Some l => inl l
                  | None => inr (if is_none vi then NoneDeref else TypeErr)
                  end
      end
  | ForRange ra rb =>
      match ra with
      | Raise ex => inr ex
      | Val va =>
          match rb with
          | Raise ex => inr ex
          | Val vb =>
              match int_of va, int_of vb with
              | Some za, Some zb =>
                  match range_items fuel za zb with
                  | Some l => inl l
                  | None => inr OutOfFuel
                  end
              | _, _ => inr (if is_none va || is_none vb then NoneDeref else TypeErr)
              end
          end
      end
  end.

(** ** Evaluation *)

Fixpoint eval (r : env) (e : expr) (fuel : nat) {struct e} : pyresult :=
  match e with
  | Name x =>
      match lookup x (vars r) with Some v => Val v | None => Raise NameErr end
  | Constant c =>
      Val (match c with CBool b => VBool b | CInt z => VInt z | CFloat q => VFloat q
                   | CStr s => VStr s end)
  | Member i n =>
      match eval r i fuel with
      | Raise x => Raise x
      | Val VNone => Raise NoneDeref
      | Val (VObj _ _ fs) =>
          match lookup n fs with Some v => Val v | None => Raise AttrErr end
      | Val (VType en) =>
          if mem_text n (enum_lits r en) then Val (VEnum en n) else Raise AttrErr
      | Val (VEnum en _) =>
          (* CPython >= 3.11: the members of an enumeration are reachable from a member *)
          if mem_text n (enum_lits r en) then Val (VEnum en n) else Raise AttrErr
      | Val _ => Raise AttrErr
      end
  | Index c i =>
      match eval r c fuel with
      | Raise x => Raise x
      | Val vc => match eval r i fuel with
                  | Raise x => Raise x
                  | Val vi => py_index vc vi
                  end
      end
  | Comparison op a b =>
      match eval r a fuel with
      | Raise x => Raise x
      | Val va => match eval r b fuel with
                  | Raise x => Raise x
                  | Val vb => py_compare op va vb
                  end
      end
  | IsIn m c =>
      match eval r m fuel with
      | Raise x => Raise x
      | Val vm => match eval r c fuel with
                  | Raise x => Raise x
                  | Val vc => py_in vm vc
                  end
      end
  | IsNone v =>
      match eval r v fuel with
      | Raise x => Raise x
      | Val w => Val (VBool (is_none w))
      end
  | IsNotNone v =>
      match eval r v fuel with
      | Raise x => Raise x
      | Val w => Val (VBool (negb (is_none w)))
      end
  | Not a =>
      match eval r a fuel with
      | Raise x => Raise x
      | Val w => Val (VBool (negb (truthy w)))
      end
  | And vs => and_results (map (fun v => eval r v fuel) vs)
  | Or vs => or_results (map (fun v => eval r v fuel) vs)
  | Implication a c =>
      (* [not a or c] *)
      match eval r a fuel with
      | Raise x => Raise x
      | Val va => if truthy va then eval r c fuel else Val (VBool true)
      end
  | FunctionCall f args =>
      match lookup f (vars r) with
      | None => Raise NameErr
      | Some fv =>
          match args_results (map (fun a => eval r a fuel) args) with
          | LRaise x => Raise x
          | LVal vs =>
              match fv with
              | VFun g => if text_eqb g (s2l "len") then py_len vs else fn_impl r g vs
              | VNone => Raise NoneDeref
              | _ => Raise TypeErr
              end
          end
      end
  | MethodCall i m args =>
      match eval r i fuel with
      | Raise x => Raise x
      | Val VNone => Raise NoneDeref
      | Val (VObj _ cls fs) =>
          match args_results (map (fun a => eval r a fuel) args) with
          | LRaise x => Raise x
          | LVal vs =>
              match lookup m fs with
              | Some VNone => Raise NoneDeref     (* a property, not a method: not callable *)
              | Some _ => Raise TypeErr
              | None => meth_impl r cls fs m vs
              end
          end
      | Val _ => Raise AttrErr
      end
  | Add a b =>
      match eval r a fuel with
      | Raise x => Raise x
      | Val va => match eval r b fuel with
                  | Raise x => Raise x
                  | Val vb => py_arith true va vb
                  end
      end
  | Sub a b =>
      match eval r a fuel with
      | Raise x => Raise x
      | Val va => match eval r b fuel with
                  | Raise x => Raise x
                  | Val vb => py_arith false va vb
                  end
      end
  | Any x g c =>
      match gen_items fuel (match g with
                            | ForEach i => ForEach (eval r i fuel)
                            | ForRange a b => ForRange (eval r a fuel) (eval r b fuel)
                            end) with
      | inr ex => Raise ex
      | inl items => any_results (map (fun it => eval (bind_var x it r) c fuel) items)
      end
  | All x g c =>
      match gen_items fuel (match g with
                            | ForEach i => ForEach (eval r i fuel)
                            | ForRange a b => ForRange (eval r a fuel) (eval r b fuel)
                            end) with
      | inr ex => Raise ex
      | inl items => all_results (map (fun it => eval (bind_var x it r) c fuel) items)
      end
  | JoinedStr ps =>
      join_results (map (fun p => match p with
                                  | JLit s => Val (VStr s)
                                  | JFmt a => eval r a fuel
                                  end) ps)
  end.

(** Structural equality of values and results (for comparing observed results). *)
Fixpoint value_eqb (a b : value) {struct a} : bool :=
  match a, b with
  | VNone, VNone => true
  | VBool x, VBool y => Bool.eqb x y
  | VInt x, VInt y | VFloat x, VFloat y => Z.eqb x y
  | VStr x, VStr y | VBytes x, VBytes y => text_eqb x y
  | VList x, VList y | VSet x, VSet y =>
      (fix go (l r : list value) : bool :=
         match l, r with
         | [], [] => true
         | u :: l', w :: r' => value_eqb u w && go l' r'
         | _, _ => false
         end) x y
  | VEnum e l, VEnum e' l' => text_eqb e e' && text_eqb l l'
  | VObj i c fs, VObj j d gs =>
      Nat.eqb i j && text_eqb c d &&
      (fix go (l r : list (text * value)) : bool :=
         match l, r with
         | [], [] => true
         | (n, u) :: l', (m, w) :: r' => text_eqb n m && value_eqb u w && go l' r'
         | _, _ => false
         end) fs gs
  | VFun f, VFun g | VType f, VType g => text_eqb f g
  | _, _ => false
  end.

Definition result_eqb (a b : pyresult) : bool :=
  match a, b with
  | Val x, Val y => value_eqb x y
  | Raise x, Raise y => exn_eqb x y
  | _, _ => false
  end.
