(** The part of the invariant expression language ([parse/tree.py]) that the schema
    constraint matchers of [infer_for_schema] look at (C15).

    Everything the matchers never inspect (method calls, [any]/[all], indexing,
    arithmetic, f-strings, non-integer constants ...) is the opaque node [EOther] /
    [EConstOther]. Models of [infer_for_schema/match.py]. Executable definitions only. *)
From Coq Require Import List NArith ZArith Bool.
From Acg Require Import Base.Str.
Import ListNotations.

Inductive cmp : Type := Lt | Le | Eq | Gt | Ge | Ne.

Inductive expr : Type :=
| EName (id : text)
| EMember (inst : expr) (name : text)
| EInt (z : Z)                       (* [Constant] whose value is a Python int *)
| EConstOther                        (* [Constant] with a str / float value *)
| ECmp (op : cmp) (l r : expr)
| EIsIn (m c : expr)
| EIsNone (e : expr)
| EIsNotNone (e : expr)
| ENot (e : expr)
| EAnd (vs : list expr)
| EOr (vs : list expr)
| EImpl (a c : expr)
| ECall (fn : text) (args : list expr)
| EOther.

Definition self_id : text := [115; 101; 108; 102]%N.   (* "self" *)
Definition len_id : text := [108; 101; 110]%N.          (* "len" *)

(** [match.try_property]: [self.<name>]. *)
Definition try_property (e : expr) : option text :=
  match e with
  | EMember (EName s) n => if text_eqb s self_id then Some n else None
  | _ => None
  end.

Definition is_member_or_name (e : expr) : bool :=
  match e with EName _ | EMember _ _ => true | _ => false end.

(** [match.try_single_arg_function_on_member_or_name]. *)
Definition try_single_arg_fn (e : expr) : option (text * expr) :=
  match e with
  | ECall f [a] => if is_member_or_name a then Some (f, a) else None
  | _ => None
  end.

(** [match.try_conditional_on_prop]: [not (self.p is not None) or C] (parsed as an
    implication) or [self.p is None or C]; gives [(p, C)]. *)
Definition try_conditional_on_prop (e : expr) : option (text * expr) :=
  match e with
  | EImpl (EIsNotNone v) c =>
      match try_property v with Some p => Some (p, c) | None => None end
  | EOr [EIsNone v; c] =>
      match try_property v with Some p => Some (p, c) | None => None end
  | _ => None
  end.

(** Association lists with Python-dict behaviour (insertion order, update in place). *)
Fixpoint alookup {V} (k : text) (l : list (text * V)) : option V :=
  match l with
  | [] => None
  | (k', v) :: r => if text_eqb k k' then Some v else alookup k r
  end.

Fixpoint aset {V} (k : text) (v : V) (l : list (text * V)) : list (text * V) :=
  match l with
  | [] => [(k, v)]
  | (k', v') :: r => if text_eqb k k' then (k, v) :: r else (k', v') :: aset k v r
  end.
