"""C25 — Snippet directory is loaded exactly (specific_implementations.read_from_directory)."""
from __future__ import annotations

import os
import re
import shutil

from harness import lib
from harness.lib import coq_bool, coq_bytes, coq_list, coq_pair, coq_text

META = {
    "title": "Snippet directory is loaded exactly",
    "design_ref": "§4 C25",
    "level_text": (
        "Coq theorems for all directory listings, all decoders and all white-space tables "
        "over a Gallina model of read_from_directory: success iff every non-hidden regular "
        "file has a valid key and decodes; mapping = {relative POSIX path -> stripped "
        "content}; hidden files, files below hidden directories and directories are ignored; "
        "a failing run names exactly the offending files; never a crash; the boolean key "
        "test decides the language of the key pattern. The pattern string, the constants of "
        "the function and the interpreter's white-space table are regenerated on every run; "
        "the model is tied to the code by a correspondence stream on materialised directory "
        "trees evaluated inside Coq, and the property is run directly on "
        "read_from_directory and on main.execute."
    ),
    "level_note": (
        "Trusted: the model agrees with the code beyond the sampled trees; pathlib glob/"
        "sorted as modelled by the listing + component-wise sort; the strict UTF-8 decoder "
        "and universal-newline translation of the model (corresponded). Outside the model: "
        "unreadable files, dangling symbolic links, FIFOs, file names that are not UTF-8."
    ),
    "technique": "Coq proof (loop = per-entry specification; sort is a rearrangement) + "
                 "in-Coq correspondence check on real directory trees",
}
GEN = ["GenSnippets", "GenPyWhitespace"]
MODEL = ["Model/Snippets", "Gen/GenSnippets", "Gen/GenPyWhitespace"]
TRUSTED = [
    "Model/Snippets.v is a hand-written model of read_from_directory (correspondence-checked)",
    "harness/translate/snippets.py (pattern string, glob pattern, prefix, encoding via Python's "
    "ast; white-space table queried from the interpreter that runs the code)",
    "pathlib: glob('**/*') lists every file and directory below the root; sorted() orders "
    "PosixPath component-wise (validated by the error-order comparison)",
]
RULE = ("case = a directory tree materialised on disk, the snippets directory itself addressed "
        "in 8 rotating ways (absolute; below hidden directories; relative with '.', '..', as '.') (nesting <= 5; names with dots, dashes, "
        "blanks, non-ASCII, leading digits, leading dots at every level; contents empty, "
        "blank-only, BOM, CRLF, CR, invalid UTF-8 of five kinds, non-ASCII white-space); "
        "non-trivial = the tree has a hidden component above a file, or an invalid key, or "
        "undecodable content, or at least two loaded snippets; distinct by tree")

HEADER = """From Coq Require Import List NArith ZArith Bool.
From Acg Require Import Base.Str Base.Outcome Model.Snippets Gen.GenPyWhitespace.
Import ListNotations.
Open Scope N_scope.
Definition res := outcome (list (text * text)) (list snippet_error).
Definition res_eqb (a b : res) : bool :=
  match a, b with
  | Ok m, Ok m' => list_eqb kv_eqb (sort_kv m) (sort_kv m')
  | Err e, Err e' => list_eqb err_eqb e e'
  | Crash _, Crash _ => true
  | _, _ => false
  end.
Definition case_ok (c : list entry * res * list (text * bool)) : bool :=
  match c with
  | (l, impl, keys) =>
      res_eqb (read_dir py_whitespace py_decode l) impl
      && forallb (fun kb => Bool.eqb (valid_key (fst kb)) (snd kb)) keys
  end.
Fixpoint bad_from (i : nat) (cs : list (list entry * res * list (text * bool))) : list nat :=
  match cs with
  | [] => []
  | c :: r => if case_ok c then bad_from (S i) r else i :: bad_from (S i) r
  end.
Definition bad := bad_from 0.
"""
CASE_TYPE = "list entry * res * list (text * bool)"

NAMES = ["a", "b.py", "Some_class", "x1", "_u", "UPPER", "a.b.c", "x.", "Foo.cs", "body.txt",
         "1x", "with space", "da-sh", "é", "名", "x é", "a,b", "a+b", "~bak", "x\ty",
         ".hidden", ".git", "..double", ".a.b", "._", ".é"]
CONTENTS = [b"", b"x", b"  text \n", b"\xef\xbb\xbfBOM", b"a\r\nb\r\n", b"a\rb", b" \n\t", b"\x0b x \x1c",
            "é😀".encode(), b"x\xc2\xa0", " y　".encode(), b"\r\n x \r", b"line1\n\nline2\n\n",
            b"\xff\xfe", b"\xed\xa0\x80", b"\xc0\x80", b"\xf4\x90\x80\x80", b"ab\xe2\x82", b"\x80"]
SEG_RE = re.compile(r"[a-zA-Z_][a-zA-Z_0-9.]*\Z")     # the property's "valid snippet key", per segment


def gen_tree(rng, depth=0, clean=False):
    """-> list of (name, None | bytes | list) ; a list is a sub-directory."""
    out = []
    used = set()
    n = rng.choice([0, 1, 2, 2, 3, 4]) if depth else rng.choice([1, 2, 3, 4, 5])
    for _ in range(n):
        pool = NAMES[:10] + NAMES[20:] if clean else NAMES
        name = rng.choice(pool)
        if name in used:
            continue
        used.add(name)
        if depth < 5 and rng.random() < 0.4:
            out.append((name, gen_tree(rng, depth + 1, clean)))
        else:
            out.append((name, rng.choice(CONTENTS[:13] if clean else CONTENTS)))
    return out


def flatten(tree, prefix=()):
    """-> list of (components, is_dir, bytes) for every entry below the root."""
    out = []
    for name, val in tree:
        p = prefix + (name,)
        if isinstance(val, list):
            out.append((p, True, b""))
            out += flatten(val, p)
        else:
            out.append((p, False, val))
    return out


def materialise(root, entries):
    os.makedirs(root)
    for comps, is_dir, data in entries:
        path = os.path.join(root, *comps)
        if is_dir:
            os.makedirs(path, exist_ok=True)
        else:
            os.makedirs(os.path.dirname(path), exist_ok=True)
            with open(path, "wb") as f:
                f.write(data)


def expected(entries):
    """The property statement, computed independently of the model."""
    mapping, bad_key, bad_dec = {}, [], []
    for comps, is_dir, data in entries:
        if is_dir or any(c.startswith(".") for c in comps):
            continue
        rel = "/".join(comps)
        if not all(SEG_RE.match(c) for c in comps):
            bad_key.append(rel)
            continue
        try:
            text = data.decode("utf-8")
        except UnicodeDecodeError:
            bad_dec.append(rel)
            continue
        mapping[rel] = text.replace("\r\n", "\n").replace("\r", "\n").strip()
    return mapping, bad_key, bad_dec


def oracle(entries, res, root):
    """-> list of (key, detail)."""
    mapping, bad_key, bad_dec = expected(entries)
    hidden_files = {"/".join(c) for c, d, _ in entries if not d and any(x.startswith(".") for x in c)}
    fails = []
    if "exc" in res:
        return [(f"exception-{res['exc']}", res)]
    if "err" in res:
        named = [p for _, p in res["err"]]
        if any(p in hidden_files for p in named):
            fails.append(("file-below-hidden-directory-not-ignored",
                          {"named": [p for p in named if p in hidden_files]}))
        elif not (bad_key or bad_dec):
            fails.append(("errors-for-a-loadable-tree", res))
        else:
            want = sorted(bad_key + bad_dec)
            if sorted(named) != want or any(k == "other" for k, _ in res["err"]):
                fails.append(("errors-do-not-name-exactly-the-offending-files",
                              {"expected": want, "reported": res["err"]}))
    else:
        got = {k: v for k, v in res["ok"]}
        if any(k in hidden_files for k in got):
            fails.append(("file-below-hidden-directory-not-ignored",
                          {"loaded": [k for k in got if k in hidden_files]}))
        elif bad_key or bad_dec:
            fails.append(("offending-file-not-reported", {"expected": sorted(bad_key + bad_dec)}))
        elif got != mapping:
            dotted = any(c.startswith(".") for c in root["style"].split(" ")[0].split("/")) \
                or "." in (root["path"] or "").split("/") or ".." in (root["path"] or "").split("/")
            if not got and mapping and dotted:
                fails.append(("files-skipped-when-the-snippets-dir-path-has-a-dot-component",
                              {"snippets_dir": root["style"], "expected": mapping, "loaded": got}))
            else:
                fails.append(("mapping-differs", {"expected": mapping, "loaded": got,
                                                  "snippets_dir": root["style"]}))
    cli = res.get("cli")
    if cli is not None:
        if "exc" in cli:
            fails.append((f"cli-exception-{cli['exc']}", cli))
        else:
            failed = "err" in res
            head = "Failed to resolve the implementation-specific snippets:\n"
            is_snip = cli["stderr"].startswith(head)
            if cli["rc"] == 0 or cli["stderr"] == "" or failed != is_snip:
                fails.append(("cli-status-does-not-follow-the-loader", cli))
            elif failed:
                bullets = [ln for ln in cli["stderr"][len(head):].split("\n* ")]
                for _, p in res["err"]:
                    if not any(p.split("\n")[0] in b for b in bullets):
                        fails.append(("cli-report-does-not-name-the-file", {"file": p, "stderr": cli["stderr"]}))
                        break
    return fails


def coq_entry(comps, is_dir, data):
    return (f"mk_entry {coq_list(coq_text(c) for c in comps)} {coq_bool(is_dir)} {coq_bytes(data)}")


def coq_res(res):
    if "exc" in res:
        return "(Crash ValueError)"
    if "err" in res:
        items = []
        for kind, p in res["err"]:
            ctor = "KeyErr" if kind == "key" else "DecodeErr"
            items.append(f"{ctor} {coq_list(coq_text(c) for c in p.split('/'))}")
        return "(Err " + coq_list(items) + ")"
    return "(Ok " + coq_list(coq_pair(coq_text(k), coq_text(v)) for k, v in res["ok"]) + ")"


CORPUS = [
    [(".git", [("config", b"x")]), ("A", [("b.cs", b" x ")])],
    [("A", [(".hid", [("deep", [("f.txt", b"\xff")])])]), ("ok", b"v")],
    [("with space", b""), ("ok", b"\xc0\x80")],
    [(".gitignore", b"\xff"), ("a", [])],
    [("a", [("b", [("c", [("d", [("e", [("f.x", b"\xef\xbb\xbf t \r\n")])])])])])],
    [("x", b"a\r\nb\r"), ("é", b""), ("da-sh", [("in", b"")])],
    [],
]
KEYS = ["", "a", "a/b", "a//b", "/a", "a/", "1a", "a.b/c_d.e", "a b", "é", "a\n", "a/1", "_", ".a",
        "a/.b", "A.Z/0", "a-b", "a.", "a/b/c/d/e/f"]


def shrink_tree(tree, failing):
    """Remove entries while the same failure persists."""
    cur = tree
    changed = True
    rounds = 0
    while changed and rounds < 12:
        changed = False
        rounds += 1
        cands = []

        def variants(t):
            for i in range(len(t)):
                yield t[:i] + t[i + 1:]
                name, val = t[i]
                if isinstance(val, list):
                    for sub in variants(val):
                        yield t[:i] + [(name, sub)] + t[i + 1:]
        cands = list(variants(cur))[:60]
        if not cands:
            break
        verdicts = failing(cands)
        for c, v in zip(cands, verdicts):
            if v:
                cur = c
                changed = True
                break
    return cur


# How the snippets directory itself is addressed: (sub-path below the tree's scratch
# directory, working directory below it or None, path handed to the code relative to
# that working directory or None = the absolute path). The model works on paths relative
# to the snippets directory, so the expectation never depends on the style.
ROOT_STYLES = [
    ("snippets", None, None),                       # plain absolute path
    (".hidden/dir/snippets", None, None),           # absolute, below a hidden directory
    ("a/.b/c", None, None),                         # absolute, hidden component in the middle
    ("snippets", "cwd", "../snippets"),             # relative with '..'
    ("snippets", "", "./snippets"),                 # relative with '.'
    ("snippets", "", "snippets"),                   # plain relative
    (".config/project/snippets", ".config", "project/../project/snippets"),
    ("deep/snippets", "deep/snippets", "."),        # the directory itself as '.'
]


def run_trees(ctx, trees, tag, cli=True, keys=(), styles=None):
    base = ctx.work / f"trees-{tag}"
    if base.exists():
        shutil.rmtree(base)
    roots = []
    flat = []
    for i, t in enumerate(trees):
        sub, cwd, rel = ROOT_STYLES[(styles[i] if styles else i) % len(ROOT_STYLES)]
        top = base / f"t{i}"
        root = top / sub
        os.makedirs(root.parent, exist_ok=True)
        entries = flatten(t)
        materialise(str(root), entries)
        aux = top / "aux"
        os.makedirs(aux)
        if cwd is not None:
            os.makedirs(top / cwd, exist_ok=True)
        roots.append({"path": rel if rel is not None else str(root),
                      "cwd": None if cwd is None else str(top / cwd), "aux": str(aux),
                      "style": f"{sub} cwd={cwd} given={rel}"})
        flat.append(entries)
    ans = lib.impl_call("snippets.py", {"roots": roots, "cli": cli, "keys": list(keys)}, timeout=1500)
    shutil.rmtree(base, ignore_errors=True)
    return flat, ans, roots


def streams(ctx: lib.Ctx) -> None:
    trees = list(CORPUS)
    for k in range(ctx.n(250, 5000)):
        trees.append(gen_tree(ctx.rng, clean=(k % 3 == 0)))
    keys = list(KEYS)
    alpha = "aZ_09./ é-\n"
    for _ in range(ctx.n(300, 3000)):
        keys.append("".join(ctx.rng.choice(alpha) for _ in range(ctx.rng.randrange(0, 7))))
    flat, ans, roots = run_trees(ctx, trees, "main", cli=True, keys=keys)

    coq_cases = []
    nontrivial = []
    first_fail = {}
    shares = {"ok": 0, "err": 0, "exc": 0}
    for i, (tree, entries, res, root) in enumerate(zip(trees, flat, ans["trees"], roots)):
        shares["exc" if "exc" in res else "err" if "err" in res else "ok"] += 1
        for key, detail in oracle(entries, res, root):
            if key not in first_fail or len(entries) < len(flatten(first_fail[key][0])):
                first_fail[key] = (tree, detail, i % len(ROOT_STYLES))
        kcases = []
        if i == 0:
            kcases = [coq_pair(coq_text(k), coq_bool(b)) for k, b in zip(keys, ans["keys"])]
        coq_cases.append(coq_pair(coq_list(coq_entry(*e) for e in entries), coq_res(res),
                                  coq_list(kcases)))
        hidden_above = any(not d and any(x.startswith(".") for x in c[:-1]) for c, d, _ in entries)
        if hidden_above or "err" in res or len(res.get("ok", [])) >= 2:
            nontrivial.append(repr(tree))
    # key regex: the property's per-segment reading vs the real fullmatch
    for k, b in zip(keys, ans["keys"]):
        want = all(SEG_RE.match(s) for s in k.split("/"))
        if want != b:
            first_fail.setdefault("key-regex-differs-from-segment-rule", ([], {"key": k, "fullmatch": b}, 0))

    bad, _log = lib.run_cases(ctx.work, "cases", HEADER, CASE_TYPE, "bad", coq_cases, shard=40)
    for i in bad[:10]:
        model = lib.coq_eval(ctx.work, "show", HEADER,
                             "read_dir py_whitespace py_decode "
                             + coq_list(coq_entry(*e) for e in flat[i]))
        ctx.corr_break("read_dir", {"tree": repr(trees[i])}, model[-1500:], ans["trees"][i])

    for n_key, (key, (tree, detail, style)) in enumerate(sorted(first_fail.items())):
        if tree and n_key < 4:
            def failing(cands, key=key, style=style):
                fl, an, rs = run_trees(ctx, cands, "shrink", cli=key.startswith("cli"),
                                       styles=[style] * len(cands))
                return [any(k == key for k, _ in oracle(e, r, ro))
                        for e, r, ro in zip(fl, an["trees"], rs)]
            tree = shrink_tree(tree, failing)
            fl, an, rs = run_trees(ctx, [tree], "shrunk", cli=True, styles=[style])
            det = next((d for k, d in oracle(fl[0], an["trees"][0], rs[0]) if k == key), detail)
        else:
            det = detail
        ctx.impl_failure(key, f"snippet directory not loaded as specified ({key})",
                         {"tree (name, bytes | [children])": repr(tree),
                          "snippets_dir (sub-path, cwd, path given)": ROOT_STYLES[style]}, det, "read_dir",
                         "materialise the tree and call aas_core_codegen.specific_implementations."
                         "read_from_directory(pathlib.Path(root)) / aas-core-codegen --snippets_dir root")

    ctx.count("read_dir", len(trees), nontrivial_keys=nontrivial, validated=len(trees), **shares,
              cli_runs=len(trees), max_nesting=5,
              root_styles=[f"{a} cwd={b} given={c}" for a, b, c in ROOT_STYLES])
    ctx.count("key_regex", len(keys), validated=len(keys),
              accepted=sum(1 for b in ans["keys"] if b))
    for t in trees[:2] + trees[10:13]:
        ctx.sample({"tree": repr(t)[:400]})
