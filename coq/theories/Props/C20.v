(** C20 — Generated source files are syntactically well-formed: docstrings, block
    comments, line comments, C# XML text.

    Theorems over the models of [Model/Comments.v], instantiated with the wrapper
    constants regenerated from the source on every run ([Gen/GenComments.v]); the
    equations between the regenerated constants and the constants of the proofs are closed
    by conversion ([eq_refl]) — on a source tree whose wrappers differ (for instance
    without the fixes C20-*.patch) this file stops compiling.

    Full statements and status:
    - [docstring_closed]          PROVED for all texts (patched code); unpatched: refuted.
    - [block_comment_closed_ts/java] PROVED for all texts (patched code, Java including the
      unicode-escape pre-pass); unpatched: refuted.
    - [line_comment_safe_cpp]     REFUTED (trailing backslash, no small safe repair); the
      partial statement "for every text whose last line does not end in a backslash followed
      by horizontal white space, the comment does not swallow the next line" and the
      statements for python/go/c# ("all texts") are NOT proved here: they are checked by the
      correspondence stream only (lexer model evaluated in Coq on every unit case).
    - [csharp_xml_wellformed]     REFUTED for texts with characters outside XML Char;
      for XML-valid texts checked by the correspondence stream only (expat + Coq lexer). *)
From Coq Require Import List NArith ZArith Bool.
From Acg Require Import Base.Str Model.Comments Proofs.CommentsDocstring Proofs.CommentsBlock
  Gen.GenComments.
Import ListNotations.
Open Scope N_scope.

Definition py_docstring (t : text) : text :=
  docstring docstring_replacements docstring_addends docstring_short_excluded_suffixes
    docstring_short docstring_long t.
Definition ts_doc (t : text) : text := wrap_lines py_linebreaks py_whitespace (mk_cfg cfg_ts_doc) t.
Definition java_doc (t : text) : text := wrap_lines py_linebreaks py_whitespace (mk_cfg cfg_java_doc) t.
Definition cpp_doc (t : text) : text := wrap_lines py_linebreaks py_whitespace (mk_cfg cfg_cpp_doc) t.

(** The emitted docstring is exactly one string token: the lexer stops at the final
    quotes and nothing is left over — for every text. *)
Theorem C20_docstring_closed : forall t, lex_py_triple (py_docstring t) = Some [].
Proof.
  exact (docstring_closed_gen docstring_replacements docstring_addends
           docstring_short_excluded_suffixes docstring_short docstring_long
           eq_refl eq_refl eq_refl eq_refl).
Qed.
Print Assumptions C20_docstring_closed.

Example C20_docstring_closed_nonvacuous :
  py_docstring [97; 34] = [34; 34; 34; 10; 97; 34; 10; 34; 34; 34]
  /\ py_docstring [92; 34; 34; 34] = [34; 34; 34; 10; 92; 92; 92; 34; 92; 34; 92; 34; 10; 34; 34; 34]
  /\ py_docstring [97; 98] = [34; 34; 34; 97; 98; 34; 34; 34].
Proof. vm_compute. repeat split; reflexivity. Qed.
Print Assumptions C20_docstring_closed_nonvacuous.

Theorem C20_docstring_closed_unpatched_refuted : exists t,
  lex_py_triple (docstring doc_repls (3, 3, 70)%Z [] (q3, q3) (q3 ++ [10], 10 :: q3) t) <> Some [].
Proof. exact docstring_unpatched_refuted. Qed.
Print Assumptions C20_docstring_closed_unpatched_refuted.

(** The first star-slash of the emitted documentation comment is its end. *)
Theorem C20_block_comment_closed_ts : forall t, lex_block_comment (ts_doc t) = Some [].
Proof. exact (ts_block_closed_gen cfg_ts_doc eq_refl py_linebreaks py_whitespace). Qed.
Print Assumptions C20_block_comment_closed_ts.

(** Java: after the unicode-escape pre-pass of JLS 3.3 (which must not fail). *)
Theorem C20_block_comment_closed_java : forall t, java_lex_block_comment (java_doc t) = Some [].
Proof. exact (java_block_closed_gen cfg_java_doc eq_refl py_linebreaks py_whitespace). Qed.
Print Assumptions C20_block_comment_closed_java.

Example C20_block_comment_nonvacuous :
  ts_doc [97; 32; 42; 47; 32; 98] = [47; 42; 42; 10; 32; 42; 32; 97; 32; 42; 92; 47; 32; 98; 10; 32; 42; 47]
  /\ java_doc [92; 117; 48; 48; 50; 97; 47; 32; 42; 47] = [47; 42; 42; 10; 32; 42; 32; 38; 35; 57; 50; 59; 117; 48; 48; 50; 97; 47; 32; 42; 38; 35; 52; 55; 59; 10; 32; 42; 47].
Proof. vm_compute. split; reflexivity. Qed.
Print Assumptions C20_block_comment_nonvacuous.

Theorem C20_block_comment_closed_unpatched_refuted : exists t,
  lex_block_comment (wrap_lines [10] [32] (bcfg []) t) <> Some [].
Proof. exact block_unpatched_refuted. Qed.
Print Assumptions C20_block_comment_closed_unpatched_refuted.

(** C++ line comments (current code, no fix): refuted. *)
Theorem C20_gen_cpp_cfg : mk_cfg cfg_cpp_doc = cpp_line_cfg.
Proof. vm_compute. reflexivity. Qed.
Print Assumptions C20_gen_cpp_cfg.

Theorem C20_line_comment_safe_cpp_refuted : exists t,
  trailing_splice (last (splitlines [10] t) []) = true /\
  strip_line_comments (M2 47 47) nl_cpp true LCode (wrap_lines [10] [32] cpp_line_cfg t ++ [10; 88])
  <> [10; 88].
Proof. exact cpp_line_comment_refuted. Qed.
Print Assumptions C20_line_comment_safe_cpp_refuted.

Example C20_line_comment_cpp_spliced_inside_is_harmless :
  strip_line_comments (M2 47 47) nl_cpp true LCode
    (wrap_lines [10] [32] cpp_line_cfg [97; 92; 10; 98] ++ [10; 88]) = [10; 88].
Proof. exact cpp_line_comment_example. Qed.
Print Assumptions C20_line_comment_cpp_spliced_inside_is_harmless.

(** The language line terminators are all line boundaries of [str.splitlines], so no line
    handed to a [//], [///], [#:] prefix contains one (side condition on the regenerated
    table, used by the correspondence stream's reading of the lexers). *)
Theorem C20_gen_linebreaks_cover :
  forallb (fun c => memN c py_linebreaks) [10; 13; 133; 8232; 8233] = true.
Proof. vm_compute. reflexivity. Qed.
Print Assumptions C20_gen_linebreaks_cover.

(** C# XML text: the escaper does not remove characters outside XML Char. *)
Theorem C20_csharp_xml_wellformed_refuted : exists t, xml_chardata_ok (xml_escape t) = false.
Proof. exact csharp_xml_refuted. Qed.
Print Assumptions C20_csharp_xml_wellformed_refuted.

Example C20_csharp_xml_escape_example :
  xml_escape [97; 32; 93; 93; 62; 32; 38; 32; 60; 98; 62] = [97; 32; 93; 93; 38; 103; 116; 59; 32; 38; 97; 109; 112; 59; 32; 38; 108; 116; 59; 98; 38; 103; 116; 59]
  /\ xml_chardata_ok (xml_escape [97; 32; 93; 93; 62; 32; 38; 32; 60; 98; 62]) = true.
Proof. vm_compute. split; reflexivity. Qed.
Print Assumptions C20_csharp_xml_escape_example.
