(** C18 — model of [intermediate/revm.py]: [_Translator], [_linearize],
    [_relabel_in_place], [_remove_noop_in_place], [_recursively_convert_node_for_public].

    The nested [_Node]/[_Leaf] tree of the code only groups leaves for comments; every
    pass and the C++ generator work on the linearised list of leaves, so the model
    produces that list directly.

    Python exceptions are explicit ([Base/Outcome.v]):
      [Crash AssertionError]       the [raise AssertionError]/[assert] statements,
      [Crash NotImplementedError]  the anchoring check of [transform_regex],
      [Crash Violation]            icontract preconditions of [Range]/[InstructionSet],
      [Crash KeyError]             a dict lookup of [_relabel_in_place].

    Non-greedy quantifiers: [transform_regex] raises [NotImplementedError] when the
    pattern contains one (known finding, see docs/C18.md); the [AssertionError] of
    [transform_term] behind it is modelled too (unreachable through [translate]). *)
From Coq Require Import List NArith Bool Arith.
From Acg Require Import Base.Outcome Model.RevmTree.
Import ListNotations.

Inductive instr : Type :=
| IChar (c : N)
| ISet (rs : list (N * N))
| INotSet (rs : list (N * N))
| IAny
| IMatch
| IJump (t : nat)
| ISplit (t1 t2 : nat)
| IEnd.

(** raw instruction of the translation phase: a real one or the [_InstructionNoop] *)
Inductive rinstr : Type := RI (i : instr) | RNoop.
Definition leaf : Type := (rinstr * option nat)%type.

Definition res (A : Type) := outcome A unit.

Definition real (i : instr) : leaf := (RI i, None).
Definition noop_at (l : nat) : leaf := (RNoop, Some l).
Definition noop : leaf := (RNoop, None).

(** ** character sets *)
Fixpoint mk_ranges (rs : list (N * option N)) : res (list (N * N)) :=
  match rs with
  | [] => Ok []
  | (a, e) :: r =>
      let b := match e with Some b => b | None => a end in
      (* Range.__init__: @require ord(first) <= ord(last) *)
      if N.leb a b then
        match mk_ranges r with
        | Ok l => Ok ((a, b) :: l)
        | Err e => Err e
        | Crash k => Crash k
        end
      else Crash Violation
  end.

(** stable insertion sort by [first] ([ranges.sort(key=lambda rng: rng.first)]) *)
Fixpoint insert_range (x : N * N) (l : list (N * N)) : list (N * N) :=
  match l with
  | [] => [x]
  | y :: r => if N.leb (fst x) (fst y) then x :: y :: r else y :: insert_range x r
  end.
Fixpoint sort_ranges (l : list (N * N)) : list (N * N) :=
  match l with
  | [] => []
  | x :: r => insert_range x (sort_ranges r)
  end.
(* NOTE: inserting the head into the sorted tail *before* equal elements keeps the
   original relative order of equal keys (the head came first). *)

(** [check_ranges_sorted_and_non_overlapping(ranges) is None] *)
Fixpoint ranges_ok (l : list (N * N)) : bool :=
  match l with
  | [] => true
  | x :: r =>
      match r with
      | [] => true
      | y :: _ =>
          negb (N.leb (snd y) (fst x)) && negb (N.leb (fst y) (snd x)) && ranges_ok r
      end
  end.

Definition tr_set (compl : bool) (rs : list (N * option N)) : res (list leaf) :=
  match mk_ranges rs with
  | Ok l =>
      let s := sort_ranges l in
      if ranges_ok s
      then Ok [real (if compl then INotSet s else ISet s)]
      else Crash Violation
  | Err e => Err e
  | Crash k => Crash k
  end.

(** ** the translator; state = [_next_label] *)
Definition tr_sym (s : sym) : res (list leaf) :=
  match s with
  | SStart => Crash AssertionError
  | SEnd => Ok [real IEnd]
  | SDot => Ok [real IAny]
  end.

Section Loops.
  (** [body n] = translate the same sub-tree once more with the label counter [n] *)
  Variable body : nat -> res (list leaf * nat).

  (** [for _ in range(k): children.append(self.transform(node.value))] *)
  Fixpoint tr_copies (k : nat) (n : nat) : res (list leaf * nat) :=
    match k with
    | O => Ok ([], n)
    | S k' =>
        match body n with
        | Ok (c, n1) =>
            match tr_copies k' n1 with
            | Ok (cs, n2) => Ok (c ++ cs, n2)
            | Err e => Err e
            | Crash x => Crash x
            end
        | Err e => Err e
        | Crash x => Crash x
        end
    end.

  (** the [optional_count] loop: [split l1, final; l1: noop; body] *)
  Fixpoint tr_optionals (k : nat) (final : nat) (n : nat) : res (list leaf * nat) :=
    match k with
    | O => Ok ([], n)
    | S k' =>
        let l1 := n in
        match body (S n) with
        | Ok (c, n1) =>
            match tr_optionals k' final n1 with
            | Ok (cs, n2) => Ok (real (ISplit l1 final) :: noop_at l1 :: c ++ cs, n2)
            | Err e => Err e
            | Crash x => Crash x
            end
        | Err e => Err e
        | Crash x => Crash x
        end
    end.

  Definition tr_quant (q : quant) (n : nat) : res (list leaf * nat) :=
    if q_ng q then Crash AssertionError else
    if Nat.eqb (q_min q) 1 && match q_max q with Some 1 => true | _ => false end
    then body n
    else
      match q_max q with
      | Some mx =>
          match tr_copies (q_min q) n with
          | Ok (c1, n1) =>
              let optional_count := mx - q_min q in
              match optional_count with
              | O => Ok (c1, n1)
              | S _ =>
                  let final := n1 in
                  match tr_optionals optional_count final (S n1) with
                  | Ok (c2, n2) => Ok (c1 ++ c2 ++ [noop_at final], n2)
                  | Err e => Err e
                  | Crash x => Crash x
                  end
              end
          | Err e => Err e
          | Crash x => Crash x
          end
      | None =>
          match q_min q with
          | O =>
              let l1 := n in
              let l2 := S n in
              let final := S (S n) in
              match body (S (S (S n))) with
              | Ok (c, n1) =>
                  Ok ((RI (ISplit l2 final), Some l1) :: noop_at l2 :: c
                        ++ [real (IJump l1); noop_at final], n1)
              | Err e => Err e
              | Crash x => Crash x
              end
          | S m =>
              match tr_copies m n with
              | Ok (c1, n1) =>
                  let l1 := n1 in
                  let final := S n1 in
                  match body (S (S n1)) with
                  | Ok (c, n2) =>
                      Ok (c1 ++ noop_at l1 :: c ++ [real (ISplit l1 final); noop_at final], n2)
                  | Err e => Err e
                  | Crash x => Crash x
                  end
              | Err e => Err e
              | Crash x => Crash x
              end
          end
      end.
End Loops.

Fixpoint tr_value (v : value) (n : nat) {struct v} : res (list leaf * nat) :=
  match v with
  | VSym s => match tr_sym s with Ok c => Ok (c, n) | Err e => Err e | Crash k => Crash k end
  | VChar c => Ok ([real (IChar c)], n)
  | VSet compl rs =>
      match tr_set compl rs with Ok c => Ok (c, n) | Err e => Err e | Crash k => Crash k end
  | VGroup u => tr_union u n
  end
with tr_term (t : term) (n : nat) {struct t} : res (list leaf * nat) :=
  match t with
  | Term v None => tr_value v n
  | Term v (Some q) => tr_quant (tr_value v) q n
  end
with tr_concat_all (c : concat) (n : nat) {struct c} : res (list leaf * nat) :=
  (* [self.transform(concatenant) for concatenant in node.concatenants] *)
  match c with
  | CNil => Ok ([], n)
  | CCons t c' =>
      match tr_term t n with
      | Ok (l1, n1) =>
          match tr_concat_all c' n1 with
          | Ok (l2, n2) => Ok (l1 ++ l2, n2)
          | Err e => Err e
          | Crash k => Crash k
          end
      | Err e => Err e
      | Crash k => Crash k
      end
  end
with tr_concat (c : concat) (n : nat) {struct c} : res (list leaf * nat) :=
  match c with
  | CNil => Ok ([noop], n)
  | CCons t CNil => tr_term t n
  | CCons t c' =>
      match tr_term t n with
      | Ok (l1, n1) =>
          match tr_concat_all c' n1 with
          | Ok (l2, n2) => Ok (l1 ++ l2, n2)
          | Err e => Err e
          | Crash k => Crash k
          end
      | Err e => Err e
      | Crash k => Crash k
      end
  end
with tr_uniates (u : union) (final : nat) (n : nat) {struct u} : res (list leaf * nat) :=
  (* the [for i, uniate in enumerate(node.uniates)] loop *)
  match u with
  | UNil => Ok ([], n)
  | UCons c UNil =>
      match tr_concat c n with
      | Ok (l, n1) => Ok (l ++ [noop_at final], n1)
      | Err e => Err e
      | Crash k => Crash k
      end
  | UCons c u' =>
      let l0 := n in
      let l1 := S n in
      match tr_concat c (S (S n)) with
      | Ok (l, n1) =>
          match tr_uniates u' final n1 with
          | Ok (ls, n2) =>
              Ok (real (ISplit l0 l1) :: noop_at l0 :: l
                    ++ real (IJump final) :: noop_at l1 :: ls, n2)
          | Err e => Err e
          | Crash k => Crash k
          end
      | Err e => Err e
      | Crash k => Crash k
      end
  end
with tr_union (u : union) (n : nat) {struct u} : res (list leaf * nat) :=
  match u with
  | UNil => Ok ([noop], n)
  | UCons c UNil => tr_concat c n
  | UCons c u' =>
      (* [final_label = self._obtain_label()] then the loop over all uniates *)
      let final := n in
      let l0 := S n in
      let l1 := S (S n) in
      match tr_concat c (S (S (S n))) with
      | Ok (l, n1) =>
          match tr_uniates u' final n1 with
          | Ok (ls, n2) =>
              Ok (real (ISplit l0 l1) :: noop_at l0 :: l
                    ++ real (IJump final) :: noop_at l1 :: ls, n2)
          | Err e => Err e
          | Crash k => Crash k
          end
      | Err e => Err e
      | Crash k => Crash k
      end
  end.

(** ** [transform_regex] *)
Definition is_sym (s : sym) (t : term) : bool :=
  match t with
  | Term (VSym x) _ =>
      match s, x with
      | SStart, SStart | SEnd, SEnd | SDot, SDot => true
      | _, _ => false
      end
  | _ => false
  end.

Definition is_dot_star (t : term) : bool :=
  match t with
  | Term (VSym SDot) (Some q) =>
      Nat.eqb (q_min q) 0 && match q_max q with None => true | Some _ => false end
  | _ => false
  end.

Fixpoint tr_terms (ts : list term) (n : nat) : res (list leaf * nat) :=
  match ts with
  | [] => Ok ([], n)
  | t :: r =>
      match tr_term t n with
      | Ok (l1, n1) =>
          match tr_terms r n1 with
          | Ok (l2, n2) => Ok (l1 ++ l2, n2)
          | Err e => Err e
          | Crash k => Crash k
          end
      | Err e => Err e
      | Crash k => Crash k
      end
  end.

(** Python slices [xs[1:]] and [xs[1:-2]] *)
Definition drop_last2 {A} (l : list A) : list A := firstn (length l - 2) l.

(** the anchoring test shared by the front end
    ([intermediate._translate._verify_patterns_anchored_at_start_and_end]) and
    [transform_regex]: exactly one uniate, first term [^], last term [$] *)
Definition anchored (r : regex) : bool :=
  match r with
  | UCons c UNil =>
      match terms_of c with
      | [] => false
      | t :: _ => is_sym SStart t && is_sym SEnd (last (terms_of c) t)
      end
  | _ => false
  end.

Definition body_terms (r : regex) : list term :=
  match r with
  | UCons c _ =>
      let ts := terms_of c in
      let n := length ts in
      if Nat.leb 2 n && is_dot_star (nth (n - 2) ts (Term (VSym SEnd) None))
      then drop_last2 (tl ts)
      else tl ts
  | UNil => []
  end.

(** [_CheckForNonGreedyQuantifiers] (visits the whole regex, anchors included) *)
Fixpoint ng_v (v : value) : bool :=
  match v with
  | VGroup u => ng_u u
  | _ => false
  end
with ng_t (t : term) : bool :=
  match t with
  | Term v None => ng_v v
  | Term v (Some q) => q_ng q || ng_v v
  end
with ng_c (c : concat) : bool :=
  match c with CNil => false | CCons t c' => ng_t t || ng_c c' end
with ng_u (u : union) : bool :=
  match u with UNil => false | UCons c u' => ng_c c || ng_u u' end.

Definition greedy (r : regex) : bool := negb (ng_u r).

Definition tr_regex (r : regex) : res (list leaf) :=
  if anchored r then
    if ng_u r then Crash NotImplementedError else
    match tr_terms (body_terms r) 0 with
    | Ok (l, _) => Ok (l ++ [real IMatch])
    | Err e => Err e
    | Crash k => Crash k
    end
  else Crash NotImplementedError.

(** ** [_relabel_in_place] *)
Definition is_noop (x : leaf) : bool := match fst x with RNoop => true | RI _ => false end.

(** pair every leaf with [leaf_to_index] (for a no-op: the index of the next real leaf) *)
Fixpoint index_leaves (ls : list leaf) (k : nat) : list (leaf * nat) :=
  match ls with
  | [] => []
  | x :: r => (x, k) :: index_leaves r (if is_noop x then k else S k)
  end.

(** dict as association list without duplicate keys *)
Definition dset (k v : nat) (m : list (nat * nat)) : list (nat * nat) :=
  (k, v) :: filter (fun p => negb (Nat.eqb k (fst p))) m.
Fixpoint dget (k : nat) (m : list (nat * nat)) : option nat :=
  match m with
  | [] => None
  | (k', v) :: r => if Nat.eqb k k' then Some v else dget k r
  end.

(** the reversed loop; [fold_right] visits the last leaf first.
    accumulator = ([leaf_after_noop] as its index, [old_to_new_label]) *)
Definition rl_step (x : leaf * nat) (acc : res (option nat * list (nat * nat)))
  : res (option nat * list (nat * nat)) :=
  match acc with
  | Ok (after, m) =>
      match x with
      | ((RNoop, Some l), _) =>
          match after with
          | None => Crash AssertionError
          | Some a => Ok (after, dset l a m)
          end
      | ((RNoop, None), _) => Ok (after, m)
      | ((RI _, Some l), idx) => Ok (Some idx, dset l idx m)
      | ((RI _, None), idx) => Ok (Some idx, m)
      end
  | Err e => Err e
  | Crash k => Crash k
  end.

Definition old_to_new (ils : list (leaf * nat)) : res (list (nat * nat)) :=
  match fold_right rl_step (Ok (None, [])) ils with
  | Ok (_, m) => Ok m
  | Err e => Err e
  | Crash k => Crash k
  end.

Definition lookup (m : list (nat * nat)) (l : nat) : res nat :=
  match dget l m with Some v => Ok v | None => Crash KeyError end.

Definition remap (m : list (nat * nat)) (i : instr) : res instr :=
  match i with
  | IJump t => match lookup m t with Ok t' => Ok (IJump t') | Err e => Err e | Crash k => Crash k end
  | ISplit a b =>
      match lookup m a with
      | Ok a' => match lookup m b with
                 | Ok b' => Ok (ISplit a' b')
                 | Err e => Err e
                 | Crash k => Crash k
                 end
      | Err e => Err e
      | Crash k => Crash k
      end
  | other => Ok other
  end.

(** third loop of [_relabel_in_place] *)
Fixpoint relabel_leaves (m : list (nat * nat)) (ils : list (leaf * nat)) : res (list leaf) :=
  match ils with
  | [] => Ok []
  | ((RNoop, _), _) :: r =>
      match relabel_leaves m r with
      | Ok l => Ok (noop :: l)
      | Err e => Err e
      | Crash k => Crash k
      end
  | ((RI i, _), idx) :: r =>
      match remap m i with
      | Ok i' =>
          match relabel_leaves m r with
          | Ok l =>
              let lab := if existsb (fun p => Nat.eqb (snd p) idx) m then Some idx else None in
              Ok ((RI i', lab) :: l)
          | Err e => Err e
          | Crash k => Crash k
          end
      | Err e => Err e
      | Crash k => Crash k
      end
  end.

Definition relabel (ls : list leaf) : res (list leaf) :=
  let ils := index_leaves ls 0 in
  match old_to_new ils with
  | Ok m => relabel_leaves m ils
  | Err e => Err e
  | Crash k => Crash k
  end.

(** ** [_remove_noop_in_place] + [_recursively_convert_node_for_public] *)
Fixpoint remove_noop (ls : list leaf) : res (list (instr * option nat)) :=
  match ls with
  | [] => Ok []
  | (RNoop, Some _) :: _ => Crash AssertionError
  | (RNoop, None) :: r => remove_noop r
  | (RI i, lab) :: r =>
      match remove_noop r with
      | Ok l => Ok ((i, lab) :: l)
      | Err e => Err e
      | Crash k => Crash k
      end
  end.

(** ** [translate]: the linearised public program with its labels *)
Definition translate (r : regex) : res (list (instr * option nat)) :=
  match tr_regex r with
  | Ok raw =>
      match relabel raw with
      | Ok rl => remove_noop rl
      | Err e => Err e
      | Crash k => Crash k
      end
  | Err e => Err e
  | Crash k => Crash k
  end.

Definition program (r : regex) : res (list instr) :=
  match translate r with
  | Ok l => Ok (map fst l)
  | Err e => Err e
  | Crash k => Crash k
  end.

(** ** the front end's acceptance of a parsed pattern
    ([_verify_patterns_anchored_at_start_and_end]: anchored, and exactly one start
    anchor in the whole pattern) *)
Fixpoint starts_v (v : value) : nat :=
  match v with
  | VSym SStart => 1
  | VSym _ | VChar _ | VSet _ _ => 0
  | VGroup u => starts_u u
  end
with starts_t (t : term) : nat := match t with Term v _ => starts_v v end
with starts_c (c : concat) : nat :=
  match c with CNil => 0 | CCons t c' => starts_t t + starts_c c' end
with starts_u (u : union) : nat :=
  match u with UNil => 0 | UCons c u' => starts_c c + starts_u u' end.

Definition fe_accepts (r : regex) : bool := anchored r && Nat.eqb (starts_u r) 1.

(** ** instruction equality, for the correspondence stream *)
Definition pairNN_eqb (a b : N * N) : bool := N.eqb (fst a) (fst b) && N.eqb (snd a) (snd b).
Fixpoint ranges_eqb (a b : list (N * N)) : bool :=
  match a, b with
  | [], [] => true
  | x :: r, y :: s => pairNN_eqb x y && ranges_eqb r s
  | _, _ => false
  end.
Definition instr_eqb (a b : instr) : bool :=
  match a, b with
  | IChar x, IChar y => N.eqb x y
  | ISet x, ISet y => ranges_eqb x y
  | INotSet x, INotSet y => ranges_eqb x y
  | IAny, IAny | IMatch, IMatch | IEnd, IEnd => true
  | IJump x, IJump y => Nat.eqb x y
  | ISplit a1 a2, ISplit b1 b2 => Nat.eqb a1 b1 && Nat.eqb a2 b2
  | _, _ => false
  end.
