(** Model of [aas_core_codegen/intermediate/type_inference.py]: the canonical
    representation ([_Canonicalizer]), the type inference with flow-sensitive
    None-narrowing ([_Inferrer], [infer_for_invariant]) and the call check of
    [intermediate/_translate.py] ([_ContractChecker.visit_function_call]).
    Executable definitions only, no proofs.

    [infer st S G K e]:
      [S]  symbol table (classes with their stacked properties and methods, enumerations,
           verification functions);
      [G]  the environment (name -> type): base environment of
           [populate_base_environment] + [self] + loop variables (innermost first);
      [K]  the canonical representations currently assumed non-None ([_non_null]; a
           counting map in the code, here the list of keys with repetitions);
      result [Some t] = inferred type, [None] = an error was reported ("Failed to infer the
           types in the invariant").
    [st = false] is the inference as implemented (after the None-safety fix, see
    docs/C07.md). [st = true] additionally performs the operand/argument type checks that the
    code deliberately leaves out (NOTE in [transform_function_call]); it is the exclusion
    predicate of [C07_infer_bool_partial] and is not implemented by the code.

    Not modelled: methods/functions without return type ([-> None]), [Assignment]/[Return]
    statements (verification function bodies). The one [assert] of
    [transform_function_call] (callee name that is not a function) is unreachable after the
    call check of [_translate]; the model answers [None] there. *)
From Coq Require Import List NArith ZArith Bool.
From Coq Require Strings.String.
Import Coq.Strings.String.StringSyntax.
From Acg Require Import Base.Str Model.Tree Model.PyEval.
Import ListNotations.
Open Scope Z_scope.

(** ** Types *)

Inductive prim : Type := PBool | PInt | PFloat | PStr | PBytes | PLength.

Inductive ty : Type :=
| TPrim (p : prim)
| TClass (c : text)                 (* OurTypeAnnotation of a class *)
| TEnum (e : text)                  (* OurTypeAnnotation of an enumeration *)
| TCons (n : text) (p : prim)       (* OurTypeAnnotation of a constrained primitive *)
| TList (t : ty)
| TSet (t : ty)
| TOpt (t : ty)
| TVerif (f : text)                 (* VerificationTypeAnnotation *)
| TLen                              (* BuiltinFunctionTypeAnnotation of len *)
| TMethod (c m : text)              (* MethodTypeAnnotation *)
| TEnumType (e : text).             (* EnumerationAsTypeTypeAnnotation *)

Definition prim_eqb (a b : prim) : bool :=
  match a, b with
  | PBool, PBool | PInt, PInt | PFloat, PFloat | PStr, PStr | PBytes, PBytes
  | PLength, PLength => true
  | _, _ => false
  end.

Fixpoint ty_eqb (a b : ty) : bool :=
  match a, b with
  | TPrim p, TPrim q => prim_eqb p q
  | TClass c, TClass d => text_eqb c d
  | TEnum c, TEnum d => text_eqb c d
  | TCons n p, TCons m q => text_eqb n m && prim_eqb p q
  | TList t, TList u | TSet t, TSet u | TOpt t, TOpt u => ty_eqb t u
  | TVerif f, TVerif g => text_eqb f g
  | TLen, TLen => true
  | TMethod c m, TMethod d n => text_eqb c d && text_eqb m n
  | TEnumType c, TEnumType d => text_eqb c d
  | _, _ => false
  end.

Definition is_opt (t : ty) : bool := match t with TOpt _ => true | _ => false end.

Record fsig : Type := mkSig { s_params : list ty; s_ret : ty }.

Record cls_def : Type := mkCls {
  c_props : list (text * ty);        (* stacked: inherited first *)
  c_methods : list (text * fsig);
  c_desc : list text                 (* names of all descendants *)
}.

Record symtab : Type := mkSym {
  classes : list (text * cls_def);
  enums : list (text * list text);
  verifs : list (text * fsig)
}.

Definition tenv := list (text * ty).

(** ** Canonical representation ([_Canonicalizer]) *)

Definition hex_digit (n : N) : N := if (n <? 10)%N then (48 + n)%N else (87 + n)%N.

Definition str_repr (s : text) : text :=
  let q : N := if memN 39%N s && negb (memN 34%N s) then 34%N else 39%N in
  let esc (c : N) : text :=
    if N.eqb c 92 then [92; 92]%N
    else if N.eqb c q then [92%N; q]
    else if N.eqb c 9 then [92; 116]%N
    else if N.eqb c 10 then [92; 110]%N
    else if N.eqb c 13 then [92; 114]%N
    else if (c <? 32)%N || N.eqb c 127 || ((128 <=? c)%N && (c <=? 160)%N) || N.eqb c 173
         then [92%N; 120%N; hex_digit (c / 16); hex_digit (c mod 16)]
    else [c] in
  q :: flat_map esc s ++ [q].

(** [repr] of the float q/8 (plain notation, i.e. magnitudes below 1e16). *)
Definition float_repr (q : Z) : text :=
  let a := Z.abs q in
  let ip := z_digits (a / 8) in
  let fp := match a mod 8 with
            | 0 => s2l "0" | 1 => s2l "125" | 2 => s2l "25" | 3 => s2l "375"
            | 4 => s2l "5" | 5 => s2l "625" | 6 => s2l "75" | _ => s2l "875"
            end in
  (if q <? 0 then [45%N] else []) ++ ip ++ [46%N] ++ fp.

Definition const_repr (c : const) : text :=
  match c with
  | CBool true => s2l "True"
  | CBool false => s2l "False"
  | CInt z => z_digits z
  | CFloat q => float_repr q
  | CStr s => str_repr s
  end.

Definition needs_no_brackets (e : expr) : bool :=
  match e with
  | Member _ _ | MethodCall _ _ _ | Name _ | FunctionCall _ _ | Constant _ | JoinedStr _
  | Any _ _ _ | All _ _ _ => true
  | _ => false
  end.

Definition paren (t : text) : text := [40%N] ++ t ++ [41%N].

Definition cmpop_name (op : cmpop) : text :=
  match op with
  | Lt => s2l "LT" | Le => s2l "LE" | Gt => s2l "GT" | Ge => s2l "GE"
  | Eq => s2l "EQ" | Ne => s2l "NE"
  end.

Definition ARROW : N := 8658.   (* U+21D2 *)

Fixpoint canon (e : expr) : text :=
  let br (x : expr) : text := if needs_no_brackets x then canon x else paren (canon x) in
  match e with
  | Member i n => br i ++ [46%N] ++ n
  | Name x => x
  | Constant c => const_repr c
  | Index c i => br c ++ [91%N] ++ canon i ++ [93%N]
  | Comparison op l r => br l ++ [SP] ++ cmpop_name op ++ [SP] ++ br r
  | IsIn m c => br m ++ s2l " in " ++ br c
  | IsNone v => br v ++ s2l " is None"
  | IsNotNone v => br v ++ s2l " is not None"
  | Not a => s2l "not " ++ paren (canon a)
  | And vs => join (s2l " and ") (map br vs)
  | Or vs => join (s2l " or ") (map br vs)
  | Implication a c => br a ++ [SP; ARROW; SP] ++ br c
  | FunctionCall f args => f ++ paren (join (s2l ", ") (map canon args))
  | MethodCall i m args =>
      (br i ++ [46%N] ++ m) ++ paren (join (s2l ", ") (map canon args))
  | Add l r => br l ++ s2l " + " ++ br r
  | Sub l r => br l ++ s2l " - " ++ br r
  | Any x g c =>
      s2l "any(" ++ br c ++ [SP] ++
      match g with
      | ForEach i => s2l "for " ++ x ++ s2l " in " ++ br i
      | ForRange a b =>
          s2l "for " ++ x ++ s2l " in range(" ++ canon a ++ s2l ", " ++ canon b ++ s2l ")"
      end ++ s2l ")"
  | All x g c =>
      s2l "all(" ++ br c ++ [SP] ++
      match g with
      | ForEach i => s2l "for " ++ x ++ s2l " in " ++ br i
      | ForRange a b =>
          s2l "for " ++ x ++ s2l " in range(" ++ canon a ++ s2l ", " ++ canon b ++ s2l ")"
      end ++ s2l ")"
  | JoinedStr ps =>
      flat_map (fun p => match p with
                         | JLit s => str_repr s
                         | JFmt a => [123%N] ++ canon a ++ [125%N]
                         end) ps
  end.

(** ** Inference *)

(** [_strip_optional_if_non_null] *)
Definition strip (K : list text) (e : expr) (t : ty) : ty :=
  match t with
  | TOpt u => if mem_text (canon e) K then u else t
  | _ => t
  end.

(** [try_primitive_type] *)
Definition prim_of (t : ty) : option prim :=
  match t with TPrim p => Some p | TCons _ p => Some p | _ => None end.

Definition is_intlike (t : ty) : bool :=
  match t with TPrim PInt | TPrim PLength => true | _ => false end.

Definition is_numeric (t : ty) : bool :=
  match t with TPrim PInt | TPrim PLength | TPrim PFloat => true | _ => false end.

Definition is_bool (t : ty) : bool := match t with TPrim PBool => true | _ => false end.

(** Keys that the operand of a conjunction / the antecedent of an implication adds. *)
Definition key_if_not_none (e : expr) : list text :=
  match e with IsNotNone v => [canon v] | _ => [] end.
Definition key_if_none (e : expr) : list text :=
  match e with IsNone v => [canon v] | _ => [] end.
Definition antecedent_keys (a : expr) : list text :=
  match a with
  | IsNotNone v => [canon v]
  | And vs => flat_map key_if_not_none vs
  | _ => []
  end.

(** *** The checks that the code leaves out ([st = true] only) *)

Definition num_kind (p : prim) : bool :=
  match p with PBool | PInt | PFloat | PLength => true | _ => false end.

Definition comparable (op : cmpop) (a b : ty) : bool :=
  match op with
  | Eq | Ne => true
  | _ =>
      match prim_of a, prim_of b with
      | Some p, Some q =>
          (num_kind p && num_kind q) || (prim_eqb p PStr && prim_eqb q PStr)
          || (prim_eqb p PBytes && prim_eqb q PBytes)
      | _, _ => false
      end
  end.

Definition container_ok (m c : ty) : bool :=
  match c with
  | TList _ => true
  | TSet _ => match m with TList _ | TSet _ => false | _ => true end
  | _ =>
      match prim_of c, prim_of m with
      | Some PStr, Some PStr => true
      | Some PBytes, Some PBytes => true
      | _, _ => false
      end
  end.

Definition lengthable (t : ty) : bool :=
  match t with
  | TList _ | TSet _ => true
  | _ => match prim_of t with Some PStr | Some PBytes => true | _ => false end
  end.

(** A sufficient fragment of [_assignable]. *)
Fixpoint assignable (target value : ty) : bool :=
  ty_eqb target value ||
  match target with
  | TOpt t => assignable t value || match value with TOpt v => assignable t v | _ => false end
  | TPrim p => match value with TCons _ q => prim_eqb p q | _ => false end
  | _ => false
  end.

Fixpoint args_assignable (ps : list ty) (ts : list ty) : bool :=
  match ps, ts with
  | [], [] => true
  | p :: ps', t :: ts' => assignable p t && args_assignable ps' ts'
  | _, _ => false
  end.

(** *** The None-safety check of arguments (the fix): an Optional argument only where the
    parameter is Optional. Surplus arguments/parameters are not this check's business. *)
Fixpoint args_none_ok (ps : list ty) (ts : list ty) : bool :=
  match ps, ts with
  | p :: ps', t :: ts' => (negb (is_opt t) || is_opt p) && args_none_ok ps' ts'
  | _, _ => true
  end.

Definition find_class (S : symtab) (c : text) : option cls_def := lookup c (classes S).

Fixpoint infer (st : bool) (S : symtab) (G : tenv) (K : list text) (e : expr) {struct e}
  : option ty :=
  let infer_args :=
    fix go (args : list expr) : option (list ty) :=
      match args with
      | [] => Some []
      | a :: rest =>
          match infer st S G K a, go rest with
          | Some t, Some ts => Some (t :: ts)
          | _, _ => None
          end
      end in
  match e with
  | Name x =>
      match lookup x G with Some t => Some (strip K e t) | None => None end
  | Constant c =>
      Some (TPrim (match c with CBool _ => PBool | CInt _ => PInt | CFloat _ => PFloat
                           | CStr _ => PStr end))
  | Member i n =>
      match infer st S G K i with
      | Some (TClass c) =>
          match find_class S c with
          | Some cd =>
              match lookup n (c_props cd) with
              | Some t => Some (strip K e t)
              | None =>
                  match lookup n (c_methods cd) with
                  | Some _ => if st then None else Some (TMethod c n)
                  | None => None
                  end
              end
          | None => None
          end
      | Some (TEnumType en) =>
          match lookup en (enums S) with
          | Some lits => if mem_text n lits then Some (TEnum en) else None
          | None => None
          end
      | _ => None
      end
  | Index c i =>
      match infer st S G K c, infer st S G K i with
      | Some (TList t), Some ti => if is_intlike ti then Some t else None
      | _, _ => None
      end
  | Comparison op l r =>
      match infer st S G K l, infer st S G K r with
      | Some tl, Some tr =>
          if is_opt tl || is_opt tr then None
          else if st && negb (comparable op tl tr) then None
          else Some (TPrim PBool)
      | _, _ => None
      end
  | IsIn m c =>
      match infer st S G K m, infer st S G K c with
      | Some tm, Some tc =>
          if is_opt tm || is_opt tc then None
          else if st && negb (container_ok tm tc) then None
          else Some (TPrim PBool)
      | _, _ => None
      end
  | IsNone v | IsNotNone v =>
      match infer st S G K v with
      | Some (TOpt _) => Some (TPrim PBool)
      | _ => None
      end
  | Not a =>
      match infer st S G K a with
      | Some t => if is_opt t then None else Some (TPrim PBool)
      | None => None
      end
  | And vs =>
      (fix go (K' : list text) (l : list expr) : option ty :=
         match l with
         | [] => Some (TPrim PBool)
         | v :: rest =>
             match infer st S G K' v with
             | Some t =>
                 if is_opt t then None
                 else if st && negb (is_bool t) then None
                 else go (key_if_not_none v ++ K') rest
             | None => None
             end
         end) K vs
  | Or vs =>
      (fix go (K' : list text) (l : list expr) : option ty :=
         match l with
         | [] => Some (TPrim PBool)
         | v :: rest =>
             match infer st S G K' v with
             | Some t =>
                 if is_opt t then None
                 else if st && negb (is_bool t) then None
                 else go (key_if_none v ++ K') rest
             | None => None
             end
         end) K vs
  | Implication a c =>
      match infer st S G K a with
      | Some ta =>
          if is_opt ta then None
          else
            match infer st S G (antecedent_keys a ++ K) c with
            | Some tc =>
                if is_opt tc then None      (* the fix: the consequent must not be Optional *)
                else if st && negb (is_bool tc) then None
                else Some (TPrim PBool)
            | None => None
            end
      | None => None
      end
  | FunctionCall f args =>
      match lookup f G with
      | Some tf0 =>
          match strip K (Name f) tf0, infer_args args with
          | TVerif g, Some ts =>
              match lookup g (verifs S) with
              | Some sg =>
                  if negb (args_none_ok (s_params sg) ts) then None         (* the fix *)
                  else if st && negb (args_assignable (s_params sg) ts) then None
                  else Some (strip K e (s_ret sg))
              | None => None
              end
          | TLen, Some ts =>
              if negb (Nat.eqb (length ts) 1) then None     (* exactly one argument (c7b0cf8d) *)
              else if existsb is_opt ts then None                             (* the fix *)
              else if st && negb (match ts with [t] => lengthable t | _ => false end) then None
              else Some (TPrim PLength)
          | _, _ => None
          end
      | None => None
      end
  | MethodCall i m args =>
      match infer_args args, infer st S G K i with
      | Some ts, Some (TClass c) =>
          match find_class S c with
          | Some cd =>
              match lookup m (c_props cd) with
              | Some _ => None           (* a property, not a method *)
              | None =>
                  match lookup m (c_methods cd) with
                  | Some sg =>
                      if negb (args_none_ok (s_params sg) ts) then None      (* the fix *)
                      else if st && negb (args_assignable (s_params sg) ts) then None
                      else Some (strip K e (s_ret sg))
                  | None => None
                  end
              end
          | None => None
          end
      | _, _ => None
      end
  | Add l r | Sub l r =>
      match infer st S G K l, infer st S G K r with
      | Some (TPrim p), Some (TPrim q) =>
          match p, q with
          | PFloat, PFloat => Some (TPrim PFloat)
          | PInt, PInt => Some (TPrim PInt)
          | PLength, PInt | PInt, PLength | PLength, PLength => Some (TPrim PLength)
          | _, _ => None
          end
      | _, _ => None
      end
  | Any x g c | All x g c =>
      match lookup x G with
      | Some _ => None                  (* "has been already defined before" *)
      | None =>
          match
            match g with
            | ForEach i =>
                match infer st S G K i with
                | Some (TList t) => Some t
                | _ => None
                end
            | ForRange a b =>
                match infer st S G K a, infer st S G K b with
                | Some ta, Some tb =>
                    if is_intlike ta && is_intlike tb then
                      Some (TPrim (match ta, tb with
                                   | TPrim PInt, TPrim PInt => PInt
                                   | _, _ => PLength
                                   end))
                    else None
                | _, _ => None
                end
            end
          with
          | Some tv =>
              match infer st S ((x, tv) :: G) K c with
              | Some (TPrim PBool) => Some (TPrim PBool)
              | _ => None
              end
          | None => None
          end
      end
  | JoinedStr ps =>
      (fix go (l : list (jpart expr)) : option ty :=
         match l with
         | [] => Some (TPrim PStr)
         | JLit _ :: rest => go rest
         | JFmt a :: rest =>
             match infer st S G K a with
             | Some t => if is_opt t then None else go rest
             | None => None
             end
         end) ps
  end.

(** ** The call check of [_translate] ([_ContractChecker]) *)

Fixpoint calls_ok (S : symtab) (e : expr) : bool :=
  match e with
  | Name _ | Constant _ => true
  | Member i _ | IsNone i | IsNotNone i | Not i => calls_ok S i
  | Index a b | Comparison _ a b | IsIn a b | Implication a b | Add a b | Sub a b =>
      calls_ok S a && calls_ok S b
  | And vs | Or vs => forallb (calls_ok S) vs
  | FunctionCall f args =>
      match lookup f (verifs S) with
      | Some sg => Nat.eqb (length args) (length (s_params sg)) && forallb (calls_ok S) args
      | None =>
          if text_eqb f (s2l "len")
          then Nat.eqb (length args) 1 && forallb (calls_ok S) args
          else false
      end
  | MethodCall i _ args => calls_ok S i && forallb (calls_ok S) args
  | Any _ g c | All _ g c =>
      match g with
      | ForEach i => calls_ok S i
      | ForRange a b => calls_ok S a && calls_ok S b
      end && calls_ok S c
  | JoinedStr ps =>
      forallb (fun p => match p with JLit _ => true | JFmt a => calls_ok S a end) ps
  end.

(** ** The type map of an accepted invariant, in the order of [Tree.subs] restricted to the
    nodes that the code records: every expression node in pre-order; for [FunctionCall] the
    callee name; for [MethodCall] the member (method type) before the instance; for
    [Any]/[All] the loop variable first. [None] entries mark nodes without a type. *)
Fixpoint type_trace (st : bool) (S : symtab) (G : tenv) (K : list text) (e : expr) {struct e}
  : list (option ty) :=
  infer st S G K e ::
  match e with
  | Name _ | Constant _ => []
  | Member i _ | IsNone i | IsNotNone i | Not i => type_trace st S G K i
  | Index a b | Comparison _ a b | IsIn a b | Add a b | Sub a b =>
      type_trace st S G K a ++ type_trace st S G K b
  | And vs =>
      (fix go (K' : list text) (l : list expr) : list (option ty) :=
         match l with
         | [] => []
         | v :: rest => type_trace st S G K' v ++ go (key_if_not_none v ++ K') rest
         end) K vs
  | Or vs =>
      (fix go (K' : list text) (l : list expr) : list (option ty) :=
         match l with
         | [] => []
         | v :: rest => type_trace st S G K' v ++ go (key_if_none v ++ K') rest
         end) K vs
  | Implication a c =>
      type_trace st S G K a ++ type_trace st S G (antecedent_keys a ++ K) c
  | FunctionCall f args =>
      infer st S G K (Name f) :: flat_map (type_trace st S G K) args
  | MethodCall i m args =>
      infer false S G K (Member i m) :: type_trace st S G K i
      ++ flat_map (type_trace st S G K) args
  | Any x g c | All x g c =>
      let tv :=
        match g with
        | ForEach i => match infer st S G K i with Some (TList t) => Some t | _ => None end
        | ForRange a b =>
            match infer st S G K a, infer st S G K b with
            | Some (TPrim PInt), Some (TPrim PInt) => Some (TPrim PInt)
            | Some _, Some _ => Some (TPrim PLength)
            | _, _ => None
            end
        end in
      tv ::
      match g with
      | ForEach i => type_trace st S G K i
      | ForRange a b => type_trace st S G K a ++ type_trace st S G K b
      end ++
      match tv with
      | Some t => type_trace st S ((x, t) :: G) K c
      | None => []
      end
  | JoinedStr ps =>
      flat_map (fun p => match p with JLit _ => [] | JFmt a => type_trace st S G K a end) ps
  end.

(** Canonical representations in the same order (only the positions with an expression of
    its own: callee names, method members and loop variables included). *)
Fixpoint canon_trace (e : expr) : list text :=
  canon e ::
  match e with
  | Name _ | Constant _ => []
  | Member i _ | IsNone i | IsNotNone i | Not i => canon_trace i
  | Index a b | Comparison _ a b | IsIn a b | Add a b | Sub a b | Implication a b =>
      canon_trace a ++ canon_trace b
  | And vs | Or vs => flat_map canon_trace vs
  | FunctionCall f args => f :: flat_map canon_trace args
  | MethodCall i m args =>
      canon (Member i m) :: canon_trace i ++ flat_map canon_trace args
  | Any x g c | All x g c =>
      x :: match g with
           | ForEach i => canon_trace i
           | ForRange a b => canon_trace a ++ canon_trace b
           end ++ canon_trace c
  | JoinedStr ps =>
      flat_map (fun p => match p with JLit _ => [] | JFmt a => canon_trace a end) ps
  end.

(** The verdict observed from outside: 0 = accepted, 1 = rejected by the call check of
    [_translate], 2 = "Failed to infer the types in the invariant". *)
Definition verdict (S : symtab) (G : tenv) (e : expr) : nat :=
  if negb (calls_ok S e) then 1%nat
  else match infer false S G [] e with Some _ => 0%nat | None => 2%nat end.

(** Side condition of the None-safety theorem, decidable per invariant: the operand of a
    None-test (the only source of keys of [_non_null]) shares its canonical representation
    with no other sub-expression of the invariant. *)
Definition keys_distinctb (e : expr) : bool :=
  forallb (fun a =>
             match a with
             | IsNone v | IsNotNone v =>
                 forallb (fun b => negb (text_eqb (canon v) (canon b)) || expr_eqb v b) (subs e)
             | _ => true
             end) (subs e).

(** ** Syntactic well-formedness (what the parser guarantees) and access paths.

    Identifiers are Python identifiers other than [True]/[False]; [And]/[Or] have at least
    two operands. An access path is [x], [x.a], [x.a.b], ... *)
Definition idc (c : N) : bool :=
  ((48 <=? c) && (c <=? 57))%N || ((65 <=? c) && (c <=? 90))%N
  || ((97 <=? c) && (c <=? 122))%N || N.eqb c 95.

Definition is_digit (c : N) : bool := ((48 <=? c) && (c <=? 57))%N.

Definition wf_ident (x : text) : bool :=
  match x with
  | [] => false
  | c :: _ => negb (is_digit c)
  end && forallb idc x
  && negb (text_eqb x (s2l "True")) && negb (text_eqb x (s2l "False")).

Definition two_or_more {A} (l : list A) : bool :=
  match l with _ :: _ :: _ => true | _ => false end.

Fixpoint wf_expr (e : expr) : bool :=
  match e with
  | Name x => wf_ident x
  | Constant _ => true
  | Member i n => wf_expr i && wf_ident n
  | Index a b | Comparison _ a b | IsIn a b | Implication a b | Add a b | Sub a b =>
      wf_expr a && wf_expr b
  | IsNone a | IsNotNone a | Not a => wf_expr a
  | And vs | Or vs => two_or_more vs && forallb wf_expr vs
  | FunctionCall f args => wf_ident f && forallb wf_expr args
  | MethodCall i m args => wf_expr i && wf_ident m && forallb wf_expr args
  | Any x g c | All x g c =>
      wf_ident x
      && match g with
         | ForEach i => wf_expr i
         | ForRange a b => wf_expr a && wf_expr b
         end && wf_expr c
  | JoinedStr ps =>
      forallb (fun p => match p with JLit _ => true | JFmt a => wf_expr a end) ps
  end.

Fixpoint is_path (e : expr) : bool :=
  match e with
  | Name _ => true
  | Member i _ => is_path i
  | _ => false
  end.

(** Every None-test of the invariant is on an access path. *)
Definition guard_ok (e : expr) : bool :=
  match e with
  | IsNone v | IsNotNone v => is_path v
  | _ => true
  end.

Definition guards_on_paths (root : expr) : bool :=
  forallb wf_expr (subs root) && forallb guard_ok (subs root).

(** ** Bodies of transpilable verification functions: assignments to local names and returns
    ([transform_assignment], [transform_return], [infer_for_verification]).

    A first assignment to a name that the environment chain does not know introduces the
    local with the type of the value; an assignment to a known name (argument, local,
    global) requires [_assignable target value] and leaves the recorded type unchanged.
    Every statement is inferred with an empty non-null map. *)
Inductive stmt : Type :=
| SAssign (x : text) (e : expr)
| SReturn (e : expr).

Definition stmt_expr (s : stmt) : expr := match s with SAssign _ e | SReturn e => e end.

Definition is_descendant (S : symtab) (c d : text) : bool :=
  text_eqb c d ||
  match find_class S c with Some cd => mem_text d (c_desc cd) | None => false end.

(** [_assignable] on the types that can occur as values of expressions. Constrained
    primitives of the generated meta-models all have invariants and no descendants. *)
Fixpoint assignable_real (S : symtab) (target value : ty) : bool :=
  match target with
  | TPrim p => match value with TPrim q | TCons _ q => prim_eqb p q | _ => false end
  | TClass c => match value with TClass d => is_descendant S c d | _ => false end
  | TEnum e => match value with TEnum f => text_eqb e f | _ => false end
  | TCons n p => match value with TCons m q => text_eqb n m && prim_eqb p q | _ => false end
  | TList t => match value with TList u => ty_eqb t u | _ => false end
  | TSet t => match value with TSet u => ty_eqb t u | _ => false end
  | TOpt t => match value with
              | TOpt v => assignable_real S t v
              | v => assignable_real S t v
              end
  | TVerif f => match value with TVerif g => text_eqb f g | _ => false end
  | TLen => match value with TLen => true | _ => false end
  | TMethod c m => match value with TMethod d n => text_eqb c d && text_eqb m n | _ => false end
  | TEnumType _ => false          (* NotImplementedError in the code; never generated *)
  end.

(** [Some G'] = no error was reported; [G'] = environment after the body. The code goes on
    after an erroneous statement (collecting errors); only the verdict is observed. *)
Fixpoint infer_body (st : bool) (S : symtab) (G : tenv) (body : list stmt) : option tenv :=
  match body with
  | [] => Some G
  | SAssign x e :: rest =>
      match infer st S G [] e with
      | None => None
      | Some tv =>
          match lookup x G with
          | Some tg => if assignable_real S tg tv then infer_body st S G rest else None
          | None => infer_body st S ((x, tv) :: G) rest
          end
      end
  | SReturn e :: rest =>
      match infer st S G [] e with
      | None => None
      | Some _ => infer_body st S G rest
      end
  end.

(** Type map of the expressions of the statements, in order. *)
Fixpoint body_trace (st : bool) (S : symtab) (G : tenv) (body : list stmt) : list (option ty) :=
  match body with
  | [] => []
  | SAssign x e :: rest =>
      type_trace st S G [] e ++
      match infer st S G [] e, lookup x G with
      | Some tv, None => body_trace st S ((x, tv) :: G) rest
      | _, _ => body_trace st S G rest
      end
  | SReturn e :: rest => type_trace st S G [] e ++ body_trace st S G rest
  end.

(** Python: run the statements; the value of the first [return]. *)
Fixpoint eval_body (r : env) (body : list stmt) (fuel : nat) : pyresult :=
  match body with
  | [] => Val VNone
  | SAssign x e :: rest =>
      match eval r e fuel with
      | Raise ex => Raise ex
      | Val v => eval_body (bind_var x v r) rest fuel
      end
  | SReturn e :: _ => eval r e fuel
  end.
