(** C19 — decidable side condition on the regenerated tables, discharged by computation
    over every code point 0..0x10FFFF (the bound 1114112 is part of the statement). Kept
    in a file of its own so that the sweeps of the targets compile in parallel. *)
From Coq Require Import List NArith Bool.
From Acg Require Import Base.Str Base.Outcome Model.LitCore Model.Lit Model.LexCore
  Model.LexPython Model.LexJs Model.LexJava Model.LexCpp Model.LexCsharp Model.LexGo
  Proofs.LitFacts Proofs.LitLangs Gen.GenLiteralTables.
Import ListNotations.
Open Scope N_scope.
Definition tpl_char (c : N) (nxt : option N) : bool :=
  match esc1 ts_template c nxt with
  | Ok o =>
      match run (js_step true) JBody o with
      | Some (JBody, v) => text_eqb v (utf16_cp c)
      | Some (JDollar, []) => (c =? 36) && negb (match nxt with Some 123 => true | _ => false end)
      | _ => false
      end
  | _ => false
  end.

Lemma tpl_side :
  all_below 1114112 (fun c => tpl_char c None && tpl_char c (Some 123) && tpl_char c (Some 97)) = true.
Proof. vm_compute. reflexivity. Qed.
