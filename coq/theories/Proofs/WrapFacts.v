(** Proofs about [Model/Wrap.v] (C27). *)
From Coq Require Import List NArith ZArith Bool Lia.
From Acg Require Import Base.Str Model.Wrap.
Import ListNotations.
Open Scope Z_scope.

(* ---------------------------------------------------------------------------- *)
(** * split / join *)

Lemma split_on_nonempty c t : split_on c t <> [].
Proof.
  destruct t as [|x r]; cbn; [discriminate|].
  destruct (N.eqb x c); [discriminate|].
  destruct (split_on c r); discriminate.
Qed.

Lemma join_cons2 sep a b r : join sep (a :: b :: r) = (a ++ sep ++ join sep (b :: r))%list.
Proof. reflexivity. Qed.

Lemma join_cons_ne sep a r : r <> [] -> join sep (a :: r) = (a ++ sep ++ join sep r)%list.
Proof. destruct r; [contradiction|reflexivity]. Qed.

Lemma join_split c t : join [c] (split_on c t) = t.
Proof.
  induction t as [|x r IH]; [reflexivity|].
  cbn [split_on]. destruct (N.eqb_spec x c) as [->|Hne].
  - pose proof (split_on_nonempty c r) as Hn.
    destruct (split_on c r) as [|h tl] eqn:E; [contradiction|].
    rewrite join_cons2. cbn. f_equal. exact IH.
  - pose proof (split_on_nonempty c r) as Hn.
    destruct (split_on c r) as [|h tl] eqn:E; [contradiction|].
    destruct tl as [|h2 tl2].
    + cbn in *. now rewrite IH.
    + rewrite join_cons2 in *. cbn. f_equal. exact IH.
Qed.

Lemma split_on_no_sep c t p : In p (split_on c t) -> ~ In c p.
Proof.
  revert p. induction t as [|x r IH]; intros p Hin.
  - cbn in Hin. destruct Hin as [<-|[]]. intros [].
  - cbn [split_on] in Hin. destruct (N.eqb_spec x c) as [->|Hne].
    + destruct Hin as [<-|Hin]; [intros []|]. now apply IH.
    + pose proof (split_on_nonempty c r) as Hn.
      destruct (split_on c r) as [|h tl] eqn:E; [contradiction|].
      destruct Hin as [<-|Hin].
      * intros [->|Hc]; [now apply Hne|]. apply (IH h); [now left|exact Hc].
      * apply IH. now right.
Qed.

Lemma zlen_app {A} (a b : list A) : zlen (a ++ b) = zlen a + zlen b.
Proof. unfold zlen. rewrite app_length. lia. Qed.

Lemma zlen_nil_inv {A} (a : list A) : zlen a = 0 -> a = [].
Proof. destruct a; [auto|]. unfold zlen. cbn. lia. Qed.

(* ---------------------------------------------------------------------------- *)
Section WithArticles.
  Variable a1 a2 : list text.
  Notation tokens_loop := (tokens_loop a1 a2).

  Definition opt_list (o : option text) : list text :=
    match o with Some a => [a] | None => [] end.

  Lemma tokens_loop_nil parts art :
    tokens_loop parts art = [] -> parts = [] /\ art = None.
  Proof.
    revert art. induction parts as [|p ps IH]; intros art H.
    - cbn in H. destruct art; [discriminate|auto].
    - cbn [Wrap.tokens_loop] in H. destruct art as [a|].
      + destruct (is_article2 a2 p); [discriminate|].
        destruct (is_empty p); [|discriminate].
        apply IH in H. destruct H; discriminate.
      + destruct (is_article1 a1 p); [|discriminate].
        apply IH in H. destruct H; discriminate.
  Qed.

  (** The first loop preserves the text (so [assert "".join(tokens) == text] holds). *)
  Lemma tokens_loop_join parts art :
    join [SP] (tokens_loop parts art) = join [SP] (opt_list art ++ parts).
  Proof.
    revert art. induction parts as [|p ps IH]; intros art.
    - destruct art; reflexivity.
    - cbn [Wrap.tokens_loop]. destruct art as [a|]; cbn [opt_list app].
      + destruct (is_article2 a2 p).
        * rewrite join_cons_ne.
          -- rewrite IH. reflexivity.
          -- intros H. apply tokens_loop_nil in H. destruct H; discriminate.
        * destruct p as [|c p']; cbn [is_empty].
          -- rewrite IH. cbn [opt_list app]. destruct ps as [|q qs].
             ++ cbn. reflexivity.
             ++ rewrite !join_cons2. cbn [app]. now rewrite <- !app_assoc.
          -- destruct ps as [|q qs].
             ++ cbn. reflexivity.
             ++ rewrite join_cons_ne.
                ** rewrite (IH None). cbn [opt_list app]. rewrite !join_cons2.
                   now rewrite <- !app_assoc.
                ** intros H. apply tokens_loop_nil in H. destruct H; discriminate.
      + destruct (is_article1 a1 p).
        * rewrite IH. reflexivity.
        * destruct ps as [|q qs].
          -- cbn. reflexivity.
          -- rewrite join_cons_ne.
             ++ rewrite (IH None). reflexivity.
             ++ intros H. apply tokens_loop_nil in H. destruct H; discriminate.
  Qed.

  Lemma add_spaces_concat toks : concat (add_spaces toks) = join [SP] toks.
  Proof.
    induction toks as [|t r IH]; [reflexivity|].
    destruct r as [|t2 r].
    - cbn. now rewrite app_nil_r.
    - change (add_spaces (t :: t2 :: r)) with ((t ++ [SP])%list :: add_spaces (t2 :: r)).
      cbn [concat]. rewrite IH. rewrite join_cons2. now rewrite <- app_assoc.
  Qed.

  Lemma tokens_of_concat t : concat (tokens_of a1 a2 t) = t.
  Proof.
    unfold tokens_of. rewrite add_spaces_concat, tokens_loop_join. cbn [opt_list app].
    apply join_split.
  Qed.

  (* -------------------------------------------------------------------------- *)
  (** * The segment loop *)

  Lemma segments_loop_concat w toks acc_len acc :
    acc_len = zlen acc ->
    concat (segments_loop w toks acc_len acc) = (acc ++ concat toks)%list.
  Proof.
    revert acc_len acc. induction toks as [|t r IH]; intros acc_len acc Hlen.
    - cbn. destruct (0 <? acc_len) eqn:E.
      + cbn. reflexivity.
      + apply Z.ltb_ge in E. assert (Hz : zlen acc = 0) by (unfold zlen in *; lia).
        apply zlen_nil_inv in Hz. subst acc. reflexivity.
    - cbn [segments_loop].
      destruct (w <? zlen t).
      + cbn [concat]. rewrite (IH 0 []) by reflexivity. reflexivity.
      + destruct (w <? acc_len + zlen t).
        * cbn [concat]. rewrite (IH (zlen t) t) by reflexivity. reflexivity.
        * rewrite IH by (rewrite zlen_app; lia). cbn [concat]. now rewrite app_assoc.
  Qed.

  Theorem wrap_concat w t : concat (wrap a1 a2 w t) = t.
  Proof.
    unfold wrap. destruct (split_on SP t) as [|p [|p2 ps]] eqn:E.
    - rewrite segments_loop_concat by reflexivity. apply tokens_of_concat.
    - cbn. apply app_nil_r.
    - rewrite segments_loop_concat by reflexivity. apply tokens_of_concat.
  Qed.

  (** Width: a segment either fits, or is one (over-long) token. *)
  Lemma segments_loop_width w toks acc_len acc seg :
    0 <= w -> acc_len = zlen acc -> zlen acc <= w ->
    In seg (segments_loop w toks acc_len acc) ->
    zlen seg <= w \/ (In seg toks /\ w < zlen seg).
  Proof.
    intros Hw. revert acc_len acc. induction toks as [|t r IH]; intros acc_len acc Hlen Hacc Hin.
    - cbn in Hin. destruct (0 <? acc_len); [|contradiction].
      destruct Hin as [<-|[]]. now left.
    - cbn [segments_loop] in Hin.
      destruct (w <? zlen t) eqn:E1.
      + apply Z.ltb_lt in E1. destruct Hin as [<-|[<-|Hin]].
        * now left.
        * right. split; [now left|exact E1].
        * apply (IH 0 []) in Hin; [|reflexivity|cbn; exact Hw].
          destruct Hin as [H|[H1 H2]]; [now left|right; split; [now right|exact H2]].
      + apply Z.ltb_ge in E1.
        destruct (w <? acc_len + zlen t) eqn:E2.
        * destruct Hin as [<-|Hin]; [now left|].
          apply (IH (zlen t) t) in Hin; [|reflexivity|exact E1].
          destruct Hin as [H|[H1 H2]]; [now left|right; split; [now right|exact H2]].
        * apply Z.ltb_ge in E2.
          apply IH in Hin; [| rewrite zlen_app; lia | rewrite zlen_app; lia].
          destruct Hin as [H|[H1 H2]]; [now left|right; split; [now right|exact H2]].
  Qed.

  Theorem wrap_width w t seg :
    0 <= w -> In seg (wrap a1 a2 w t) ->
    zlen seg <= w
    \/ (In seg (tokens_of a1 a2 t) /\ w < zlen seg)
    \/ (seg = t /\ ~ In SP t).
  Proof.
    intros Hw Hin. unfold wrap in Hin.
    destruct (split_on SP t) as [|p [|p2 ps]] eqn:E.
    - apply segments_loop_width in Hin; [tauto|exact Hw|reflexivity|cbn; exact Hw].
    - destruct Hin as [<-|[]]. right. right. split; [reflexivity|].
      pose proof (join_split SP t) as J. rewrite E in J. cbn in J. subst p.
      apply (split_on_no_sep SP t t). rewrite E. now left.
    - apply segments_loop_width in Hin; [tauto|exact Hw|reflexivity|cbn; exact Hw].
  Qed.

  (* -------------------------------------------------------------------------- *)
  (** * Shape of the tokens: the "single unit" a too-long segment can be *)

  Definition blanks (b : text) : Prop := Forall (fun x => x = SP) b.

  (** an article, the blanks after it, and at most one word *)
  Definition unit_tok (tok : text) : Prop :=
    (~ In SP tok)
    \/ exists a b wd, tok = (a ++ b ++ wd)%list /\ is_article1 a1 a = true
                      /\ blanks b /\ ~ In SP wd.

  Definition pending_ok (art : option text) : Prop :=
    match art with
    | None => True
    | Some x => exists a b, x = (a ++ b)%list /\ is_article1 a1 a = true /\ blanks b
    end.

  Hypothesis Hsame : forall p, is_article2 a2 p = is_article1 a1 p.

  Lemma tokens_loop_units parts art tok :
    Forall (fun p => ~ In SP p) parts -> pending_ok art ->
    In tok (tokens_loop parts art) -> unit_tok tok.
  Proof.
    revert art. induction parts as [|p ps IH]; intros art Hns Hp Hin.
    - destruct art as [x|]; [|contradiction]. destruct Hin as [<-|[]].
      destruct Hp as [a [b [-> [Ha Hb]]]]. right. exists a, b, [].
      rewrite app_nil_r. auto.
    - inversion Hns as [|? ? Hp1 Hps]; subst. cbn [Wrap.tokens_loop] in Hin.
      destruct art as [x|].
      + destruct Hp as [a [b [-> [Ha Hb]]]].
        destruct (is_article2 a2 p) eqn:E2.
        * destruct Hin as [<-|Hin].
          -- right. exists a, b, []. rewrite app_nil_r. auto.
          -- apply (IH (Some p)); [exact Hps| |exact Hin].
             exists p, []. rewrite app_nil_r. rewrite <- Hsame. split; [reflexivity|].
             split; [exact E2|constructor].
        * destruct p as [|c p']; cbn [is_empty] in Hin.
          -- apply (IH (Some ((a ++ b) ++ [SP])%list)); [exact Hps| |exact Hin].
             exists a, (b ++ [SP])%list. rewrite app_assoc. split; [reflexivity|].
             split; [exact Ha|]. apply Forall_app. split; [exact Hb|]. now constructor.
          -- destruct Hin as [<-|Hin].
             ++ right. exists a, (b ++ [SP])%list, (c :: p').
                split; [now rewrite <- !app_assoc|]. split; [exact Ha|].
                split; [|exact Hp1]. apply Forall_app. split; [exact Hb|]. now constructor.
             ++ apply (IH None); [exact Hps|exact I|exact Hin].
      + destruct (is_article1 a1 p) eqn:E1.
        * apply (IH (Some p)); [exact Hps| |exact Hin].
          exists p, []. rewrite app_nil_r. split; [reflexivity|]. split; [exact E1|constructor].
        * destruct Hin as [<-|Hin]; [now left|].
          apply (IH None); [exact Hps|exact I|exact Hin].
  Qed.

  Theorem token_shape t tok :
    In tok (tokens_loop (split_on SP t) None) -> unit_tok tok.
  Proof.
    apply tokens_loop_units; [|exact I].
    apply Forall_forall. intros x Hx. now apply split_on_no_sep in Hx.
  Qed.

  (* -------------------------------------------------------------------------- *)
  (** * Articles stay with the following word (token level) *)

  (** [x] ends with a non-article word followed by nothing *)
  Definition word_end (x : text) : Prop :=
    x = [] \/
    exists pre wd, x = (pre ++ wd)%list /\ wd <> [] /\ ~ In SP wd /\ is_article1 a1 wd = false
                   /\ (pre = [] \/ exists pre', pre = (pre' ++ [SP])%list).
  (** [y] starts with an article that is a whole word *)
  Definition art_start (y : text) : Prop :=
    exists a rest, y = (a ++ rest)%list /\ is_article1 a1 a = true
                   /\ (rest = [] \/ exists r', rest = SP :: r').

  Fixpoint chain (l : list text) : Prop :=
    match l with
    | x :: ((y :: _) as r) => (word_end x \/ art_start y) /\ chain r
    | _ => True
    end.

  Definition head_art (l : list text) : Prop :=
    match l with y :: _ => art_start y | [] => True end.

  Lemma tokens_loop_head_art parts a b :
    is_article1 a1 a = true -> blanks b -> head_art (tokens_loop parts (Some (a ++ b)%list)).
  Proof.
    revert b. induction parts as [|p ps IH]; intros b Ha Hb.
    - cbn. exists a, b. split; [reflexivity|]. split; [exact Ha|].
      destruct b as [|x b']; [now left|]. right. inversion Hb; subst. now exists b'.
    - cbn [Wrap.tokens_loop]. destruct (is_article2 a2 p).
      + cbn. exists a, b. split; [reflexivity|]. split; [exact Ha|].
        destruct b as [|x b']; [now left|]. right. inversion Hb; subst. now exists b'.
      + destruct p as [|c p']; cbn [is_empty].
        * rewrite <- app_assoc. apply IH; [exact Ha|].
          apply Forall_app. split; [exact Hb|]. now constructor.
        * cbn. exists a, (b ++ [SP] ++ c :: p')%list. split; [now rewrite <- app_assoc|].
          split; [exact Ha|]. destruct b as [|x b']; right.
          -- now exists (c :: p').
          -- inversion Hb; subst. now exists (b' ++ [SP] ++ c :: p')%list.
  Qed.

  (** In the token list, a token either ends with a non-article word, or the next
      token starts with an article: an article is never cut off from a following
      non-article word. *)
  Lemma tokens_loop_chain parts art :
    Forall (fun p => ~ In SP p) parts -> pending_ok art ->
    chain (tokens_loop parts art).
  Proof.
    revert art. induction parts as [|p ps IH]; intros art Hns Hp.
    - destruct art; exact I.
    - inversion Hns as [|? ? Hp1 Hps]; subst. cbn [Wrap.tokens_loop].
      destruct art as [x|].
      + destruct Hp as [a [b [-> [Ha Hb]]]].
        destruct (is_article2 a2 p) eqn:E2.
        * assert (Hpa : is_article1 a1 p = true) by (now rewrite <- Hsame).
          assert (Hpo : pending_ok (Some p)).
          { exists p, []. rewrite app_nil_r. split; [reflexivity|]. split; [exact Hpa|constructor]. }
          specialize (IH (Some p) Hps Hpo).
          pose proof (tokens_loop_head_art ps p [] Hpa (Forall_nil _)) as Hh.
          rewrite app_nil_r in Hh. unfold text in *.
          destruct (tokens_loop ps (Some p)) as [|y r] eqn:E.
          { apply tokens_loop_nil in E. destruct E; discriminate. }
          try rewrite E. split; [right; exact Hh|exact IH].
        * destruct p as [|c p']; cbn [is_empty].
          -- apply IH; [exact Hps|]. exists a, (b ++ [SP])%list.
             rewrite app_assoc. split; [reflexivity|]. split; [exact Ha|].
             apply Forall_app. split; [exact Hb|]. now constructor.
          -- specialize (IH None Hps I).
             destruct (tokens_loop ps None) as [|y r] eqn:E; [exact I|].
             split; [|exact IH]. left. right.
             exists ((a ++ b) ++ [SP])%list, (c :: p').
             split; [now rewrite <- !app_assoc|]. split; [discriminate|].
             split; [exact Hp1|]. split.
             ++ rewrite <- Hsame. exact E2.
             ++ right. now exists (a ++ b)%list.
      + destruct (is_article1 a1 p) eqn:E1.
        * apply IH; [exact Hps|]. exists p, []. rewrite app_nil_r.
          split; [reflexivity|]. split; [exact E1|constructor].
        * specialize (IH None Hps I).
          destruct (tokens_loop ps None) as [|y r] eqn:E; [exact I|].
          split; [|exact IH]. left. destruct p as [|c p']; [now left|]. right.
          exists [], (c :: p'). split; [reflexivity|]. split; [discriminate|].
          split; [exact Hp1|]. split; [exact E1|now left].
  Qed.

  Theorem tokens_articles_kept t : chain (tokens_loop (split_on SP t) None).
  Proof.
    apply tokens_loop_chain; [|exact I].
    apply Forall_forall. intros x Hx. now apply split_on_no_sep in Hx.
  Qed.


  (* -------------------------------------------------------------------------- *)
  (** * The article rule on segments *)

  Definition articles_ok : bool :=
    forallb (fun a => negb (is_empty a) && negb (memN SP a)) a1.
  Hypothesis Hart : articles_ok = true.

  Notation last_word := Wrap.last_word.
  Notation first_word := Wrap.first_word.
  Notation seg_ok := (Wrap.seg_ok a1).

  Lemma memN_In x l : memN x l = true <-> In x l.
  Proof.
    induction l as [|y r IH]; cbn; [split; [discriminate|tauto]|].
    rewrite orb_true_iff, IH, N.eqb_eq. split; intros [H|H]; auto.
  Qed.

  Lemma mem_text_In x l : mem_text x l = true -> exists y, In y l /\ text_eqb x y = true.
  Proof.
    induction l as [|y r IH]; cbn; [discriminate|]. intros H.
    apply orb_prop in H. destruct H as [H|H].
    - exists y. auto.
    - destruct (IH H) as [z [Hz1 Hz2]]. exists z. auto.
  Qed.

  Lemma text_eqb_eq a b : text_eqb a b = true -> a = b.
  Proof.
    revert b. induction a as [|x a IH]; intros [|y b] H; cbn in H; try discriminate; [reflexivity|].
    apply andb_prop in H. destruct H as [H1 H2]. apply N.eqb_eq in H1. subst. f_equal. auto.
  Qed.

  Lemma article_props a : is_article1 a1 a = true -> a <> [] /\ ~ In SP a.
  Proof.
    unfold is_article1. intros H. apply mem_text_In in H. destruct H as [y [Hy1 Hy2]].
    apply text_eqb_eq in Hy2. subst y.
    unfold articles_ok in Hart. rewrite forallb_forall in Hart. specialize (Hart a Hy1).
    apply andb_prop in Hart. destruct Hart as [H1 H2]. split.
    - intros ->. discriminate.
    - intros Hin. apply memN_In in Hin. rewrite Hin in H2. discriminate.
  Qed.

  Definition nonart (x : text) : Prop := is_article1 a1 (last_word x) = false.
  Definition ends_sp (x : text) : Prop := x = [] \/ exists a, x = (a ++ [SP])%list.

  Lemma nonart_nil : nonart [].
  Proof.
    unfold nonart. cbn. destruct (is_article1 a1 []) eqn:E; [|reflexivity].
    apply article_props in E. destruct E as [E _]. contradiction.
  Qed.

  Lemma seg_ok_nil s : seg_ok s [] = true.
  Proof. unfold Wrap.seg_ok. cbn. now rewrite orb_true_r. Qed.

  Lemma seg_ok_nonart s rest : nonart s -> seg_ok s rest = true.
  Proof. unfold Wrap.seg_ok, nonart. intros ->. reflexivity. Qed.

  Lemma take_word_app_nosp a b : ~ In SP a -> take_word (a ++ SP :: b) = a.
  Proof.
    induction a as [|x a IH]; intros Hn.
    - cbn. reflexivity.
    - cbn. destruct (N.eqb_spec x SP) as [->|Hne].
      + exfalso. apply Hn. now left.
      + f_equal. apply IH. intros Hc. apply Hn. now right.
  Qed.

  Lemma take_word_nosp a : ~ In SP a -> take_word a = a.
  Proof.
    induction a as [|x a IH]; intros Hn; [reflexivity|].
    cbn. destruct (N.eqb_spec x SP) as [->|Hne].
    - exfalso. apply Hn. now left.
    - f_equal. apply IH. intros Hc. apply Hn. now right.
  Qed.

  Lemma drop_blanks_nonblank a :
    (exists x r, a = x :: r /\ x <> SP) -> drop_blanks a = a.
  Proof.
    intros [x [r [-> Hx]]]. cbn. destruct (N.eqb_spec x SP); [contradiction|reflexivity].
  Qed.

  Lemma nosp_head a : a <> [] -> ~ In SP a -> exists x r, a = x :: r /\ x <> SP.
  Proof.
    destruct a as [|x r]; [contradiction|]. intros _ Hn. exists x, r. split; [reflexivity|].
    intros ->. apply Hn. now left.
  Qed.

  Lemma last_word_word y wd :
    ends_sp y -> wd <> [] -> ~ In SP wd -> last_word (y ++ wd ++ [SP]) = wd.
  Proof.
    intros Hy Hne Hns. unfold Wrap.last_word.
    rewrite !rev_app_distr. cbn [rev app].
    assert (Hrw : ~ In SP (rev wd)) by (intros Hc; apply Hns; now apply in_rev).
    assert (Hrne : rev wd <> []).
    { intros E. apply (f_equal (@rev N)) in E. rewrite rev_involutive in E. now cbn in E. }
    change (drop_blanks (SP :: rev wd ++ rev y)) with (drop_blanks (rev wd ++ rev y)).
    rewrite drop_blanks_nonblank.
    2:{ destruct (nosp_head _ Hrne Hrw) as [x [r [E Hx]]]. rewrite E. exists x, (r ++ rev y)%list.
        split; [reflexivity|exact Hx]. }
    destruct Hy as [->|[a ->]].
    - cbn [rev app]. rewrite app_nil_r. rewrite take_word_nosp by exact Hrw.
      apply rev_involutive.
    - rewrite rev_app_distr. cbn [rev app].
      rewrite take_word_app_nosp by exact Hrw. apply rev_involutive.
  Qed.

  Lemma last_word_sp acc : last_word (acc ++ [SP]) = last_word acc.
  Proof. unfold Wrap.last_word. rewrite rev_app_distr. reflexivity. Qed.

  Lemma first_word_sp m : first_word (SP :: m) = first_word m.
  Proof. reflexivity. Qed.

  Lemma first_word_art a m :
    a <> [] -> ~ In SP a -> (m = [] \/ exists m', m = SP :: m') -> first_word (a ++ m) = a.
  Proof.
    intros Hne Hns Hm. unfold Wrap.first_word.
    rewrite drop_blanks_nonblank.
    2:{ destruct (nosp_head _ Hne Hns) as [x [r [E Hx]]]. rewrite E. exists x, (r ++ m)%list.
        split; [reflexivity|exact Hx]. }
    destruct Hm as [->|[m' ->]].
    - rewrite app_nil_r. now apply take_word_nosp.
    - now apply take_word_app_nosp.
  Qed.

  (** One step of the accumulation: appending token [t] keeps "the accumulated
      segment may be cut here". *)
  Definition step (t : text) (r : list text) : Prop :=
    r = [] \/
    forall acc, ends_sp acc -> seg_ok acc (t ++ concat r) = true ->
                seg_ok (acc ++ t) (concat r) = true /\ ends_sp (acc ++ t).

  Fixpoint all_steps (T : list text) : Prop :=
    match T with
    | [] => True
    | t :: r => step t r /\ all_steps r
    end.

  Lemma concat_add_spaces_cons y rest :
    exists m, concat (add_spaces (y :: rest)) = (y ++ m)%list
              /\ (m = [] \/ exists m', m = SP :: m').
  Proof.
    destruct rest as [|z rest'].
    - exists []. cbn. split; [reflexivity|now left].
    - exists (SP :: concat (add_spaces (z :: rest'))).
      change (add_spaces (y :: z :: rest')) with ((y ++ [SP])%list :: add_spaces (z :: rest')).
      cbn [concat]. split; [now rewrite <- app_assoc|right; eauto].
  Qed.

  Lemma add_spaces_steps toks : chain toks -> all_steps (add_spaces toks).
  Proof.
    induction toks as [|x rest IH]; intros Hc; [exact I|].
    destruct rest as [|y rest'].
    - cbn. split; [now left|exact I].
    - destruct Hc as [Hxy Hc].
      change (add_spaces (x :: y :: rest')) with ((x ++ [SP])%list :: add_spaces (y :: rest')).
      split; [|now apply IH].
      right. intros acc Hacc Hok.
      split; [|right; exists (acc ++ x)%list; now rewrite <- app_assoc].
      destruct Hxy as [[->|[pre [wd [-> [Hne [Hns [Hna Hpre]]]]]]]|[a [rest0 [-> [Ha Hr0]]]]].
      + (* empty token: a blank *)
        cbn [app] in *. unfold Wrap.seg_ok in *. rewrite last_word_sp.
        rewrite first_word_sp in Hok. exact Hok.
      + (* ends with a non-article word *)
        apply seg_ok_nonart. unfold nonart.
        replace (acc ++ (pre ++ wd) ++ [SP])%list with ((acc ++ pre) ++ wd ++ [SP])%list
          by (now rewrite <- !app_assoc).
        rewrite last_word_word; [exact Hna| |exact Hne|exact Hns].
        destruct Hpre as [->|[pre' ->]].
        * now rewrite app_nil_r.
        * right. exists (acc ++ pre')%list. now rewrite <- app_assoc.
      + (* the next token starts with an article *)
        destruct (concat_add_spaces_cons (a ++ rest0)%list rest') as [m [Em Hm]].
        rewrite Em. unfold Wrap.seg_ok.
        destruct (article_props a Ha) as [Hane Hans].
        rewrite <- app_assoc. rewrite first_word_art; [rewrite Ha; now rewrite !orb_true_r|exact Hane|exact Hans|].
        destruct Hr0 as [->|[r' ->]].
        * exact Hm.
        * right. now exists (r' ++ m)%list.
  Qed.

  Lemma article_rule_cons s r :
    article_rule a1 (s :: r) = seg_ok s (concat r) && article_rule a1 r.
  Proof. reflexivity. Qed.

  Lemma segments_loop_article w T acc_len acc :
    acc_len = zlen acc -> (ends_sp acc \/ T = []) -> all_steps T ->
    seg_ok acc (concat T) = true ->
    article_rule a1 (segments_loop w T acc_len acc) = true.
  Proof.
    revert acc_len acc. induction T as [|t r IH]; intros acc_len acc Hlen Hacc Hall Hok.
    - cbn [segments_loop]. destruct (0 <? acc_len); [|reflexivity].
      rewrite article_rule_cons. cbn [concat]. now rewrite seg_ok_nil.
    - destruct Hall as [Hstep Hall]. destruct Hacc as [Hacc|Hacc]; [|discriminate].
      assert (Hnil_sp : ends_sp []) by now left.
      assert (Hnil_ok : forall rest, seg_ok [] rest = true).
      { intros rest. apply seg_ok_nonart. apply nonart_nil. }
      (* facts about the token alone and appended to acc *)
      assert (Ht : seg_ok t (concat r) = true /\ (ends_sp t \/ r = [])).
      { destruct Hstep as [->|Hstep]; [split; [apply seg_ok_nil|now right]|].
        destruct (Hstep [] Hnil_sp (Hnil_ok _)) as [H1 H2]. cbn [app] in *. auto. }
      assert (Hat : seg_ok (acc ++ t) (concat r) = true /\ (ends_sp (acc ++ t) \/ r = [])).
      { destruct Hstep as [->|Hstep]; [split; [apply seg_ok_nil|now right]|].
        destruct (Hstep acc Hacc Hok) as [H1 H2]. auto. }
      cbn [segments_loop]. destruct (w <? zlen t).
      + rewrite !article_rule_cons. cbn [concat].
        rewrite (segments_loop_concat w r 0 []) by reflexivity. cbn [app].
        cbn [concat] in Hok. rewrite Hok. destruct Ht as [Ht1 Ht2]. rewrite Ht1. cbn [andb].
        apply IH; [reflexivity|now left|exact Hall|apply Hnil_ok].
      + destruct (w <? acc_len + zlen t).
        * rewrite article_rule_cons.
          rewrite (segments_loop_concat w r (zlen t) t) by reflexivity.
          cbn [concat] in Hok. rewrite Hok. cbn [andb].
          destruct Ht as [Ht1 Ht2]. apply IH; [reflexivity|exact Ht2|exact Hall|exact Ht1].
        * destruct Hat as [Hat1 Hat2].
          apply IH; [rewrite zlen_app; lia|exact Hat2|exact Hall|exact Hat1].
  Qed.

  Theorem wrap_article w t : article_rule a1 (wrap a1 a2 w t) = true.
  Proof.
    unfold wrap. destruct (split_on SP t) as [|p [|p2 ps]] eqn:E.
    - exfalso. now apply (split_on_nonempty SP t).
    - cbn. now rewrite seg_ok_nil.
    - apply segments_loop_article.
      + reflexivity.
      + left. now left.
      + unfold tokens_of. apply add_spaces_steps. rewrite E.
        rewrite <- E. apply tokens_articles_kept.
      + apply seg_ok_nonart. apply nonart_nil.
  Qed.
End WithArticles.
