(** C18 — direct ("label free") compilation of a regex tree to the final program:
    what [translate] produces once the symbolic labels are resolved to indices and
    the no-ops are gone. It is used (a) as the intermediate stage of the proof of
    [translate_correct] (the semantic proof is done on [comp], the labelled
    machinery is related to it separately) and (b) in the "comp" stream, which checks
    [program t = Ok (comp_regex t)] inside Coq on every generated tree. *)
From Coq Require Import List NArith Bool Arith.
From Acg Require Import Base.Outcome Model.RevmTree Model.Revm.
Import ListNotations.

Definition set_instr (compl : bool) (rs : list (N * option N)) : instr :=
  let l := sort_ranges (map (fun r => (fst r, match snd r with Some b => b | None => fst r end)) rs) in
  if compl then INotSet l else ISet l.

(** ** code length *)
Definition qlen (blen : nat) (q : quant) : nat :=
  if Nat.eqb (q_min q) 1 && match q_max q with Some 1 => true | _ => false end
  then blen
  else
    match q_max q with
    | Some mx => q_min q * blen + (mx - q_min q) * S blen
    | None =>
        match q_min q with
        | O => S (S blen)
        | S m => m * blen + S blen
        end
    end.

Fixpoint vlen (v : value) : nat :=
  match v with
  | VSym SStart => 0
  | VSym _ | VChar _ | VSet _ _ => 1
  | VGroup u => ulen u
  end
with tlen (t : term) : nat :=
  match t with
  | Term v None => vlen v
  | Term v (Some q) => qlen (vlen v) q
  end
with clen (c : concat) : nat :=
  match c with
  | CNil => 0
  | CCons t c' => tlen t + clen c'
  end
with ulen (u : union) : nat :=
  match u with
  | UNil => 0
  | UCons c UNil => clen c
  | UCons c u' => S (clen c) + S (ulen u')
  end.

(** ** code; [a] = index of the first instruction of the fragment *)
Section Quant.
  Variable body : nat -> list instr.
  Variable blen : nat.

  Fixpoint copies (k : nat) (a : nat) : list instr :=
    match k with
    | O => []
    | S k' => body a ++ copies k' (a + blen)
    end.

  Fixpoint optionals (k : nat) (final : nat) (a : nat) : list instr :=
    match k with
    | O => []
    | S k' => ISplit (S a) final :: body (S a) ++ optionals k' final (S a + blen)
    end.

  Definition comp_quant (q : quant) (a : nat) : list instr :=
    if Nat.eqb (q_min q) 1 && match q_max q with Some 1 => true | _ => false end
    then body a
    else
      match q_max q with
      | Some mx =>
          let a1 := a + q_min q * blen in
          copies (q_min q) a ++ optionals (mx - q_min q) (a1 + (mx - q_min q) * S blen) a1
      | None =>
          match q_min q with
          | O => ISplit (S a) (a + S (S blen)) :: body (S a) ++ [IJump a]
          | S m =>
              let a1 := a + m * blen in
              copies m a ++ body a1 ++ [ISplit a1 (a1 + S blen)]
          end
      end.
End Quant.

Fixpoint comp_v (v : value) (a : nat) {struct v} : list instr :=
  match v with
  | VSym SStart => []
  | VSym SEnd => [IEnd]
  | VSym SDot => [IAny]
  | VChar c => [IChar c]
  | VSet compl rs => [set_instr compl rs]
  | VGroup u => comp_u u a
  end
with comp_t (t : term) (a : nat) {struct t} : list instr :=
  match t with
  | Term v None => comp_v v a
  | Term v (Some q) => comp_quant (comp_v v) (vlen v) q a
  end
with comp_c (c : concat) (a : nat) {struct c} : list instr :=
  match c with
  | CNil => []
  | CCons t c' => comp_t t a ++ comp_c c' (a + tlen t)
  end
with comp_alts (u : union) (final : nat) (a : nat) {struct u} : list instr :=
  (* two or more alternatives were started; [u] are the remaining ones *)
  match u with
  | UNil => []
  | UCons c UNil => comp_c c a
  | UCons c u' =>
      ISplit (S a) (a + S (S (clen c))) :: comp_c c (S a)
        ++ IJump final :: comp_alts u' final (a + S (S (clen c)))
  end
with comp_u (u : union) (a : nat) {struct u} : list instr :=
  match u with
  | UNil => []
  | UCons c UNil => comp_c c a
  | UCons c u' =>
      let final := a + ulen u in
      ISplit (S a) (a + S (S (clen c))) :: comp_c c (S a)
        ++ IJump final :: comp_alts u' final (a + S (S (clen c)))
  end.

Fixpoint comp_terms (ts : list term) (a : nat) : list instr :=
  match ts with
  | [] => []
  | t :: r => comp_t t a ++ comp_terms r (a + tlen t)
  end.

Definition comp_regex (r : regex) : list instr := comp_terms (body_terms r) 0 ++ [IMatch].

Definition instrs_eqb (a b : list instr) : bool :=
  (fix go (a b : list instr) : bool :=
     match a, b with
     | [], [] => true
     | x :: r, y :: s => instr_eqb x y && go r s
     | _, _ => false
     end) a b.
