(** Proofs about [Model/XsdGen.v]: the length and occurrence facets say exactly what the
    inferred length constraint says. *)
From Coq Require Import List NArith ZArith Bool Lia.
From Acg Require Import Base.Str Base.Outcome Model.XsdGen.
Import ListNotations.
Open Scope Z_scope.

Lemma translate_ok_facets : forall pm prim lenc pat st,
  translate_to_simple_type pm prim lenc pat = Ok st ->
  forall n, restriction_len_ok (st_restriction st) n = len_admits lenc n.
Proof.
  intros pm prim lenc pat st H n. unfold translate_to_simple_type in H.
  destruct (assoc_text prim pm) as [ty|]; [|discriminate].
  injection H as <-. cbn [st_restriction].
  destruct lenc as [[mn mx]|]; cbn [lc_min lc_max len_admits].
  - destruct mn as [a|], mx as [b|], pat as [p|]; reflexivity.
  - destruct pat; reflexivity.
Qed.

(** soundness: a value whose length the constraint admits passes the length facets *)
Theorem facet_sound : forall pm prim lenc pat st n,
  translate_to_simple_type pm prim lenc pat = Ok st ->
  len_admits lenc n = true -> restriction_len_ok (st_restriction st) n = true.
Proof. intros. erewrite translate_ok_facets; eauto. Qed.

(** completeness: a value whose length breaks the constraint fails a length facet *)
Theorem facet_complete : forall pm prim lenc pat st n,
  translate_to_simple_type pm prim lenc pat = Ok st ->
  len_admits lenc n = false -> restriction_len_ok (st_restriction st) n = false.
Proof. intros. erewrite translate_ok_facets; eauto. Qed.

(** the translated pattern is emitted unchanged, and a restriction exists iff needed *)
Theorem facet_pattern_kept : forall pm prim lenc pat st,
  translate_to_simple_type pm prim lenc pat = Ok st ->
  match st_restriction st with
  | Some r => r_pattern r = pat
  | None => pat = None /\ (forall n, len_admits lenc n = true \/ lenc <> None)
  end.
Proof.
  intros pm prim lenc pat st H. unfold translate_to_simple_type in H.
  destruct (assoc_text prim pm) as [ty|]; [|discriminate]. injection H as <-.
  cbn [st_restriction].
  destruct lenc as [[[a|] [b|]]|], pat as [p|]; cbn; auto; split; auto; intros; right; discriminate.
Qed.

Theorem translate_no_crash : forall pm prim lenc pat,
  assoc_text prim pm <> None -> is_ok (translate_to_simple_type pm prim lenc pat) = true.
Proof.
  intros pm prim lenc pat H. unfold translate_to_simple_type.
  destruct (assoc_text prim pm); [reflexivity|congruence].
Qed.

Theorem list_occurs_exact : forall lenc n,
  0 <= n ->
  (match lenc with Some c => match lc_min c with Some m => 0 <= m | None => True end | None => True end) ->
  occurs_ok (list_occurs lenc) n = len_admits lenc n.
Proof.
  intros lenc n Hn Hmin. unfold occurs_ok, list_occurs, len_admits.
  destruct lenc as [[[a|] [b|]]|]; cbn [fst snd lc_min lc_max]; try reflexivity;
    try (replace (0 <=? n) with true by (symmetry; apply Z.leb_le; lia); reflexivity).
Qed.

Theorem property_occurs_exact : forall optional n,
  occurs_ok (property_occurs optional) n = true <->
  (n = 1 \/ (optional = true /\ n = 0)).
Proof.
  intros [|] n; unfold occurs_ok, property_occurs; cbn [fst snd];
    rewrite andb_true_iff, !Z.leb_le; lia.
Qed.
