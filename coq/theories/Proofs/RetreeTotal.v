(** Totality of the parser model: no [Crash] for any input (C16 [parse_total]).

    Every [Crash] constructor of Model/RetreeParse.v stands for one [assert] /
    [raise AssertionError] / [@require] of [_parse.py] (or for the exhaustion of the
    model's fuel); this file shows each of them unreachable. The only facts used about
    the generated tables is [tables_total_ok]: every literal whose branch in
    [_parse_char_literal] raises [AssertionError] is intercepted by
    [_parse_concatenation] before. *)
From Coq Require Import List NArith Bool Arith Lia.
From Acg Require Import Base.Str Base.Outcome Model.Retree Model.RetreeParse.
Import ListNotations.
Open Scope N_scope.

(** The characters [_parse_concatenation] handles itself, before it calls
    [_parse_char_literal]: | ^ $ . ( [ * + ? { *)
Definition concat_handled : list N := [124; 94; 36; 46; 40; 91; 42; 43; 63; 123].

Definition tables_total_ok (T : tables) : bool :=
  forallb (fun c => memN c concat_handled) (lit_assert T).

(** [good n o]: [o] is no crash, and if it is a success its rest has at most [n]
    tokens. [goodlt] is the strict variant. *)
Definition good {A} (n : nat) (o : presult A) : Prop :=
  match o with
  | Crash _ => False
  | Err _ => True
  | Ok (_, r) => (length r <= n)%nat
  end.
Definition goodlt {A} (n : nat) (o : presult A) : Prop :=
  match o with
  | Crash _ => False
  | Err _ => True
  | Ok (_, r) => (length r < n)%nat
  end.

Lemma goodlt_good {A} n (o : presult A) : goodlt n o -> good n o.
Proof. destruct o as [[a r]| |]; simpl; auto. lia. Qed.

Lemma good_mono {A} n m (o : presult A) : (n <= m)%nat -> good n o -> good m o.
Proof. destruct o as [[a r]| |]; simpl; auto. lia. Qed.

Lemma good_bind {A B} n m (o : presult A) (f : A * list tok -> presult B) :
  good n o ->
  (forall a r, o = Ok (a, r) -> (length r <= n)%nat -> good m (f (a, r))) ->
  good m (bind o f).
Proof.
  destruct o as [[a r]|e|k]; simpl; intros Hg Hf; auto.
Qed.

Lemma goodlt_bind {A B} n m (o : presult A) (f : A * list tok -> presult B) :
  goodlt n o ->
  (forall a r, o = Ok (a, r) -> (length r < n)%nat -> goodlt m (f (a, r))) ->
  goodlt m (bind o f).
Proof.
  destruct o as [[a r]|e|k]; simpl; intros Hg Hf; auto.
Qed.

(** ** Cursor primitives *)
Lemma try_lit_len : forall lit ts r,
  try_lit lit ts = Some r -> (length r + length lit = length ts)%nat.
Proof.
  induction lit as [|x lit IH]; intros ts r H; simpl in *.
  - inversion H; subst; lia.
  - destruct ts as [|[c|f] ts']; try discriminate.
    destruct (c =? x); try discriminate.
    apply IH in H. simpl. lia.
Qed.

Lemma peek_lit_cons_false : forall x ts,
  peek_lit [x] ts = false ->
  match ts with C c :: _ => (c =? x) = false | _ => True end.
Proof.
  intros x ts H. destruct ts as [|[c|f] r]; auto.
  unfold peek_lit in H; simpl in H. destruct (c =? x); auto; discriminate.
Qed.

Lemma skip_blanks_len : forall ts, (length (skip_blanks ts) <= length ts)%nat.
Proof.
  induction ts as [|[c|f] r IH]; simpl; auto.
  destruct ((c =? 32) || (c =? 9)); simpl; lia.
Qed.

Lemma take_digits_len : forall ts ds r,
  take_digits ts = (ds, r) -> (length r <= length ts)%nat.
Proof.
  induction ts as [|[c|f] ts IH]; simpl; intros ds r H.
  - inversion H; subst; simpl; lia.
  - destruct (is_digit c).
    + destruct (take_digits ts) as [ds' r'] eqn:E. inversion H; subst.
      specialize (IH _ _ eq_refl). lia.
    + inversion H; subst; simpl; lia.
  - inversion H; subst; simpl; lia.
Qed.

Lemma try_int_len : forall ts o r, try_int ts = (o, r) -> (length r <= length ts)%nat.
Proof.
  intros ts o r H. unfold try_int in H.
  destruct (take_digits ts) as [ds r'] eqn:E.
  apply take_digits_len in E.
  destruct ds; inversion H; subst; lia.
Qed.

Lemma take_chars_len : forall n ts cs r,
  take_chars n ts = Some (cs, r) -> (length r <= length ts)%nat.
Proof.
  induction n as [|n IH]; simpl; intros ts cs r H.
  - inversion H; subst; lia.
  - destruct ts as [|[c|f] ts']; try discriminate.
    destruct (take_chars n ts') as [[cs' r']|] eqn:E; try discriminate.
    inversion H; subst. apply IH in E. simpl. lia.
Qed.

(** ** Quantifiers *)
Lemma mk_quantifier_ok : forall ng mn mx,
  match mx with Some m => m <? mn | None => false end = false ->
  mk_quantifier ng mn mx = Ok (mkQuant ng mn mx).
Proof.
  intros ng mn [m|] H; simpl in *; auto. rewrite H. reflexivity.
Qed.

Lemma parse_braces_good : forall ts, good (length ts) (parse_braces ts).
Proof.
  intros ts. unfold parse_braces.
  pose proof (skip_blanks_len ts) as H1.
  destruct (try_int (skip_blanks ts)) as [mn r2] eqn:E2.
  apply try_int_len in E2.
  pose proof (skip_blanks_len r2) as H3.
  assert (Hc : forall comma r4,
             (iflit [44] at skip_blanks r2 as r then (true, r) else (false, skip_blanks r2))
             = (comma, r4) -> (length r4 <= length ts)%nat).
  { intros comma r4 H. destruct (try_lit [44] (skip_blanks r2)) as [r|] eqn:E.
    - apply try_lit_len in E. inversion H; subst. simpl in E. lia.
    - inversion H; subst. lia. }
  destruct (iflit [44] at skip_blanks r2 as r then (true, r) else (false, skip_blanks r2))
    as [comma r4] eqn:E4.
  specialize (Hc _ _ eq_refl).
  pose proof (skip_blanks_len r4) as H5.
  destruct (try_int (skip_blanks r4)) as [mx r6] eqn:E6.
  apply try_int_len in E6.
  pose proof (skip_blanks_len r6) as H7.
  destruct (negb (is_some mn) && negb (is_some mx)); [exact I|].
  destruct (match (if comma then mx else mn) with
            | Some m => m <? match mn with Some m0 => m0 | None => 0 end
            | None => false end) eqn:Eg; [exact I|].
  destruct (try_lit [125; 63] (skip_blanks r6)) as [r|] eqn:E8.
  - apply try_lit_len in E8. rewrite (mk_quantifier_ok _ _ _ Eg). simpl in *. lia.
  - destruct (try_lit [125] (skip_blanks r6)) as [r|] eqn:E9; [|exact I].
    apply try_lit_len in E9. rewrite (mk_quantifier_ok _ _ _ Eg). simpl in *. lia.
Qed.

Lemma parse_quantifier_good : forall ts, good (length ts) (parse_quantifier ts).
Proof.
  intros ts. unfold parse_quantifier.
  repeat match goal with
  | |- good _ (match try_lit ?l ts with Some _ => _ | None => _ end) =>
      let E := fresh "E" in
      destruct (try_lit l ts) eqn:E;
      [apply try_lit_len in E; simpl in E |]
  end; try (simpl; lia).
  - eapply good_bind with (n := length l).
    + apply parse_braces_good.
    + intros q r _ Hr. simpl. lia.
Qed.

(** A parsed quantifier on an anchor is refused before [Term.__init__] is reached. *)
Lemma mk_term_ok : forall v q,
  is_anchor v && is_some q = false -> mk_term v q = Ok (v, q).
Proof. intros v q H. unfold mk_term. rewrite H. reflexivity. Qed.

(** ** Escapes and characters *)
Lemma parse_hex_escape_good : forall n b ts, good (length ts) (parse_hex_escape n b ts).
Proof.
  intros n b ts. unfold parse_hex_escape.
  destruct (take_chars n ts) as [[cs r]|] eqn:E; [|exact I].
  apply take_chars_len in E.
  destruct (hex_value 0 cs) as [v|]; [|exact I].
  destruct (b && ((v <? 65536) || (1114111 <? v))); simpl; auto.
Qed.

Lemma parse_escape_goodlt : forall simple ts,
  goodlt (S (length ts)) (parse_escape simple ts).
Proof.
  intros simple ts. unfold parse_escape.
  destruct ts as [|[e|f] r]; try exact I.
  assert (Hh : forall n b, goodlt (S (length (C e :: r))) (parse_hex_escape n b r)).
  { intros n b. pose proof (parse_hex_escape_good n b r) as H.
    destruct (parse_hex_escape n b r) as [[a r']| |]; simpl in *; auto. lia. }
  destruct (e =? 120); [apply Hh|].
  destruct (e =? 117); [apply Hh|].
  destruct (e =? 85); [apply Hh|].
  destruct (assocN e simple); simpl; auto; lia.
Qed.

Section WithTables.
  Variable T : tables.
  Hypothesis HT : tables_total_ok T = true.

  Lemma parse_range_char_goodlt : forall ts,
    ts <> [] -> peek_lit [45] ts = false ->
    goodlt (length ts) (parse_range_char T ts).
  Proof.
    intros ts Hne Hd. destruct ts as [|[c|f] r]; [congruence| |exact I].
    apply peek_lit_cons_false in Hd. simpl. rewrite Hd.
    destruct (c =? 92).
    - pose proof (parse_escape_goodlt (rng_simple T) r) as H.
      destruct (parse_escape (rng_simple T) r) as [[a r']| |]; simpl in *; auto.
    - simpl. lia.
  Qed.

  Lemma parse_range_end_good : forall r1, good (length r1) (parse_range_end T r1).
  Proof.
    intros r1. unfold parse_range_end.
    destruct (peek_lit [45; 93] r1); [simpl; lia|].
    destruct (try_lit [45] r1) as [r|] eqn:E; [|simpl; lia].
    apply try_lit_len in E. simpl in E.
    destruct (peek_lit [45] r) eqn:Ed; [exact I|].
    destruct r as [|t r']; [exact I|].
    assert (Hne : t :: r' <> []) by congruence.
    pose proof (parse_range_char_goodlt (t :: r') Hne Ed) as H.
    destruct (parse_range_char T (t :: r')) as [[a r'']| |]; simpl in *; auto. lia.
  Qed.

  Lemma parse_ranges_loop_good : forall fuel ts acc,
    (length ts < fuel)%nat -> good (length ts) (parse_ranges_loop T fuel ts acc).
  Proof.
    induction fuel as [|f IH]; intros ts acc Hf; [lia|].
    cbn [parse_ranges_loop]. destruct ts as [|t ts']; [exact I|].
    cbv beta iota.
    set (ts := t :: ts') in *.
    destruct (try_lit [45; 93] ts) as [r|] eqn:E1.
    { apply try_lit_len in E1. simpl in *. lia. }
    destruct (try_lit [93] ts) as [r|] eqn:E2.
    { apply try_lit_len in E2. simpl in *. lia. }
    destruct (peek_lit [45] ts) eqn:Ed; [exact I|].
    assert (Hne : ts <> []) by (unfold ts; congruence).
    eapply good_bind with (n := (length ts - 1)%nat).
    { pose proof (parse_range_char_goodlt ts Hne Ed) as H.
      destruct (parse_range_char T ts) as [[a r']| |]; simpl in *; auto. lia. }
    intros st r1 _ Hr1.
    eapply good_bind with (n := length r1).
    { apply parse_range_end_good. }
    intros en r2 _ Hr2.
    destruct (match en with Some e => ch_code e <? ch_code st | None => false end);
      [exact I|].
    eapply good_mono; [|apply IH]; unfold ts in *; simpl in *; lia.
  Qed.

  Lemma parse_ranges_and_closing_good : forall ts,
    good (length ts) (parse_ranges_and_closing T ts).
  Proof.
    intros ts. unfold parse_ranges_and_closing.
    destruct (try_lit [45] ts) as [r|] eqn:E.
    - apply try_lit_len in E. simpl in E.
      eapply good_bind with (n := length r).
      + apply parse_ranges_loop_good. lia.
      + intros rs r' _ Hr. destruct (negb (ranges_disjoint rs)); [exact I|].
        destruct rs; simpl; auto. lia.
    - eapply good_bind with (n := length ts).
      + apply parse_ranges_loop_good. lia.
      + intros rs r' _ Hr. destruct (negb (ranges_disjoint rs)); [exact I|].
        destruct rs; simpl; auto.
  Qed.

  (** [_parse_char_literal] is only called on a character that the concatenation
      loop does not handle itself. *)
  Lemma parse_char_literal_spec : forall c r,
    memN c concat_handled = false ->
    match parse_char_literal T (C c :: r) with
    | Crash _ => False
    | Err _ => True
    | Ok (Some _, r1) => (length r1 <= length r)%nat
    | Ok (None, r1) => r1 = C c :: r
    end.
  Proof.
    intros c r Hc. simpl.
    destruct (c =? 92).
    - pose proof (parse_escape_goodlt (lit_simple T) r) as H.
      destruct (parse_escape (lit_simple T) r) as [[a r']| |]; simpl in *; auto. lia.
    - destruct (memN c (lit_assert T)) eqn:Ea.
      + exfalso. unfold tables_total_ok in HT. rewrite forallb_forall in HT.
        assert (Hin : In c (lit_assert T)).
        { clear -Ea. induction (lit_assert T) as [|y l IH]; simpl in *; [discriminate|].
          destruct (c =? y) eqn:E; simpl in Ea.
          - left. apply N.eqb_eq in E. auto.
          - right. auto. }
        apply HT in Hin. congruence.
      + destruct (memN c (lit_stop T)); simpl; auto.
  Qed.

  (** ** The mutual loop *)
  Definition pc_ok (pc : list tok -> list term -> presult concatenation) (n : nat) : Prop :=
    forall ts acc, (length ts < n)%nat -> good (length ts) (pc ts acc).
  Definition put_ok (put : list tok -> list concatenation -> presult union_expr) (n : nat)
    : Prop :=
    forall ts acc, (length ts < n)%nat -> good (length ts) (put ts acc).
  Definition pu_ok (pu : list tok -> presult union_expr) (n : nat) : Prop :=
    forall ts, (length ts < n)%nat -> good (length ts) (pu ts).

  Lemma concat_continue_good : forall pc n ts acc v r,
    pc_ok pc n -> (length ts <= n)%nat -> (length r < length ts)%nat ->
    good (length ts) (concat_continue pc ts acc v r).
  Proof.
    intros pc n ts acc v r Hpc Hts Hr. unfold concat_continue.
    eapply good_bind with (n := length r); [apply parse_quantifier_good|].
    intros q r' _ Hr'.
    destruct (is_anchor v && is_some q) eqn:Ea; [exact I|].
    rewrite (mk_term_ok _ _ Ea). simpl.
    destruct (Nat.ltb (length r') (length ts)) eqn:El.
    - apply Nat.ltb_lt in El. eapply good_mono; [|apply Hpc]; lia.
    - apply Nat.ltb_ge in El. lia.
  Qed.

  Lemma concat_body_good : forall pc pu n ts acc,
    pc_ok pc n -> pu_ok pu n -> (length ts <= n)%nat ->
    good (length ts) (concat_body T pc pu ts acc).
  Proof.
    intros pc pu n ts acc Hpc Hpu Hts. unfold concat_body.
    destruct ts as [|[c|f] r]; [simpl; lia| |].
    2:{ apply concat_continue_good with (n := n); auto. }
    set (ts := C c :: r) in *.
    assert (Hk : forall v r0, (length r0 <= length r)%nat ->
                 good (length ts) (concat_continue pc ts acc v r0)).
    { intros v r0 H0. apply concat_continue_good with (n := n); auto.
      unfold ts; simpl; lia. }
    destruct (c =? 124) eqn:E124; [simpl; lia|].
    destruct (c =? 94) eqn:E94; [apply Hk; lia|].
    destruct (c =? 36) eqn:E36; [apply Hk; lia|].
    destruct (c =? 46) eqn:E46; [apply Hk; lia|].
    destruct (c =? 40) eqn:E40.
    { destruct (peek_lit [63] r); [exact I|].
      eapply good_bind with (n := length r).
      - apply Hpu. unfold ts in Hts; simpl in Hts; lia.
      - intros u r' _ Hr'. destruct (try_lit [41] r') as [r''|] eqn:E; [|exact I].
        apply try_lit_len in E. simpl in E. apply Hk. lia. }
    destruct (c =? 91) eqn:E91.
    { destruct (try_lit [94] r) as [r0|] eqn:E.
      - apply try_lit_len in E. simpl in E.
        eapply good_bind with (n := length r0); [apply parse_ranges_and_closing_good|].
        intros rs r' _ Hr'. destruct (existsb range_is_astral rs); [exact I|].
        apply Hk. lia.
      - eapply good_bind with (n := length r); [apply parse_ranges_and_closing_good|].
        intros rs r' _ Hr'. apply Hk. lia. }
    destruct ((c =? 42) || (c =? 43) || (c =? 63) || (c =? 123)) eqn:Eq; [exact I|].
    assert (Hc : memN c concat_handled = false).
    { unfold concat_handled, memN. rewrite E124, E94, E36, E46, E40, E91.
      repeat (apply orb_false_elim in Eq; destruct Eq as [Eq ?]).
      repeat match goal with H : (_ =? _) = false |- _ => rewrite H; clear H end.
      reflexivity. }
    pose proof (parse_char_literal_spec c r Hc) as Hl.
    fold ts in Hl.
    destruct (parse_char_literal T ts) as [[[x|] r1]| |].
    - cbn. apply Hk. exact Hl.
    - subst r1. simpl. lia.
    - exact I.
    - contradiction.
  Qed.

  Lemma union_tail_body_good : forall pc put n ts acc,
    pc_ok pc n -> put_ok put n -> (length ts <= n)%nat ->
    good (length ts) (union_tail_body pc put ts acc).
  Proof.
    intros pc put n ts acc Hpc Hput Hts. unfold union_tail_body.
    destruct (try_lit [124] ts) as [r|] eqn:E; [|simpl; lia].
    apply try_lit_len in E. simpl in E.
    destruct r as [|t r']; [simpl; lia|].
    set (r := t :: r') in *.
    eapply good_bind with (n := length r).
    - apply Hpc. lia.
    - intros c r1 _ Hr1. eapply good_mono; [|apply Hput]; lia.
  Qed.

  Lemma union_body_good : forall pc put n,
    pc_ok pc n -> put_ok put n -> pu_ok (union_body pc put) n.
  Proof.
    intros pc put n Hpc Hput ts Hts. unfold union_body.
    destruct ts as [|t ts']; [simpl; lia|].
    eapply good_bind with (n := length (t :: ts')).
    - apply Hpc. exact Hts.
    - intros c r1 _ Hr1. eapply good_mono; [|apply Hput]; lia.
  Qed.

  Lemma parse_loops_good : forall fuel,
    pc_ok (parse_concat T fuel) fuel /\ put_ok (parse_union_tail T fuel) fuel.
  Proof.
    induction fuel as [|f [IHc IHu]].
    - split; intros ts acc H; lia.
    - split; intros ts acc H; simpl.
      + apply concat_body_good with (n := f); auto; [|lia].
        apply union_body_good; auto.
      + apply union_tail_body_good with (n := f); auto. lia.
  Qed.

  Lemma parse_union_good : forall ts, good (length ts) (parse_union T (S (length ts)) ts).
  Proof.
    intros ts. destruct (parse_loops_good (S (length ts))) as [Hc Hu].
    unfold parse_union. apply union_body_good with (n := S (length ts)); auto.
  Qed.

  (** No input makes the parser crash: flat tokens, value lists that satisfy the
      precondition of [Cursor], plain pattern strings. *)
  Theorem parse_tokens_total : forall ts, is_crash (parse_tokens T ts) = false.
  Proof.
    intros ts. unfold parse_tokens.
    pose proof (parse_union_good ts) as H.
    destruct (parse_union T (S (length ts)) ts) as [[u r]|e|k]; simpl in *; auto.
    - destruct r; reflexivity.
    - contradiction.
  Qed.

  Theorem parse_values_total : forall vs,
    values_pre vs = true -> is_crash (parse_values T vs) = false.
  Proof.
    intros vs H. unfold parse_values. rewrite H. apply parse_tokens_total.
  Qed.

  Theorem parse_string_total : forall s, is_crash (parse_string T s) = false.
  Proof. intros s. apply parse_values_total. reflexivity. Qed.

  (** Conversely the only crash of [parse] is the violated precondition of [Cursor]. *)
  Theorem parse_values_crash_iff : forall vs,
    is_crash (parse_values T vs) = negb (values_pre vs).
  Proof.
    intros vs. destruct (values_pre vs) eqn:E.
    - rewrite parse_values_total; auto.
    - unfold parse_values. rewrite E. reflexivity.
  Qed.
End WithTables.
