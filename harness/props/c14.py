"""C14 — XSD enforces the constraints a class declares itself (xsd/main.py)."""
from __future__ import annotations

import re
from typing import Any, Dict, List

from harness import lib
from harness.gen import xsd as gx

META = {
    "title": "XSD enforces the constraints a class declares itself",
    "design_ref": "§4 C13 / C14",
    "level_text": (
        "Coq theorems over a Gallina model of the facet emission (for every inferred length "
        "constraint the xs:minLength / xs:maxLength facets and the minOccurs / maxOccurs bounds "
        "admit exactly the lengths and list sizes the constraint admits; required / optional "
        "properties occur exactly once / at most once; the translated pattern is emitted as the "
        "pattern facet) and of the pattern translation (for every pattern of the accepted shape "
        "without inner anchors a string that breaks the pattern is rejected), instantiated with "
        "_PRIMITIVE_MAP, the occurrence defaults and the renderer tables re-translated from the "
        "source on every run. The facet model is compared inside Coq with the facets found in the "
        "real schema.xsd of generated meta-models; the property itself is run on the real "
        "artefacts: SDK-written documents with one value breaking one length / pattern / list-size "
        "constraint inferred for the property's own class (or its constrained primitive), and "
        "documents with an unknown, misplaced or missing required element, must be rejected by an "
        "independent XSD validator."
    ),
    "level_note": (
        "Partial: the group / choice structure is exercised, not modelled; tightenings applied "
        "by descendants to inherited properties are excluded by design; the greenery merge of "
        "several patterns is third-party. Known exclusion (refuted theorem): anchors inside a "
        "pattern are dropped, which widens the pattern."
    ),
    "technique": "Coq proof (case analysis on the facets, nested induction for patterns) + in-Coq "
                 "correspondence check + single-constraint mutant oracle on generated schemas",
}
GEN = ["GenXsd", "GenRetreeTables"]
MODEL = ["Model/XsdPattern", "Model/XsdGen", "Gen/GenXsd", "Gen/GenRetreeTables"]
TRUSTED = [
    "Model/XsdGen.v is a hand-written model of the facet emission in xsd/main.py "
    "(_translate_to_simple_type, minOccurs/maxOccurs) — correspondence-checked against the "
    "generated schemas on every run",
    "infer_for_schema (property C15) as the definition of 'inferred constraint'",
    "xmlschema 4.x (XMLSchema10 / XMLSchema11) as XSD validator; the generated Python SDK as "
    "writer of the documents; Model/RegexSem.v as reading of both regex dialects",
    "harness/translate/xsd.py via Python's ast",
]
RULE = ("meta-models: seeded generator (mmgen tiny/small/medium, hostile patterns injected into "
        "every second model); per valid SDK-written document up to 6 object-level mutants (one "
        "value set to a violating one: string / bytes length min-1 / max+1 keeping the pattern, a "
        "pattern-violating neighbour of the value within the length bounds, list size min-1 / "
        "max+1; hand-built 'sites' models as in C13 (shared constrained primitive with different "
        "site-specific tightenings in three definition orders, lists over class hierarchies); "
        "multi-pattern stream: hand-built models where one value carries 3-4 patterns "
        "(class invariant + 2-4 levels of constrained primitives, declared in topological, "
        "reversed or random order) and length bounds from two levels, expectations from the "
        "construction, one mutant per single pattern / bound) and 3 XML-level mutants (unknown element, two different siblings swapped, a "
        "required property removed); distinct by (model, class, kind); patterns as in C13")


def pattern_oracle(ctx, results: List[Dict[str, Any]]) -> Dict[str, int]:
    stats = {"accepted_shape": 0, "strings": 0, "inner_anchor_patterns": 0}
    buckets: Dict[str, List[Dict[str, Any]]] = {}
    for r in results:
        tree = (r.get("parse_orig") or {}).get("ok")
        if not gx.accepted_by_front_end(tree) or "ok" not in r["translate"]:
            continue
        stats["accepted_shape"] += 1
        inner = not gx.anchor_free_mid(tree)
        stats["inner_anchor_patterns"] += inner
        for s, pv, x10, x11 in r.get("verdicts") or []:
            stats["strings"] += 1
            if not pv and (x10 or x11):
                cat = "inner-anchor-dropped" if inner else "pattern-accepts-invalid-value"
                buckets.setdefault(cat, []).append(dict(r, witness=s))
                break
    for cat, rs in buckets.items():
        cands = [r["pattern"] for r in rs]
        wit = next((p for p in gx.CORPUS_PATTERNS if p in cands), None)
        r = next((x for x in rs if x["pattern"] == wit), min(rs, key=lambda x: len(x["pattern"])))
        key = cat if cat == "inner-anchor-dropped" else \
            f"{cat}:{wit if wit else 'h' + lib.stable_key(r['pattern'])}"
        ctx.impl_failure(
            key, f"the emitted pattern accepts a string that the meta-model pattern rejects "
                 f"({len(rs)} patterns in this run)",
            {"pattern": r["pattern"], "string": r["witness"]}, {"translate": r["translate"]},
            "patterns",
            f"PYTHONPATH={lib.REPO} {lib.PY} -c \"import re; from aas_core_codegen.xsd import main as m; "
            f"p={r['pattern']!r}; print(m._translate_pattern(p), re.match(p, {r['witness']!r}))\"")
    return stats


def model_oracle(ctx, models, results) -> Dict[str, Any]:
    stats: Dict[str, Any] = {"models": len(models), "documents": 0, "mutants": {}, "skipped": 0}
    nontrivial = []
    for m, res in zip(models, results):
        stage = res.get("stage")
        if stage == "frontend" and (res.get("frontend") or {}).get("status") == "rejected":
            # the generated model is not accepted by the front end: outside the quantifier
            stats["frontend_rejected"] = stats.get("frontend_rejected", 0) + 1
            if stats["frontend_rejected"] > max(2, len(models) // 2):
                raise lib.HarnessError(f"too many generated models rejected: {str(res)[:800]}")
            continue
        if stage in ("adapter-exception", "harness-exception", "frontend", "sdk-import"):
            raise lib.HarnessError(f"model stream broke at stage {stage}: {str(res)[:1500]}")
        x = res.get("xsd") or {}
        if stage == "xsd" and x.get("exception") is not None:
            ctx.impl_failure(f"xsd-generator-raises-{gx.exception_site(x['exception'])}",
                             "the XSD generator raises on an accepted meta-model (no schema to "
                             "enforce anything)", {"model_index": m["index"], "profile": m["profile"],
                                                   "model_text": m["text"]}, x["exception"], "models",
                             "harness/gen/xsd.py:gen_models / gen_sites_models (same VERIF_SEED)")
            continue
        if stage != "done":
            stats["skipped"] += 1     # generation / schema validity is C13's business
            continue
        st = res.get("stats") or {}
        stats["documents"] += res.get("docs", 0)
        for k, v in (st.get("mutants") or {}).items():
            stats["mutants"][k] = stats["mutants"].get(k, 0) + v
            nontrivial.append((m["index"], k))
        seen = set()
        for mf in res.get("mutant_fail") or []:
            cat = f"mutant-accepted-{mf['kind']}"
            if cat in seen:
                continue
            seen.add(cat)
            ctx.impl_failure(
                cat, f"a document with one {mf['kind']} violation is accepted by the generated schema",
                {"model_index": m["index"], "profile": m["profile"], "seed": m["seed"],
                 "cls": mf.get("cls"), "where": mf.get("where"), "new_value": mf.get("new_value"),
                 "document": mf.get("document"), "model_text": m["text"]},
                {"accepted_by": mf.get("accepted_by")}, "models",
                "regenerate with harness/gen/xsd.py:gen_models (same VERIF_SEED); model text and "
                "document are in the replay file")
    stats["nontrivial"] = nontrivial
    return stats


def chain_oracle(ctx, models, results) -> Dict[str, Any]:
    """Several patterns and length bounds on one value (class invariant + chain of
    constrained primitives, random declaration order); expectations from the spec."""
    stats: Dict[str, Any] = {"models": len(models), "valid_values": 0, "mutants": {},
                             "skipped": {}, "patterns_per_value": {}, "orders": {"topological": 0, "other": 0}}
    nontrivial = []
    for m, res in zip(models, results):
        stage = res.get("stage")
        spec = m["spec"]
        ident = {"model_index": m["index"], "spec": spec, "model_text": m["text"]}
        how = "harness/gen/xsd.py:gen_chain_models (same VERIF_SEED); the model text is in the replay file"
        if stage in ("adapter-exception", "harness-exception", "sdk-import"):
            raise lib.HarnessError(f"multi-pattern stream broke at stage {stage}: {str(res)[:1500]}")
        x = res.get("xsd") or {}
        if stage == "xsd" and x.get("exception") is not None:
            ctx.impl_failure(f"multi-pattern-xsd-generator-raises-{gx.exception_site(x['exception'])}",
                             "the XSD generator raises when one value carries several patterns",
                             ident, x["exception"], "multi-pattern", how)
            continue
        if stage == "xsd" and x.get("rc") != 0:
            ctx.impl_failure("multi-pattern-xsd-generator-refuses",
                             "the XSD generator refuses a meta-model in which one value carries "
                             "several patterns whose intersection greenery can render",
                             ident, " ".join((x.get("stderr") or "").split())[:400], "multi-pattern", how)
            continue
        if stage == "load-schema" and res.get("schema_errors"):
            ctx.impl_failure("multi-pattern-schema-invalid", "the generated schema is not a valid XML Schema",
                             ident, res["schema_errors"][:2], "multi-pattern", how)
            continue
        if stage != "done":
            stats["skipped"][stage] = stats["skipped"].get(stage, 0) + 1
            continue
        st = res.get("stats") or {}
        k = len(spec["patterns"])
        stats["patterns_per_value"][k] = stats["patterns_per_value"].get(k, 0) + 1
        names = ["Code", "Prefixed_code", "Product_code", "Special_product_code"][:spec["depth"]]
        stats["orders"]["topological" if spec["declaration_order"] == names else "other"] += 1
        stats["valid_values"] += st.get("valid_values", 0)
        for kind, v in (st.get("mutants") or {}).items():
            stats["mutants"][kind] = stats["mutants"].get(kind, 0) + v
            nontrivial.append(("chain", m["index"], kind))
        seen = set()
        for vf in res.get("valid_fail") or []:
            if vf["kind"] != "valid-value-rejected" or "valid" in seen:
                continue
            seen.add("valid")
            ctx.impl_failure("multi-pattern-valid-value-rejected",
                             "a value satisfying all the patterns and length bounds (and the SDK's "
                             "verification) is rejected by the generated schema (property C13, found "
                             "by the multi-pattern stream)", dict(ident, value=vf["value"],
                                                                 document=vf.get("document")),
                             {"pattern_facets": res.get("pattern_facets")}, "multi-pattern", how)
        for mf in res.get("mutant_fail") or []:
            cat = f"multi-pattern-mutant-accepted-{mf['kind']}"
            if cat in seen:
                continue
            seen.add(cat)
            ctx.impl_failure(cat, f"a value that breaks only {mf['violates']} of the "
                             f"{k} patterns / bounds on the value is accepted by the generated schema",
                             dict(ident, value=mf["value"], document=mf["document"]),
                             {"accepted_by": mf["accepted_by"], "pattern_facets": res.get("pattern_facets"),
                              "length_facets": res.get("length_facets")}, "multi-pattern", how)
    stats["nontrivial"] = nontrivial
    return stats


def streams(ctx: lib.Ctx) -> None:
    results = gx.pattern_stream(ctx, ctx.n(120, 600), ctx.n(20, 30))
    pstats = pattern_oracle(ctx, results)
    nontriv = [r["pattern"] for r in results if re.search(r"\\[xuU]|\[|[*+?{]", r["pattern"])]
    ctx.count("patterns", len(results) + pstats["strings"], nontrivial_keys=nontriv,
              validated=len(results), **pstats)

    models = gx.gen_models(ctx.rng, ctx.n(5, 14), inject_share=0.4)
    cmodels = gx.gen_chain_models(ctx.rng, ctx.n(6, 16))
    models += gx.gen_sites_models(ctx.rng, ctx.n(3, 6))
    import concurrent.futures
    with concurrent.futures.ThreadPoolExecutor(max_workers=1) as side:
        # both streams are bound by subprocesses (real CLI runs): overlap them
        cfuture = side.submit(gx.run_chain_models, cmodels, ctx.n(10, 20))
        mres = gx.run_models(models, n_docs=ctx.n(40, 50), mutants_per_doc=6)
        cres = cfuture.result()
    mstats = model_oracle(ctx, models, mres)
    nontrivial = mstats.pop("nontrivial")
    fstats = gx.facet_stream(ctx, mres)
    ctx.count("models", sum(mstats["mutants"].values()), nontrivial_keys=nontrivial,
              validated=sum(mstats["mutants"].values()), **mstats)
    ctx.count("facets", sum(fstats.values()), validated=sum(fstats.values()), **fstats)
    cstats = chain_oracle(ctx, cmodels, cres)
    cnontrivial = cstats.pop("nontrivial")
    ctx.count("multi-pattern", cstats["valid_values"] + sum(cstats["mutants"].values()),
              nontrivial_keys=cnontrivial, validated=cstats["valid_values"] + sum(cstats["mutants"].values()),
              **cstats)
    if cmodels:
        ctx.sample({"multi_pattern_spec": {k: cmodels[0]["spec"][k] for k in
                                           ("patterns", "min", "max", "declaration_order")},
                    "emitted": (cres[0].get("pattern_facets"), cres[0].get("length_facets"))})
    for res in mres[:3]:
        for mf in (res.get("mutant_fail") or [])[:1]:
            ctx.sample({"mutant": mf["kind"], "where": mf["where"]})
    ctx.sample({"mutant_kinds": mstats["mutants"]})
    ctx.coverage["exhaustive"] = False
