(** C18 — top level: the program [comp_regex r] accepts exactly the words matched by an
    anchored pattern [^ mid $] (words without line breaks). *)
From Coq Require Import List NArith Bool Arith Lia Setoid.
From Acg Require Import Base.Outcome Model.RevmTree Model.Revm Model.RevmVM Model.RevmComp Model.RevmShape
  Proofs.RevmFrag Proofs.RevmCompCorrect.
Import ListNotations.

(** ** no [match] inside compiled fragments *)
Definition nomatch (c : list instr) : Prop := forall ins, In ins c -> ins <> IMatch.

Lemma nomatch_nil : nomatch [].
Proof. intros ins H. destruct H. Qed.
Lemma nomatch_app : forall a b, nomatch a -> nomatch b -> nomatch (a ++ b).
Proof. intros a b Ha Hb ins H. apply in_app_or in H. destruct H; [apply Ha|apply Hb]; assumption. Qed.
Lemma nomatch_cons : forall x c, x <> IMatch -> nomatch c -> nomatch (x :: c).
Proof. intros x c Hx Hc ins [H|H]; [subst; exact Hx|apply Hc; exact H]. Qed.

Section QuantNoMatch.
  Variable body : nat -> list instr.
  Variable blen : nat.
  Hypothesis Hb : forall a, nomatch (body a).

  Lemma copies_nomatch : forall k a, nomatch (copies body blen k a).
  Proof.
    induction k as [|k IH]; intros a; cbn [copies]; [apply nomatch_nil|].
    apply nomatch_app; [apply Hb|apply IH].
  Qed.
  Lemma optionals_nomatch : forall k final a, nomatch (optionals body blen k final a).
  Proof.
    induction k as [|k IH]; intros final a; cbn [optionals]; [apply nomatch_nil|].
    apply nomatch_cons; [discriminate|]. apply nomatch_app; [apply Hb|apply IH].
  Qed.
  Lemma comp_quant_nomatch : forall q a, nomatch (comp_quant body blen q a).
  Proof.
    intros q a. unfold comp_quant.
    destruct (Nat.eqb (q_min q) 1 && match q_max q with Some 1 => true | _ => false end);
      [apply Hb|].
    destruct (q_max q) as [mx|].
    - apply nomatch_app; [apply copies_nomatch|apply optionals_nomatch].
    - destruct (q_min q) as [|m].
      + apply nomatch_cons; [discriminate|]. apply nomatch_app; [apply Hb|].
        apply nomatch_cons; [discriminate|apply nomatch_nil].
      + apply nomatch_app; [apply copies_nomatch|]. apply nomatch_app; [apply Hb|].
        apply nomatch_cons; [discriminate|apply nomatch_nil].
  Qed.
End QuantNoMatch.

Lemma comp_nomatch :
  (forall v a, nomatch (comp_v v a))
  /\ (forall t a, nomatch (comp_t t a))
  /\ (forall c a, nomatch (comp_c c a))
  /\ (forall u final a, nomatch (comp_alts u final a)).
Proof.
  apply tree_mutind.
  - intros s a. destruct s; cbn [comp_v]; try apply nomatch_nil;
      (apply nomatch_cons; [discriminate|apply nomatch_nil]).
  - intros c a. apply nomatch_cons; [discriminate|apply nomatch_nil].
  - intros compl rs a. apply nomatch_cons; [|apply nomatch_nil].
    unfold set_instr. destruct compl; discriminate.
  - intros u IH a. cbn [comp_v]. rewrite comp_u_alts. apply IH.
  - intros v IHv q a. destruct q as [q|]; cbn [comp_t]; [|apply IHv].
    apply comp_quant_nomatch. exact IHv.
  - intros a. apply nomatch_nil.
  - intros t IHt c IHc a. cbn [comp_c]. apply nomatch_app; [apply IHt|apply IHc].
  - intros final a. apply nomatch_nil.
  - intros c IHc u IHu final a. destruct u as [|c2 u2].
    + cbn [comp_alts]. apply IHc.
    + change (comp_alts (UCons c (UCons c2 u2)) final a)
        with (ISplit (S a) (a + S (S (clen c))) :: comp_c c (S a)
                ++ IJump final :: comp_alts (UCons c2 u2) final (a + S (S (clen c)))).
      apply nomatch_cons; [discriminate|]. apply nomatch_app; [apply IHc|].
      apply nomatch_cons; [discriminate|apply IHu].
Qed.

(** ** lists of terms *)
Fixpoint dts (w : list N) (ts : list term) : rel :=
  match ts with
  | [] => rid
  | t :: r => rseq (dt w t) (dts w r)
  end.

Fixpoint tslen (ts : list term) : nat :=
  match ts with [] => 0 | t :: r => tlen t + tslen r end.

Lemma dc_dts : forall w c i j, dc w c i j <-> dts w (terms_of c) i j.
Proof.
  intros w c. induction c as [|t c IH]; intros i j; cbn [dc terms_of dts]; [reflexivity|].
  unfold rseq. split; intros [m [H1 H2]]; exists m; (split; [exact H1|apply IH; exact H2]).
Qed.

Lemma dts_app : forall w l1 l2 i j,
  dts w (l1 ++ l2) i j <-> exists m, dts w l1 i m /\ dts w l2 m j.
Proof.
  intros w l1. induction l1 as [|t r IH]; intros l2 i j; cbn [app dts].
  - unfold rid. split.
    + intros H. exists i. split; [reflexivity|exact H].
    + intros [m [H1 H2]]. subst. exact H2.
  - unfold rseq. split.
    + intros [m [H1 H2]]. apply IH in H2. destruct H2 as [k [K1 K2]].
      exists k. split; [exists m; split; assumption|exact K2].
    + intros [k [[m [H1 H2]] K2]]. exists m. split; [exact H1|]. apply IH.
      exists k. split; assumption.
Qed.

Lemma comp_terms_length : forall ts a, length (comp_terms ts a) = tslen ts.
Proof.
  induction ts as [|t r IH]; intros a; cbn [comp_terms tslen]; [reflexivity|].
  rewrite app_length, comp_t_length, IH. reflexivity.
Qed.

Lemma comp_terms_nomatch : forall ts a, nomatch (comp_terms ts a).
Proof.
  induction ts as [|t r IH]; intros a; cbn [comp_terms]; [apply nomatch_nil|].
  apply nomatch_app; [apply (proj1 (proj2 comp_nomatch))|apply IH].
Qed.

Lemma comp_terms_frag : forall p w, no_linebreak w -> forall ts a,
  forallb okt ts = true -> at_off p a (comp_terms ts a) ->
  frag p w a (a + tslen ts) (dts w ts).
Proof.
  intros p w Hnl ts. induction ts as [|t r IH]; intros a Hok Hat.
  - cbn [tslen dts]. replace (a + 0) with a by lia. apply frag_id.
  - cbn [forallb] in Hok. apply andb_prop in Hok. destruct Hok as [Ht Hr].
    cbn [comp_terms] in Hat. apply at_off_app in Hat. destruct Hat as [H1 H2].
    rewrite comp_t_length in H2. cbn [tslen dts].
    apply frag_seq with (b := a + tlen t); [| |lia|lia].
    + apply (proj1 (proj2 (comp_frag p w Hnl))); assumption.
    + replace (a + (tlen t + tslen r)) with (a + tlen t + tslen r) by lia. apply IH; assumption.
Qed.

(** ** programs [body ++ [match]] *)
Lemma at_off_self : forall c rest, at_off (c ++ rest) 0 c.
Proof.
  intros c rest k ins Hk. cbn. rewrite nth_error_app1; [exact Hk|].
  apply nth_error_Some. congruence.
Qed.

Lemma body_match_accepts : forall w bt R,
  no_linebreak w -> forallb okt bt = true -> R = dts w bt ->
  (vm_accepts (comp_terms bt 0 ++ [IMatch]) w <-> exists j, R 0 j /\ j <= length w).
Proof.
  intros w bt R Hnl Hok HR. subst R.
  set (code := comp_terms bt 0). set (p := code ++ [IMatch]).
  assert (Hfr : frag p w 0 (0 + tslen bt) (dts w bt)).
  { apply comp_terms_frag; [exact Hnl|exact Hok|apply at_off_self]. }
  assert (Hlen : length code = tslen bt) by apply comp_terms_length.
  assert (HM : nth_error p (tslen bt) = Some IMatch).
  { unfold p. rewrite nth_error_app2 by lia. rewrite Hlen, Nat.sub_diag. reflexivity. }
  destruct Hfr as [Hs Hc]. cbn [Nat.add] in *. split.
  - intros [n [pc [i [Hrun Hpc]]]].
    assert (Hout : ~ (0 <= pc < tslen bt)).
    { intros [_ Hlt]. unfold p in Hpc. rewrite nth_error_app1 in Hpc by lia.
      apply nth_error_In in Hpc. exact (comp_terms_nomatch bt 0 _ Hpc eq_refl). }
    destruct (Hc _ _ _ _ Hrun Hout) as [j [n1 [n2 [H1 _]]]].
    exists j. split; [exact H1|].
    destruct (Hs _ _ H1) as [k Hk]. pose proof (steps_pos_bound _ _ _ _ _ Hk) as Hb. cbn in Hb. lia.
  - intros [j [Hj _]]. destruct (Hs _ _ Hj) as [n Hn].
    exists n, (tslen bt), j. split; [exact Hn|exact HM].
Qed.

(** ** the anchors and the [.*$] suffix *)
Lemma rpow_dot_to_end : forall w, no_linebreak w -> forall n j,
  j + n = length w -> rpow (dsym w SDot) n j (length w).
Proof.
  intros w Hnl n. induction n as [|n IH]; intros j Hj; cbn [rpow].
  - lia.
  - exists (S j). split; [|apply IH; lia]. cbn [dsym]. split; [reflexivity|].
    destruct (nth_error w j) as [c|] eqn:E.
    + exists c. split; [reflexivity|]. intros Hc. subst. apply Hnl. eapply nth_error_In. exact E.
    + apply nth_error_None in E. lia.
Qed.

Lemma dot_star_spec : forall w x, no_linebreak w -> is_dot_star x = true ->
  forall j k, k = length w -> (dt w x j k <-> j <= length w).
Proof.
  intros w x Hnl Hx j k Hk. subst k. unfold is_dot_star in Hx.
  destruct x as [v q]. destruct v as [s| | |]; try discriminate. destruct s; try discriminate.
  destruct q as [q|]; [|discriminate]. apply andb_prop in Hx. destruct Hx as [Hmin Hmax].
  apply Nat.eqb_eq in Hmin. destruct (q_max q) eqn:Emax; [discriminate|].
  cbn [dt dv]. unfold rrep. rewrite Hmin, Emax. split.
  - intros [n [_ [_ Hn]]]. clear - Hn. revert j Hn. induction n as [|n IH]; intros j Hn; cbn [rpow] in Hn.
    + lia.
    + destruct Hn as [m [[Hm _] Hr]]. subst m. apply IH in Hr. lia.
  - intros Hj. exists (length w - j). split; [lia|]. split; [exact I|].
    apply rpow_dot_to_end; [exact Hnl|lia].
Qed.

Lemma list_last_cases : forall (A : Type) (l : list A), l = [] \/ exists l' x, l = l' ++ [x].
Proof.
  intros A l. induction l as [|x l' _] using rev_ind; [left; reflexivity|].
  right. exists l', x. reflexivity.
Qed.

Lemma body_terms_nil : forall c,
  terms_of c = [t_start; t_end] -> body_terms (UCons c UNil) = [t_end].
Proof. intros c H. unfold body_terms. rewrite H. reflexivity. Qed.

Lemma body_terms_snoc : forall c mid' x,
  terms_of c = t_start :: (mid' ++ [x]) ++ [t_end] ->
  body_terms (UCons c UNil) = if is_dot_star x then mid' else (mid' ++ [x]) ++ [t_end].
Proof.
  intros c mid' x H. unfold body_terms. rewrite H. cbn [tl length].
  rewrite !app_length. cbn [length].
  replace (S (length mid' + 1 + 1) - 2) with (S (length mid')) by lia.
  assert (Hn : nth (S (length mid')) (t_start :: (mid' ++ [x]) ++ [t_end]) (Term (VSym SEnd) None) = x).
  { cbn [nth]. rewrite <- app_assoc. cbn [app]. apply nth_middle. }
  rewrite Hn. replace (length mid' + 1 + 1) with (S (S (length mid'))) by lia.
  cbn [Nat.leb andb].
  destruct (is_dot_star x); [|reflexivity].
  unfold drop_last2. rewrite !app_length. cbn [length].
  replace (length mid' + 1 + 1 - 2) with (length mid') by lia.
  rewrite <- app_assoc. rewrite firstn_app, firstn_all, Nat.sub_diag. cbn. apply app_nil_r.
Qed.

Lemma dt_start : forall w j, dt w t_start 0 j <-> j = 0.
Proof. intros w j. cbn. split; [intros [_ H]; exact H|intros H; split; [reflexivity|exact H]]. Qed.

Lemma dts_end : forall w, no_linebreak w -> forall i j,
  dts w [t_end] i j <-> (j = i /\ i = length w).
Proof.
  intros w Hnl i j. cbn [dts]. unfold rseq, rid. cbn [dt dv dsym]. split.
  - intros [m [[Hm He] Hj]]. subst. apply (at_end_iff w Hnl) in He. split; [reflexivity|exact He].
  - intros [Hj Hi]. exists i. split; [split; [reflexivity|apply (at_end_iff w Hnl); exact Hi]|exact Hj].
Qed.

(** the semantic theorem for the label-free compilation *)
Theorem comp_regex_correct : forall c mid w,
  terms_of c = t_start :: mid ++ [t_end] -> forallb okt mid = true -> no_linebreak w ->
  (vm_accepts (comp_regex (UCons c UNil)) w <-> matches w (UCons c UNil)).
Proof.
  intros c mid w Hts Hok Hnl.
  assert (Hm : matches w (UCons c UNil) <-> dts w (mid ++ [t_end]) 0 (length w)).
  { unfold matches. change (du w (UCons c UNil) 0 (length w)) with (dc w c 0 (length w)).
    rewrite dc_dts, Hts. cbn [dts]. unfold rseq. split.
    - intros [m [H1 H2]]. apply dt_start in H1. subst. exact H2.
    - intros H. exists 0. split; [apply dt_start; reflexivity|exact H]. }
  rewrite Hm. clear Hm. unfold comp_regex.
  destruct (list_last_cases _ mid) as [Hnil|[mid' [x Hmid]]].
  - subst mid. cbn [app] in *. rewrite (body_terms_nil c Hts).
    rewrite (body_match_accepts w [t_end] _ Hnl eq_refl eq_refl).
    split.
    + intros [j [Hj _]]. apply (dts_end w Hnl) in Hj. destruct Hj as [Hj H0]. subst j.
      rewrite <- H0. apply (dts_end w Hnl). split; [reflexivity|exact H0].
    + intros H. exists (length w). split; [exact H|lia].
  - subst mid. rewrite (body_terms_snoc c mid' x Hts).
    rewrite forallb_app in Hok. apply andb_prop in Hok. destruct Hok as [Hok' Hx].
    destruct (is_dot_star x) eqn:Eds.
    + rewrite (body_match_accepts w mid' _ Hnl Hok' eq_refl).
      rewrite <- app_assoc. cbn [app]. rewrite dts_app. split.
      * intros [j [Hj Hle]]. exists j. split; [exact Hj|]. cbn [dts]. unfold rseq.
        exists (length w). split; [apply (dot_star_spec w x Hnl Eds); [reflexivity|exact Hle]|].
        apply (dts_end w Hnl (length w) (length w)). split; reflexivity.
      * intros [j [Hj Hrest]]. exists j. split; [exact Hj|]. cbn [dts] in Hrest.
        destruct Hrest as [k [Hk Hend]]. apply (dts_end w Hnl) in Hend. destruct Hend as [_ Hk'].
        apply (dot_star_spec w x Hnl Eds j k Hk'). exact Hk.
    + assert (Hok2 : forallb okt ((mid' ++ [x]) ++ [t_end]) = true).
      { rewrite !forallb_app, Hok', Hx. reflexivity. }
      rewrite (body_match_accepts w _ _ Hnl Hok2 eq_refl). split.
      * intros [j [Hj _]]. assert (Hj' := Hj). apply dts_app in Hj'.
        destruct Hj' as [m [_ He]]. apply (dts_end w Hnl) in He. destruct He as [E1 E2].
        subst. exact Hj.
      * intros H. exists (length w). split; [exact H|lia].
Qed.
