(** C24 — Model cache survives crashes and concurrent runs.

    Theorems over the transition system [Model/CacheConc.v] of the cache protocol of
    [run.load_model]: arbitrary schedules [list (pid * event)] over an unbounded number
    of processes, with [Crash] and [Fail] enabled at every program counter, for ALL
    front ends / hash functions / picklers / uuid sources satisfying [third_party].
    The order of the file-system operations in the source is re-translated on every run
    ([Gen/GenCacheOps.v]) and compared with the model's program. Statements, [exact]s,
    [vm_compute]s and [Print Assumptions] only. *)
From Coq Require Import List NArith Bool Arith.
From Acg Require Import Base.Str Model.Cache Model.CacheConc Proofs.CacheFmap Proofs.CacheConcFacts
                        Gen.GenCacheOps.
Import ListNotations.

(** Third-party behaviour assumed by every theorem: pickle/unpickle are an inverse
    pair; sha256 is injective on the texts of the processes; uuid4 never repeats. *)
Definition third_party (M : Type) (sha : text -> text) (pickle : M -> bytes)
    (unpickle : bytes -> option M) (uuid : nat -> text) (txt : pid -> text) : Prop :=
  (forall m : M, unpickle (pickle m) = Some m)
  /\ (forall p q : pid, sha (txt p) = sha (txt q) -> txt p = txt q)
  /\ (forall i j : nat, uuid i = uuid j -> i = j).

(** * The invariant holds initially and after every schedule *)
Theorem C24_inv_init :
  forall M E parse sha pickle uuid txt (w : world),
    (forall h c, lookup (PCache h) (files w) = Some c -> good_entry M E parse sha pickle txt h c) ->
    (forall h u, lookup (PTmp h u) (files w) = None) ->
    Inv M E parse sha pickle uuid txt (init_state w).
Proof. exact inv_init. Qed.
Print Assumptions C24_inv_init.

Theorem C24_sched_inv :
  forall M E parse sha pickle unpickle uuid txt flg,
    third_party M sha pickle unpickle uuid txt ->
    forall (sched : list (pid * event)) (s : state M E),
      Inv M E parse sha pickle uuid txt s ->
      Inv M E parse sha pickle uuid txt (run M E parse sha pickle unpickle uuid txt flg sched s).
Proof.
  intros M E parse sha pickle unpickle uuid txt flg [H1 [H2 H3]].
  exact (sched_inv M E parse sha pickle unpickle uuid txt flg H1 H2 H3).
Qed.
Print Assumptions C24_sched_inv.

(** * No reader ever holds a partially written or a foreign entry *)
Theorem C24_reader_never_partial :
  forall M E parse sha pickle unpickle uuid txt flg,
    third_party M sha pickle unpickle uuid txt ->
    forall sched (s : state M E) p c,
      Inv M E parse sha pickle uuid txt s ->
      ppc (procs (run M E parse sha pickle unpickle uuid txt flg sched s) p) = PcLoad c ->
      exists m, parse (txt p) = ROk m /\ c = pickle m /\ load_result M E unpickle c = ROk m.
Proof.
  intros M E parse sha pickle unpickle uuid txt flg [H1 [H2 H3]].
  exact (reader_never_partial M E parse sha pickle unpickle uuid txt flg H1 H2 H3).
Qed.
Print Assumptions C24_reader_never_partial.

(** * Every run that completes returns the uncached result *)
Theorem C24_completed_run_result :
  forall M E parse sha pickle unpickle uuid txt flg,
    third_party M sha pickle unpickle uuid txt ->
    forall sched (s : state M E) p r,
      Inv M E parse sha pickle uuid txt s ->
      no_inj M E parse txt s p ->
      (forall e, In (p, e) sched -> e <> Fail) ->
      ppc (procs (run M E parse sha pickle unpickle uuid txt flg sched s) p) = PcDone r ->
      r = parse (txt p).
Proof.
  intros M E parse sha pickle unpickle uuid txt flg [H1 [H2 H3]].
  exact (completed_run_result_nofail M E parse sha pickle unpickle uuid txt flg H1 H2 H3).
Qed.
Print Assumptions C24_completed_run_result.

(** ... and a process into which a failure was injected ends with that failure or
    with the uncached result, never with anything else *)
Theorem C24_completed_or_injected :
  forall M E parse sha pickle unpickle uuid txt flg,
    third_party M sha pickle unpickle uuid txt ->
    forall sched (s : state M E) p r,
      Inv M E parse sha pickle uuid txt s ->
      ppc (procs (run M E parse sha pickle unpickle uuid txt flg sched s) p) = PcDone r ->
      r = parse (txt p) \/ r = RCrash Injected.
Proof.
  intros M E parse sha pickle unpickle uuid txt flg [H1 [H2 H3]].
  exact (completed_run_result M E parse sha pickle unpickle uuid txt flg H1 H2 H3).
Qed.
Print Assumptions C24_completed_or_injected.

(** * A crash leaves at most temporary files *)
Theorem C24_crash_leaves_only_tmps :
  forall M E parse sha pickle unpickle uuid txt flg,
    third_party M sha pickle unpickle uuid txt ->
    forall sched (s : state M E) x c,
      Inv M E parse sha pickle uuid txt s ->
      lookup x (files (sw (run M E parse sha pickle unpickle uuid txt flg sched s))) = Some c ->
      (exists h, x = PCache h /\ good_entry M E parse sha pickle txt h c)
      \/ (exists h u p m k,
            x = PTmp h u
            /\ owns (ppc (procs (run M E parse sha pickle unpickle uuid txt flg sched s) p)) = Some u
            /\ finished (procs (run M E parse sha pickle unpickle uuid txt flg sched s) p) = false
            /\ h = sha (txt p) /\ parse (txt p) = ROk m /\ c = firstn k (pickle m)).
Proof.
  intros M E parse sha pickle unpickle uuid txt flg [H1 [H2 H3]].
  exact (crash_leaves_only_tmps M E parse sha pickle unpickle uuid txt flg H1 H2 H3).
Qed.
Print Assumptions C24_crash_leaves_only_tmps.

Theorem C24_quiescent_tmps_crashed :
  forall M E parse sha pickle unpickle uuid txt flg,
    third_party M sha pickle unpickle uuid txt ->
    forall sched (s : state M E) h u c,
      Inv M E parse sha pickle uuid txt s ->
      (forall p, finished (procs (run M E parse sha pickle unpickle uuid txt flg sched s) p) = true
                 \/ dead (procs (run M E parse sha pickle unpickle uuid txt flg sched s) p) = true) ->
      lookup (PTmp h u) (files (sw (run M E parse sha pickle unpickle uuid txt flg sched s))) = Some c ->
      exists p, owns (ppc (procs (run M E parse sha pickle unpickle uuid txt flg sched s) p)) = Some u
                /\ dead (procs (run M E parse sha pickle unpickle uuid txt flg sched s) p) = true.
Proof.
  intros M E parse sha pickle unpickle uuid txt flg [H1 [H2 H3]].
  exact (quiescent_tmps_crashed M E parse sha pickle unpickle uuid txt flg H1 H2 H3).
Qed.
Print Assumptions C24_quiescent_tmps_crashed.

(** temporary names never collide with cache-entry names, and file names determine
    the abstract path (hex digests contain no dot) *)
Theorem C24_tmp_name_not_cache_name : forall h u h', render (PTmp h u) <> render (PCache h').
Proof. exact render_tmp_ne_cache. Qed.
Print Assumptions C24_tmp_name_not_cache_name.

(** * Later runs ignore stray temporary files *)

(** Full statement as designed (for every pc, with no side condition):
      agree_for t q w1 w2 -> pstep gives the same pc, the same events and agreeing worlds.
    It is false at [PcCreate] when the cache directory does not exist
    ([tmp_ignored_later_original_false]); that state is unreachable ([Inv] gives
    [cdir = true] at [PcCreate]). Proved with that side condition: *)
Theorem C24_tmp_ignored_later :
  forall M E parse sha pickle unpickle uuid t f n (q : pc M E) w1 w2,
    agree_for M E sha t q w1 w2 ->
    (forall m, q = PcCreate m ->
       cdir w1 = true
       \/ lookup (PTmp (sha t) (uuid (next w1))) (files w1)
          = lookup (PTmp (sha t) (uuid (next w1))) (files w2)) ->
    let '(w1', q1, ev1) := pstep M E parse sha pickle unpickle uuid t f n w1 q in
    let '(w2', q2, ev2) := pstep M E parse sha pickle unpickle uuid t f n w2 q in
    q1 = q2 /\ ev1 = ev2 /\ agree_for M E sha t q1 w1' w2'.
Proof. exact tmp_ignored_later. Qed.
Print Assumptions C24_tmp_ignored_later.

Theorem C24_later_run_completes :
  forall M E parse sha pickle unpickle uuid txt flg,
    third_party M sha pickle unpickle uuid txt ->
    forall (s : state M E) p n,
      Inv M E parse sha pickle uuid txt s ->
      procs s p = PState PcStart false ->
      exists fuel,
        ppc (procs (solo M E parse sha pickle unpickle uuid txt flg fuel p n s) p)
        = PcDone (parse (txt p)).
Proof.
  intros M E parse sha pickle unpickle uuid txt flg [H1 [H2 H3]].
  exact (later_run_completes M E parse sha pickle unpickle uuid txt flg H1 H2 H3).
Qed.
Print Assumptions C24_later_run_completes.

(** * The program of the model is the program of the source (generated obligation) *)
Definition op_code (o : fop) : option N :=
  match o with
  | OpExists OCache false => Some 1%N
  | OpOpenR OCache false => Some 2%N
  | OpPickleLoad false => Some 3%N
  | OpMkdir ODir false => Some 4%N
  | OpOpenW OTmp false => Some 5%N
  | OpPickleDump false => Some 6%N
  | OpCloseWith false => Some 7%N
  | OpRename OTmp OCache false => Some 8%N
  | OpUnlink OTmp true true => Some 9%N     (* missing_ok=True, inside the finally *)
  | OpCloseRead false => None               (* closing the read handle: no effect on the directory *)
  | OpTry | OpFinally | OpEndTry | OpIf | OpElse | OpEndIf | OpReturn => None
  | _ => Some 99%N
  end.
Definition ev_code (e : fsev) : N :=
  match e with
  | EvExists (PCache _) => 1 | EvOpenR (PCache _) => 2 | EvReadAll (PCache _) => 3
  | EvMkdir => 4 | EvOpenW (PTmp _ _) => 5 | EvWrite (PTmp _ _) => 6 | EvClose (PTmp _ _) => 7
  | EvRename (PTmp _ _) (PCache _) => 8 | EvUnlink (PTmp _ _) => 9
  | _ => 98
  end%N.
Fixpoint codes (l : list fop) : list N :=
  match l with
  | [] => []
  | o :: r => match op_code o with Some c => c :: codes r | None => codes r end
  end.
(** everything from opening the temporary file to the rename lies inside the [try],
    and the [finally] consists of exactly the unlink *)
Fixpoint after_finally (l : list fop) : list fop :=
  match l with [] => [] | OpFinally :: r => r | _ :: r => after_finally r end.
Fixpoint upto_try (l : list fop) : list fop :=
  match l with [] => [] | OpTry :: _ => [] | o :: r => o :: upto_try r end.
Definition toy_run (w : world) :=
  load_model N N (fun _ => ROk 1%N) (fun t => t) (fun m => [m])
             (fun c => match c with [m] => Some m | _ => None end) (fun _ => [7%N]) true [5%N] w.
Definition cold_trace : list fsev := snd (toy_run empty_world).
Definition warm_trace : list fsev := snd (toy_run (snd (fst (toy_run empty_world)))).

Theorem C24_gen_program_matches :
  list_eqb N.eqb (codes read_branch) (map ev_code warm_trace) = true
  /\ list_eqb N.eqb (firstn 1 (codes read_branch) ++ codes write_branch) (map ev_code cold_trace) = true
  /\ list_eqb N.eqb (codes (upto_try write_branch)) [4%N] = true
  /\ list_eqb N.eqb (codes (after_finally write_branch)) [9%N] = true
  /\ match tmp_source with TmpUuidSuffix => true | _ => false end = true.
Proof. vm_compute. repeat split; reflexivity. Qed.
Print Assumptions C24_gen_program_matches.

(** * Non-vacuity: three processes, two texts; process 0 crashes between its write and
    its rename, process 1 (same text) overtakes it and completes, process 2 (other
    text) has a failure injected during its dump. The schedule is interleaved. *)
Local Open Scope nat_scope.
Definition ex_parse (t : text) : result N N := match t with [n] => ROk n | _ => RErr 0%N end.
Definition ex_sha (t : text) : text := 104%N :: t.
Definition ex_pickle (m : N) : bytes := [m; m; m].
Definition ex_unpickle (c : bytes) : option N :=
  match c with [a; b; d] => if (N.eqb a b && N.eqb b d)%bool then Some a else None | _ => None end.
Definition ex_uuid (i : nat) : text := [N.of_nat i].
Definition ex_txt (p : pid) : text := match p with 2 => [8%N] | _ => [5%N] end.
Definition ex_flg (p : pid) : bool := true.
Definition ex_sched : list (pid * event) :=
  [(0, Step 0); (1, Step 0); (0, Step 0); (0, Step 0); (2, Step 0); (0, Step 0);   (* 0: exists, parse, mkdir, create *)
   (0, Step 1); (1, Step 0); (0, Step 0); (2, Step 0); (0, Step 0); (0, Step 0);   (* 0: writes 2+1 bytes, ->close, close *)
   (0, Crash);                                                                      (* between write and rename *)
   (1, Step 0); (1, Step 0); (2, Step 0); (2, Step 0); (2, Step 0); (2, Fail);
   (1, Step 2); (1, Step 0); (1, Step 0); (1, Step 0); (1, Step 0); (2, Step 0);
   (0, Step 0); (3, Step 0); (3, Step 0); (3, Step 0)].
Definition ex_final :=
  run N N ex_parse ex_sha ex_pickle ex_unpickle ex_uuid ex_txt ex_flg ex_sched (init_state empty_world).

Example C24_nonvacuous :
  (* the crashed process still sits before its rename, with a complete temporary file *)
  ppc (procs ex_final 0) = PcRename 5%N [0%N] /\ dead (procs ex_final 0) = true
  /\ ppc (procs ex_final 1) = PcDone (ROk 5%N)
  /\ ppc (procs ex_final 2) = PcDone (RCrash Injected)
  (* process 3 started after all that, found the entry of process 1 and read it *)
  /\ ppc (procs ex_final 3) = PcDone (ROk 5%N)
  /\ files (sw ex_final) = [(PCache (ex_sha [5%N]), [5%N; 5%N; 5%N]); (PTmp (ex_sha [5%N]) [0%N], [5%N; 5%N; 5%N])].
Proof. vm_compute. repeat split; reflexivity. Qed.
Print Assumptions C24_nonvacuous.

Example C24_hypotheses_satisfiable :
  third_party N ex_sha ex_pickle ex_unpickle ex_uuid ex_txt
  /\ Inv N N ex_parse ex_sha ex_pickle ex_uuid ex_txt (init_state empty_world).
Proof.
  split; [split; [|split]|].
  - intros m. unfold ex_unpickle, ex_pickle. rewrite N.eqb_refl. reflexivity.
  - intros p q H. injection H as H. exact H.
  - intros i j H. injection H as H. apply Nat2N.inj. exact H.
  - apply inv_init; intros; reflexivity || discriminate.
Qed.
Print Assumptions C24_hypotheses_satisfiable.
