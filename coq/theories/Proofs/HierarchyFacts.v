(** Proofs about [Model/Hierarchy.v] (C05). *)
From Coq Require Import List NArith Bool Arith Lia Permutation Relations.
From Acg Require Import Base.Str Base.Outcome Model.Hierarchy.
Import ListNotations.
Open Scope nat_scope.

(** * Basics *)
Lemma text_eqb_eq : forall a b : text, text_eqb a b = true <-> a = b.
Proof.
  induction a as [|x a IH]; destruct b as [|y b]; cbn [text_eqb]; split; intro H;
    try reflexivity; try discriminate.
  - apply andb_true_iff in H. destruct H as [H1 H2].
    apply N.eqb_eq in H1. apply IH in H2. subst. reflexivity.
  - injection H as H1 H2. subst. apply andb_true_iff. split.
    + apply N.eqb_refl.
    + apply IH. reflexivity.
Qed.

Lemma text_eqb_refl : forall a, text_eqb a a = true.
Proof. intro a. apply text_eqb_eq. reflexivity. Qed.

Lemma text_eqb_neq : forall a b : text, text_eqb a b = false <-> a <> b.
Proof.
  intros a b. split.
  - intros H E. apply text_eqb_eq in E. congruence.
  - intro H. destruct (text_eqb a b) eqn:E; [|reflexivity].
    apply text_eqb_eq in E. contradiction.
Qed.

Lemma mem_text_In : forall x l, mem_text x l = true <-> In x l.
Proof.
  intros x l. induction l as [|y l IH]; cbn [mem_text In].
  - split; [discriminate | tauto].
  - rewrite orb_true_iff, IH, text_eqb_eq. split; intros [H|H]; auto.
Qed.

Lemma mem_text_false : forall x l, mem_text x l = false <-> ~ In x l.
Proof.
  intros x l. rewrite <- mem_text_In. destruct (mem_text x l); split; congruence.
Qed.

Lemma nodupb_NoDup : forall l, nodupb l = true <-> NoDup l.
Proof.
  induction l as [|x l IH]; cbn [nodupb].
  - split; [constructor | reflexivity].
  - rewrite andb_true_iff, negb_true_iff, mem_text_false, IH. split.
    + intros [H1 H2]. constructor; assumption.
    + intro H. inversion H; subst. split; assumption.
Qed.

Lemma find_class_Some : forall m n c, find_class m n = Some c -> In c m /\ c_name c = n.
Proof.
  induction m as [|x m IH]; cbn [find_class]; intros n c H; [discriminate|].
  destruct (text_eqb (c_name x) n) eqn:E.
  - injection H as <-. apply text_eqb_eq in E. split; [left; reflexivity | assumption].
  - apply IH in H. destruct H as [H1 H2]. split; [right|]; assumption.
Qed.

Lemma find_class_In : forall m n, In n (names m) -> exists c, find_class m n = Some c.
Proof.
  induction m as [|x m IH]; cbn [names map In find_class]; intros n H; [contradiction|].
  destruct (text_eqb (c_name x) n) eqn:E; [eexists; reflexivity|].
  destruct H as [H|H]; [apply text_eqb_neq in E; contradiction|].
  apply IH. exact H.
Qed.

Lemma find_class_names : forall m n c, find_class m n = Some c -> In n (names m).
Proof.
  intros m n c H. apply find_class_Some in H. destruct H as [H1 H2]. subst n.
  unfold names. apply in_map. exact H1.
Qed.

Lemma find_class_unique : forall m c, NoDup (names m) -> In c m -> find_class m (c_name c) = Some c.
Proof.
  induction m as [|x m IH]; cbn [names map find_class]; intros c Hnd Hin; [contradiction|].
  inversion Hnd as [|? ? Hx Hnd']; subst.
  destruct Hin as [->|Hin].
  - rewrite text_eqb_refl. reflexivity.
  - destruct (text_eqb (c_name x) (c_name c)) eqn:E.
    + apply text_eqb_eq in E. exfalso. apply Hx. rewrite E. apply in_map. exact Hin.
    + apply IH; assumption.
Qed.

Lemma insert_name_In : forall x y l, In y (insert_name x l) <-> y = x \/ In y l.
Proof.
  intros x y l. induction l as [|z l IH]; cbn [insert_name In].
  - split; intros [H|H]; auto; contradiction.
  - destruct (text_ltb z x); cbn [In]; [rewrite IH|]; split; intros H; intuition auto.
Qed.

Lemma sort_names_In : forall y l, In y (sort_names l) <-> In y l.
Proof.
  intros y l. induction l as [|x l IH]; cbn [sort_names fold_right In]; [tauto|].
  fold (sort_names l). rewrite insert_name_In, IH. split; intros [H|H]; auto.
Qed.

Lemma NoDup_snoc : forall (A : Type) (l : list A) (x : A), NoDup l -> ~ In x l -> NoDup (l ++ [x]).
Proof.
  intros A l x Hnd Hx. induction Hnd as [|y l Hy Hnd IH]; cbn [app].
  - constructor; [intros [] | constructor].
  - constructor.
    + intro Hin. apply in_app_or in Hin. destruct Hin as [Hin|[<-|[]]]; [contradiction|].
      apply Hx. left. reflexivity.
    + apply IH. intro Hin. apply Hx. right. exact Hin.
Qed.

(** * Well-formed hierarchies *)
Section WF.
  Variable prims : list name.
  Variable m : mm.

  (** [base c b]: the class named [c] lists the class [b] among its bases. *)
  Definition base (c b : name) : Prop :=
    exists cl, find_class m c = Some cl /\ In b (class_bases prims cl).

  (** names unique; bases exist; acyclic (a rank strictly decreases along [base]). *)
  Definition wf : Prop :=
    NoDup (names m)
    /\ (forall cl b, In cl m -> In b (class_bases prims cl) -> In b (names m))
    /\ (exists rank : name -> nat,
          forall cl b, In cl m -> In b (class_bases prims cl) -> rank b < rank (c_name cl)).

  (** A list in which every class comes after all its bases, built by appending. *)
  Inductive topo : list name -> Prop :=
  | topo_nil : topo []
  | topo_snoc : forall l c, topo l -> (forall b, base c b -> In b l) -> topo (l ++ [c]).

  Lemma topo_split : forall l, topo l ->
    forall l1 c l2, l = l1 ++ c :: l2 -> forall b, base c b -> In b l1.
  Proof.
    intros l Ht. induction Ht as [|l x Ht IH Hx]; intros l1 c l2 E b Hb.
    - destruct l1; discriminate.
    - destruct l2 as [|y l2] using rev_ind.
      + apply app_inj_tail in E. destruct E as [-> ->]. apply Hx. exact Hb.
      + clear IHl2. change (l1 ++ c :: l2 ++ [y]) with (l1 ++ (c :: l2) ++ [y]) in E.
        rewrite app_assoc in E. apply app_inj_tail in E. destruct E as [E _].
        eapply IH; eassumption.
  Qed.

  Section DFS.
    Hypothesis Hnd : NoDup (names m).
    Hypothesis Hbases : forall cl b, In cl m -> In b (class_bases prims cl) -> In b (names m).
    Variable rank : name -> nat.
    Hypothesis Hrank : forall cl b, In cl m -> In b (class_bases prims cl) -> rank b < rank (c_name cl).

    Definition vinv (perm : list name) : Prop :=
      topo perm /\ incl perm (names m) /\ NoDup perm.

    Definition vpost (path perm : list name) (perm' : list name) : Prop :=
      vinv perm' /\ incl perm perm' /\ (forall t, In t path -> In t perm' -> In t perm).

    Lemma visit_ok : forall fuel path perm c,
      In c (names m) -> vinv perm ->
      NoDup path -> incl path (names m) -> (forall t, In t path -> rank c < rank t) ->
      length (names m) < fuel + length path ->
      exists perm', visit prims m fuel path perm c = Ok perm' /\ vpost path perm perm' /\ In c perm'.
    Proof.
      induction fuel as [|f IH]; intros path perm c Hc Hinv Hndp Hinclp Hrk Hfuel.
      - exfalso. pose proof (NoDup_incl_length Hndp Hinclp) as Hlen. cbn in Hfuel. lia.
      - cbn [visit].
        destruct (mem_text c perm) eqn:Ecp.
        { exists perm. split; [reflexivity|]. split.
          - split; [exact Hinv|]. split; [apply incl_refl | auto].
          - apply mem_text_In. exact Ecp. }
        destruct (mem_text c path) eqn:Ecpath.
        { apply mem_text_In in Ecpath. apply Hrk in Ecpath. lia. }
        apply mem_text_false in Ecp. apply mem_text_false in Ecpath.
        destruct (find_class_In m c Hc) as [cl Hcl]. rewrite Hcl.
        pose proof (find_class_Some _ _ _ Hcl) as [Hclm Hcln].
        assert (Hfold : forall bs perm0,
                   (forall b, In b bs -> In b (class_bases prims cl)) ->
                   vinv perm0 -> ~ In c perm0 ->
                   exists perm1, fold_o (visit prims m f (c :: path)) bs perm0 = Ok perm1
                                 /\ vpost (c :: path) perm0 perm1
                                 /\ (forall b, In b bs -> In b perm1)).
        { induction bs as [|b bs IHbs]; intros perm0 Hbs Hinv0 Hc0.
          - exists perm0. cbn [fold_o]. split; [reflexivity|]. split.
            + split; [exact Hinv0|]. split; [apply incl_refl | auto].
            + intros b [].
          - cbn [fold_o].
            assert (Hb : In b (class_bases prims cl)) by (apply Hbs; left; reflexivity).
            destruct (IH (c :: path) perm0 b) as [p1 [E1 [[Hinv1 [Hincl1 Hpath1]] Hb1]]].
            + eapply Hbases; eassumption.
            + exact Hinv0.
            + constructor; assumption.
            + intros t [<-|Ht]; [exact Hc | apply Hinclp; exact Ht].
            + intros t [<-|Ht].
              * rewrite <- Hcln. eapply Hrank; eassumption.
              * specialize (Hrk t Ht). pose proof (Hrank cl b Hclm Hb) as Hr. rewrite Hcln in Hr. lia.
            + cbn [length]. lia.
            + rewrite E1.
              destruct (IHbs p1) as [p2 [E2 [[Hinv2 [Hincl2 Hpath2]] Hb2]]].
              * intros b' Hb'. apply Hbs. right. exact Hb'.
              * exact Hinv1.
              * intro Hin. apply Hc0. apply Hpath1; [left; reflexivity | exact Hin].
              * exists p2. split; [exact E2|]. split.
                -- split; [exact Hinv2|]. split.
                   ++ eapply incl_tran; eassumption.
                   ++ intros t Ht Hin. apply Hpath1; [exact Ht|]. apply Hpath2; assumption.
                -- intros b' [<-|Hb']; [apply Hincl2; exact Hb1 | apply Hb2; exact Hb']. }
        destruct (Hfold (class_bases prims cl) perm (fun b H => H) Hinv Ecp)
          as [p1 [E1 [[[Ht1 [Hi1 Hn1]] [Hincl1 Hpath1]] Hb1]]].
        rewrite E1. exists (p1 ++ [c]).
        assert (Hcp1 : ~ In c p1).
        { intro Hin. apply Ecp. apply Hpath1; [left; reflexivity | exact Hin]. }
        split; [reflexivity|]. split.
        + split; [split; [|split]|split].
          * apply topo_snoc; [exact Ht1|]. intros b [cl' [Hcl' Hb]].
            rewrite Hcl in Hcl'. injection Hcl' as <-. apply Hb1. exact Hb.
          * intros t Ht. apply in_app_or in Ht. destruct Ht as [Ht|[<-|[]]]; [apply Hi1; exact Ht | exact Hc].
          * apply NoDup_snoc; assumption.
          * intros t Ht. apply in_or_app. left. apply Hincl1. exact Ht.
          * intros t Ht Hin. apply in_app_or in Hin. destruct Hin as [Hin|[<-|[]]].
            -- apply Hpath1; [right; exact Ht | exact Hin].
            -- contradiction.
        + apply in_or_app. right. left. reflexivity.
    Qed.

    Lemma topo_fold_ok : forall cs perm,
      (forall c, In c cs -> In c (names m)) -> vinv perm ->
      exists perm', fold_o (visit prims m (S (length m)) []) cs perm = Ok perm'
                    /\ vinv perm' /\ incl perm perm' /\ (forall c, In c cs -> In c perm').
    Proof.
      induction cs as [|c cs IH]; intros perm Hcs Hinv.
      - exists perm. cbn [fold_o]. split; [reflexivity|]. split; [exact Hinv|].
        split; [apply incl_refl | intros c []].
      - cbn [fold_o].
        destruct (visit_ok (S (length m)) [] perm c) as [p1 [E1 [[Hinv1 [Hincl1 _]] Hc1]]].
        + apply Hcs. left. reflexivity.
        + exact Hinv.
        + constructor.
        + intros t [].
        + intros t [].
        + unfold names. rewrite map_length. cbn [length]. lia.
        + rewrite E1. destruct (IH p1) as [p2 [E2 [Hinv2 [Hincl2 Hc2]]]].
          * intros c' Hc'. apply Hcs. right. exact Hc'.
          * exact Hinv1.
          * exists p2. split; [exact E2|]. split; [exact Hinv2|]. split.
            -- eapply incl_tran; eassumption.
            -- intros c' [<-|Hc']; [apply Hincl2; exact Hc1 | apply Hc2; exact Hc'].
    Qed.

    Lemma topo_sort_ok_aux :
      exists order, topo_sort prims m = Ok order /\ topo order /\ Permutation order (names m).
    Proof.
      unfold topo_sort.
      destruct (topo_fold_ok (sort_names (names m)) []) as [p [E [[Ht [Hi Hn]] [_ Hall]]]].
      - intros c Hc. apply sort_names_In. exact Hc.
      - split; [constructor|]. split; [intros t [] | constructor].
      - exists p. split; [exact E|]. split; [exact Ht|].
        apply NoDup_Permutation; [exact Hn | exact Hnd|].
        intro x. split; [apply Hi|]. intro Hx. apply Hall. apply sort_names_In. exact Hx.
    Qed.
  End DFS.

  Theorem topo_sort_ok : wf ->
    exists order, topo_sort prims m = Ok order /\ topo order /\ Permutation order (names m).
  Proof.
    intros [Hnd [Hb [rank Hr]]]. eapply topo_sort_ok_aux; eassumption.
  Qed.

  (** The type order is a permutation of the declared classes ... *)
  Theorem topo_perm_thm : wf ->
    exists order, topo_sort prims m = Ok order /\ Permutation order (names m).
  Proof.
    intro H. destruct (topo_sort_ok H) as [o [E [_ P]]]. exists o. split; assumption.
  Qed.

  (** ... in which every class comes after all of its bases. *)
  Theorem topo_is_topological_thm : wf -> forall order,
    topo_sort prims m = Ok order ->
    forall l1 c l2, order = l1 ++ c :: l2 -> forall b, base c b -> In b l1.
  Proof.
    intros H order E. destruct (topo_sort_ok H) as [o [E' [Ht _]]].
    rewrite E in E'. injection E' as <-. apply topo_split. exact Ht.
  Qed.
End WF.

(** * De-duplication, descendants and ancestors of the intermediate model *)
Lemma existsb_text_In : forall x l, existsb (text_eqb x) l = true <-> In x l.
Proof.
  intros x l. rewrite existsb_exists. split.
  - intros [y [Hy E]]. apply text_eqb_eq in E. subst. exact Hy.
  - intro H. exists x. split; [exact H | apply text_eqb_refl].
Qed.

Lemma dedup_acc_In : forall l seen x,
  In x (dedup_acc text_eqb seen l) <-> In x l /\ ~ In x seen.
Proof.
  induction l as [|y l IH]; intros seen x; cbn [dedup_acc In]; [tauto|].
  destruct (existsb (text_eqb y) seen) eqn:E.
  - apply existsb_text_In in E. rewrite IH. split.
    + intros [H1 H2]. split; [right|]; assumption.
    + intros [[->|H1] H2]; [contradiction | split; assumption].
  - assert (Hy : ~ In y seen).
    { intro H. apply existsb_text_In in H. congruence. }
    cbn [In]. rewrite IH. cbn [In]. split.
    + intros [->|[H1 H2]]; [split; [left; reflexivity | exact Hy]|].
      split; [right; exact H1 | intro H; apply H2; right; exact H].
    + intros [[->|H1] H2]; [left; reflexivity|].
      destruct (text_eqb y x) eqn:Exy.
      * apply text_eqb_eq in Exy. left. exact Exy.
      * apply text_eqb_neq in Exy. right. split; [exact H1|].
        intros [H|H]; [contradiction | contradiction].
Qed.

Lemma dedup_acc_NoDup : forall l seen, NoDup (dedup_acc text_eqb seen l).
Proof.
  induction l as [|y l IH]; intros seen; cbn [dedup_acc]; [constructor|].
  destruct (existsb (text_eqb y) seen); [apply IH|].
  constructor; [|apply IH].
  intro H. apply dedup_acc_In in H. destruct H as [_ H]. apply H. left. reflexivity.
Qed.

Lemma dedup_In : forall l x, In x (dedup text_eqb l) <-> In x l.
Proof. intros l x. unfold dedup. rewrite dedup_acc_In. cbn [In]. tauto. Qed.

Lemma dedup_NoDup : forall l, NoDup (dedup text_eqb l).
Proof. intro l. apply dedup_acc_NoDup. Qed.

Section IR.
  Variable prims : list name.
  Variable m : mm.
  Variable anc : amap.

  (** descendants are exactly the inverse of ancestors *)
  Theorem descendants_inverse_thm : forall a d, In a (names m) ->
    (In d (ir_descendants anc a) <-> In a (ir_ancestors m anc d)).
  Proof.
    intros a d Ha. unfold ir_ancestors. rewrite filter_In, mem_text_In. tauto.
  Qed.

  Theorem descendants_nodup_thm : forall a, NoDup (ir_descendants anc a).
  Proof. intro a. apply dedup_NoDup. Qed.

  Theorem ancestors_nodup_thm : NoDup (names m) -> forall d, NoDup (ir_ancestors m anc d).
  Proof. intros H d. unfold ir_ancestors. apply NoDup_filter. exact H. Qed.

  Theorem concrete_descendants_thm : forall a d,
    In d (ir_concrete_descendants m anc a) <-> In d (ir_descendants anc a) /\ is_abstract m d = false.
  Proof.
    intros a d. unfold ir_concrete_descendants. rewrite filter_In, negb_true_iff. tauto.
  Qed.
End IR.
