(** C08 — the first mechanism of the property: [aas_core_codegen/parse/_rules.py], the rules
    that read a Python expression AST (the body of an invariant [lambda]) into the restricted
    tree of [parse/tree.py] ([Model/Tree.v]).

    - [pyast]: a small Python *expression* AST as produced by [ast.parse] (BoolOp, UnaryOp,
      Compare with operator chains, Call with keyword count, GeneratorExp with several
      generators and [if] filters, Attribute, Subscript, Name, Constant, JoinedStr, BinOp;
      every other node kind is [POther]). [PParen] is *not* a Python node: it marks the
      parentheses that the transpiler writes into its output ([Model/PyTranspile.v]);
      Python's parser drops them ([strip_parens]) and [ast.parse] never produces it.
    - [eval_py]: Python's evaluation of such an expression, on the values and with the
      exceptions of [Model/PyEval.v] (short-circuit [and]/[or], comparison chains, generator
      expressions with nested [for]s and filters inside [any]/[all], [range] with one or two
      arguments, [is None]). The names [any], [all], [range] denote the built-ins. Constructs
      outside the modelled fragment (generator objects as values, [is] between two non-None
      values, keyword arguments, conversions in f-strings, ...) evaluate to [Raise Malformed];
      none of them is accepted by the rules.
    - [ast_to_tree strict]: the chain of rules [_CHAIN_OF_RULES], in order. With [strict = true]
      (the repaired code) a comprehension with [if] filters is a reported error; with
      [strict = false] (the code as found) the filters are silently dropped.

    Executable definitions only; the proofs are in [Proofs/AstRulesFacts.v]. *)
From Coq Require Import List NArith ZArith Bool.
From Coq Require Strings.String.
Import Coq.Strings.String.StringSyntax.
From Acg Require Import Base.Str Base.Outcome Model.Tree Model.PyEval.
Import ListNotations.
Open Scope Z_scope.

Inductive boolop : Type := BAnd | BOr.
Inductive unop : Type := UNot | USub | UAdd | UInvert.
Inductive pcmp : Type := CLt | CLe | CGt | CGe | CEq | CNe | CIs | CIsNot | CIn | CNotIn.
Inductive binop : Type := OAdd | OSub | OOther.
Inductive pconst : Type :=
| KNone | KBool (b : bool) | KInt (z : Z) | KFloat (q : Z) | KStr (s : text)
| KOther.                       (* bytes, Ellipsis, complex *)

(** Parts of an f-string: a literal (a [Constant]; [PJLitNonStr] if it is not a string), a
    [FormattedValue] with its conversion code (-1 = none) and whether it has a format spec,
    or any other expression. *)
Inductive pjpart (E : Type) : Type :=
| PJLit (s : text)
| PJLitNonStr
| PJFmt (e : E) (conv : Z) (has_spec : bool)
| PJOtherExpr.
Arguments PJLit {E} s.
Arguments PJLitNonStr {E}.
Arguments PJFmt {E} e conv has_spec.
Arguments PJOtherExpr {E}.

Inductive pyast : Type :=
| PBoolOp (op : boolop) (vs : list pyast)
| PUnaryOp (op : unop) (e : pyast)
| PCompare (l : pyast) (rest : list (pcmp * pyast))
| PCall (f : pyast) (args : list pyast) (nkw : nat)
| PGeneratorExp (elt : pyast) (gens : list (pyast * pyast * list pyast))  (* target, iter, ifs *)
| PAttribute (v : pyast) (attr : text)
| PSubscript (v idx : pyast)
| PName (id : text)
| PConstant (c : pconst)
| PJoinedStr (parts : list (pjpart pyast))
| PBinOp (op : binop) (l r : pyast)
| POther                                   (* Lambda, IfExp, Starred, Slice, List, ... *)
| PParen (e : pyast).

Definition comprehension : Type := (pyast * pyast * list pyast)%type.

(** ** Python evaluation *)

Definition cmpop_of (c : pcmp) : option cmpop :=
  match c with
  | CLt => Some Lt | CLe => Some Le | CGt => Some Gt | CGe => Some Ge
  | CEq => Some Eq | CNe => Some Ne
  | _ => None
  end.

Definition cmp1 (c : pcmp) (a b : value) : pyresult :=
  match c with
  | CLt => py_compare Lt a b | CLe => py_compare Le a b
  | CGt => py_compare Gt a b | CGe => py_compare Ge a b
  | CEq => py_compare Eq a b | CNe => py_compare Ne a b
  | CIn => py_in a b
  | CNotIn => match py_in a b with
              | Val w => Val (VBool (negb (truthy w)))
              | Raise x => Raise x
              end
  | CIs => match b with
           | VNone => Val (VBool (is_none a))
           | _ => match a with VNone => Val (VBool false) | _ => Raise Malformed end
           end
  | CIsNot => match b with
              | VNone => Val (VBool (negb (is_none a)))
              | _ => match a with VNone => Val (VBool true) | _ => Raise Malformed end
              end
  end.

(** [left op1 c1 op2 c2 ...]: every comparator is evaluated at most once, the chain stops at
    the first falsy comparison. [rest] carries the (lazily inspected) results of the
    comparators. *)
Fixpoint cmp_chain (left : value) (rest : list (pcmp * pyresult)) : pyresult :=
  match rest with
  | [] => Raise Malformed
  | (op, r) :: rest' =>
      match r with
      | Raise x => Raise x
      | Val v =>
          match cmp1 op left v with
          | Raise x => Raise x
          | Val c =>
              match rest' with
              | [] => Val c
              | _ :: _ => if truthy c then cmp_chain v rest' else Val c
              end
          end
      end
  end.

Definition py_neg (v : value) : pyresult :=
  match v with
  | VInt z => Val (VInt (- z))
  | VBool b => Val (VInt (if b then -1 else 0))
  | VFloat q => Val (VFloat (- q))
  | VNone => Raise NoneDeref
  | _ => Raise TypeErr
  end.

Definition py_pos (v : value) : pyresult :=
  match v with
  | VInt z => Val (VInt z)
  | VBool b => Val (VInt (if b then 1 else 0))
  | VFloat q => Val (VFloat q)
  | VNone => Raise NoneDeref
  | _ => Raise TypeErr
  end.

Definition py_invert (v : value) : pyresult :=
  match v with
  | VInt z => Val (VInt (- z - 1))
  | VBool b => Val (VInt (if b then -2 else -1))
  | VNone => Raise NoneDeref
  | _ => Raise TypeErr
  end.

Definition is_any_all (id : text) : option bool :=   (* Some true = all *)
  if text_eqb id (s2l "all") then Some true
  else if text_eqb id (s2l "any") then Some false
  else None.

Definition is_range (id : text) : bool := text_eqb id (s2l "range").

Definition const_value (c : pconst) : pyresult :=
  match c with
  | KNone => Val VNone
  | KBool b => Val (VBool b)
  | KInt z => Val (VInt z)
  | KFloat q => Val (VFloat q)
  | KStr s => Val (VStr s)
  | KOther => Raise Malformed
  end.

(** The filters of a comprehension: [inl true] keep the item, [inl false] skip it, [inr x] raised. *)
Fixpoint filters_pass (rs : list pyresult) : bool + exn :=
  match rs with
  | [] => inl true
  | Raise x :: _ => inr x
  | Val v :: rest => if truthy v then filters_pass rest else inl false
  end.

Fixpoint eval_py (r : env) (a : pyast) (fuel : nat) {struct a} : pyresult :=
  match a with
  | PName x =>
      match lookup x (vars r) with Some v => Val v | None => Raise NameErr end
  | PConstant c => const_value c
  | PParen e => eval_py r e fuel
  | PAttribute i n =>
      match eval_py r i fuel with
      | Raise x => Raise x
      | Val VNone => Raise NoneDeref
      | Val (VObj _ _ fs) =>
          match lookup n fs with Some v => Val v | None => Raise AttrErr end
      | Val (VType en) =>
          if mem_text n (enum_lits r en) then Val (VEnum en n) else Raise AttrErr
      | Val (VEnum en _) =>
          (* CPython >= 3.11: the members of an enumeration are reachable from a member *)
          if mem_text n (enum_lits r en) then Val (VEnum en n) else Raise AttrErr
      | Val _ => Raise AttrErr
      end
  | PSubscript c i =>
      match eval_py r c fuel with
      | Raise x => Raise x
      | Val vc => match eval_py r i fuel with
                  | Raise x => Raise x
                  | Val vi => py_index vc vi
                  end
      end
  | PCompare l rest =>
      match eval_py r l fuel with
      | Raise x => Raise x
      | Val vl => cmp_chain vl (map (fun oc => (fst oc, eval_py r (snd oc) fuel)) rest)
      end
  | PUnaryOp op e =>
      match eval_py r e fuel with
      | Raise x => Raise x
      | Val w =>
          match op with
          | UNot => Val (VBool (negb (truthy w)))
          | USub => py_neg w
          | UAdd => py_pos w
          | UInvert => py_invert w
          end
      end
  | PBoolOp BAnd vs => and_results (map (fun v => eval_py r v fuel) vs)
  | PBoolOp BOr vs => or_results (map (fun v => eval_py r v fuel) vs)
  | PBinOp op x y =>
      match eval_py r x fuel with
      | Raise ex => Raise ex
      | Val vx => match eval_py r y fuel with
                  | Raise ex => Raise ex
                  | Val vy => match op with
                              | OAdd => py_arith true vx vy
                              | OSub => py_arith false vx vy
                              | OOther => Raise Malformed
                              end
                  end
      end
  | PJoinedStr ps =>
      join_results (map (fun p => match p with
                                  | PJLit s => Val (VStr s)
                                  | PJFmt e conv has_spec =>
                                      if (conv =? -1) && negb has_spec then eval_py r e fuel
                                      else Raise Malformed
                                  | PJLitNonStr | PJOtherExpr => Raise Malformed
                                  end) ps)
  | PGeneratorExp _ _ => Raise Malformed
  | POther => Raise Malformed
  | PCall f args nkw =>
      let plain_call :=
        match f with
        | PName fn =>
            match lookup fn (vars r) with
            | None => Raise NameErr
            | Some fv =>
                match args_results (map (fun x => eval_py r x fuel) args) with
                | LRaise x => Raise x
                | LVal vs =>
                    match fv with
                    | VFun g => if text_eqb g (s2l "len") then py_len vs else fn_impl r g vs
                    | VNone => Raise NoneDeref
                    | _ => Raise TypeErr
                    end
                end
            end
        | PAttribute i m =>
            match eval_py r i fuel with
            | Raise x => Raise x
            | Val VNone => Raise NoneDeref
            | Val (VObj _ cls fs) =>
                match args_results (map (fun x => eval_py r x fuel) args) with
                | LRaise x => Raise x
                | LVal vs =>
                    match lookup m fs with
                    | Some VNone => Raise NoneDeref
                    | Some _ => Raise TypeErr
                    | None => meth_impl r cls fs m vs
                    end
                end
            | Val _ => Raise AttrErr
            end
        | _ => Raise Malformed
        end in
      match nkw with
      | S _ => Raise Malformed
      | O =>
        match f with
        | PName id =>
          match args with
          | [garg] =>
          match garg with
          | PGeneratorExp elt gens =>
            match is_any_all id with
            | None => plain_call
            | Some is_all =>
                (* the stream of the results of [elt]; a raising iterable or filter shows up
                   as a [Raise] element, which [all_results]/[any_results] stop at *)
                let stream :=
                  (fix go (gs : list comprehension) (r : env) {struct gs} : list pyresult :=
                     match gs with
                     | [] => [eval_py r elt fuel]
                     | (tgt, it, ifs) :: gs' =>
                         match tgt with
                         | PName x =>
                             let items :=
                               let plain := gen_items fuel (ForEach (eval_py r it fuel)) in
                               match it with
                               | PCall rf rargs rkw =>
                                   match rf with
                                   | PName rg =>
                                       if is_range rg && Nat.eqb rkw 0 then
                                         match rargs with
                                         | [b] => gen_items fuel (ForRange (Val (VInt 0)) (eval_py r b fuel))
                                         | [a0; b] => gen_items fuel (ForRange (eval_py r a0 fuel) (eval_py r b fuel))
                                         | _ => inr Malformed
                                         end
                                       else plain
                                   | _ => plain
                                   end
                               | _ => plain
                               end in
                             match items with
                             | inr ex => [Raise ex]
                             | inl its =>
                                 flat_map (fun item =>
                                   let r' := bind_var x item r in
                                   match filters_pass (map (fun c => eval_py r' c fuel) ifs) with
                                   | inr ex => [Raise ex]
                                   | inl false => []
                                   | inl true => go gs' r'
                                   end) its
                             end
                         | _ => [Raise Malformed]
                         end
                     end) in
                match gens with
                | [] => Raise Malformed
                | _ :: _ => if is_all then all_results (stream gens r) else any_results (stream gens r)
                end
            end
          | _ => plain_call
          end
          | _ => plain_call
          end
        | _ => plain_call
        end
      end
  end.

(** ** The rules *)

Definition seq_map {A B} (f : A -> outcome B unit) : list A -> outcome (list B) unit :=
  fix go (l : list A) : outcome (list B) unit :=
    match l with
    | [] => Ok []
    | x :: l' =>
        match f x with
        | Ok y => match go l' with
                  | Ok ys => Ok (y :: ys)
                  | Err e => Err e
                  | Crash k => Crash k
                  end
        | Err e => Err e
        | Crash k => Crash k
        end
    end.

Definition err {A} : outcome A unit := Err tt.

Definition tree_const (c : pconst) : option const :=
  match c with
  | KBool b => Some (CBool b)
  | KInt z => Some (CInt z)
  | KFloat q => Some (CFloat q)
  | KStr s => Some (CStr s)
  | KNone | KOther => None
  end.

(** [-<constant>] of [_ParseConstant]: [isinstance(value, (int, float))] includes [bool]. *)
Definition neg_const (c : pconst) : option const :=
  match c with
  | KInt z => Some (CInt (- z))
  | KFloat q => Some (CFloat (- q))
  | KBool b => Some (CInt (if b then -1 else 0))
  | _ => None
  end.

(** The rules in the order of [_CHAIN_OF_RULES] (restricted to expressions). *)
Inductive rule : Type :=
| RComparison | RIsIn | RAnyOrAll | RCall | RConstant | RImplication | RMember | RIndex | RName
| RIsNoneOrIsNotNone | RNot | RAndOrOr | RAddOrSub | RExpression | RJoinedStr | RAssignment | RReturn.

Definition modelled_chain : list rule :=
  [RComparison; RIsIn; RAnyOrAll; RCall; RConstant; RImplication; RMember; RIndex; RName;
   RIsNoneOrIsNotNone; RNot; RAndOrOr; RAddOrSub; RExpression; RJoinedStr; RAssignment; RReturn].

Definition rule_eqb (a b : rule) : bool :=
  match a, b with
  | RComparison, RComparison | RIsIn, RIsIn | RAnyOrAll, RAnyOrAll | RCall, RCall
  | RConstant, RConstant | RImplication, RImplication | RMember, RMember | RIndex, RIndex
  | RName, RName | RIsNoneOrIsNotNone, RIsNoneOrIsNotNone | RNot, RNot | RAndOrOr, RAndOrOr
  | RAddOrSub, RAddOrSub | RExpression, RExpression | RJoinedStr, RJoinedStr
  | RAssignment, RAssignment | RReturn, RReturn => true
  | _, _ => false
  end.

Definition cmp_kind (op : pcmp) : nat :=    (* 0 comparison, 1 in, 2 is, 3 is not, 4 unsupported *)
  match op with
  | CLt | CLe | CGt | CGe | CEq | CNe => 0%nat
  | CIn => 1%nat
  | CIs => 2%nat
  | CIsNot => 3%nat
  | CNotIn => 4%nat
  end.

Definition is_none_const (a : pyast) : bool :=
  match a with PConstant KNone => true | _ => false end.

Definition no_filters (ifs : list pyast) : bool := match ifs with [] => true | _ => false end.

Fixpoint ast_to_tree (strict : bool) (a : pyast) {struct a} : outcome expr unit :=
  match a with
  (* _ParseComparison, _ParseIsIn, _ParseIsNoneOrIsNotNone: exactly one operator *)
  | PCompare l rest =>
      match rest with
      | [oc] =>
          let op := fst oc in
          let c := snd oc in
          match cmpop_of op with
          | Some o =>
              match ast_to_tree strict l with
              | Ok l' => match ast_to_tree strict c with
                         | Ok c' => Ok (Comparison o l' c')
                         | Err e => Err e | Crash k => Crash k
                         end
              | Err e => Err e | Crash k => Crash k
              end
          | None =>
              match cmp_kind op with
              | 1%nat =>
                  match ast_to_tree strict l with
                  | Ok l' => match ast_to_tree strict c with
                             | Ok c' => Ok (IsIn l' c')
                             | Err e => Err e | Crash k => Crash k
                             end
                  | Err e => Err e | Crash k => Crash k
                  end
              | 2%nat =>
                  if is_none_const c then
                    match ast_to_tree strict l with
                    | Ok l' => Ok (IsNone l')
                    | Err e => Err e | Crash k => Crash k
                    end
                  else err
              | 3%nat =>
                  if is_none_const c then
                    match ast_to_tree strict l with
                    | Ok l' => Ok (IsNotNone l')
                    | Err e => Err e | Crash k => Crash k
                    end
                  else err
              | _ => err
              end
          end
      | _ => err
      end
  (* _ParseAnyOrAll, _ParseCall *)
  | PCall f args nkw =>
      let any_all := match f with PName id => is_any_all id | _ => None end in
      match any_all with
      | Some is_all =>
          match nkw with
          | S _ => err
          | O =>
            match args with
            | [garg] =>
              match garg with
              | PGeneratorExp elt gens =>
                match ast_to_tree strict elt with
                | Err e => Err e | Crash k => Crash k
                | Ok cond =>
                    match gens with
                    | [g] =>
                        let tgt := fst (fst g) in
                        let it := snd (fst g) in
                        let ifs := snd g in
                        match tgt with
                        | PName x =>
                            if strict && negb (no_filters ifs) then err
                            else
                              let mk gn := Ok (if is_all then All x gn cond else Any x gn cond) in
                              let for_each :=
                                match ast_to_tree strict it with
                                | Ok it' => mk (ForEach it')
                                | Err e => Err e | Crash k => Crash k
                                end in
                              match it with
                              | PCall rf rargs rkw =>
                                  match rf with
                                  | PName rg =>
                                      if is_range rg then
                                        match rargs with
                                        | [a0; b] =>
                                            match rkw with
                                            | S _ => err
                                            | O =>
                                              match ast_to_tree strict a0 with
                                              | Ok a0' => match ast_to_tree strict b with
                                                          | Ok b' => mk (ForRange a0' b')
                                                          | Err e => Err e | Crash k => Crash k
                                                          end
                                              | Err e => Err e | Crash k => Crash k
                                              end
                                            end
                                        | _ => err
                                        end
                                      else for_each
                                  | _ => for_each
                                  end
                              | _ => for_each
                              end
                        | _ => err
                        end
                    | _ => err
                    end
                end
              | _ => err
              end
            | _ => err
            end
          end
      | None =>
          match seq_map (ast_to_tree strict) args with
          | Err e => Err e | Crash k => Crash k
          | Ok args' =>
              match nkw with
              | S _ => err
              | O =>
                match f with
                | PName fn => Ok (FunctionCall fn args')
                | _ =>
                    match ast_to_tree strict f with
                    | Err e => Err e | Crash k => Crash k
                    | Ok f' =>
                        match f' with
                        | Member inst m => Ok (MethodCall inst m args')
                        | _ => Crash AssertionError      (* assert isinstance(member, tree.Member) *)
                        end
                    end
                end
              end
          end
      end
  (* _ParseConstant *)
  | PConstant c => match tree_const c with Some c' => Ok (Constant c') | None => err end
  | PUnaryOp op x =>
      match op with
      | USub =>
          match x with
          | PConstant c => match neg_const c with Some c' => Ok (Constant c') | None => err end
          | _ => err
          end
      (* _ParseNot *)
      | UNot =>
          match ast_to_tree strict x with
          | Ok x' => Ok (Not x')
          | Err e => Err e | Crash k => Crash k
          end
      | _ => err
      end
  (* _ParseImplication before _ParseAndOrOr *)
  | PBoolOp op vs =>
      let generic :=
        match seq_map (ast_to_tree strict) vs with
        | Ok vs' => Ok (match op with BAnd => And vs' | BOr => Or vs' end)
        | Err e => Err e | Crash k => Crash k
        end in
      match op with
      | BAnd => generic
      | BOr =>
          match vs with
          | [v1; y] =>
              match v1 with
              | PUnaryOp uop x =>
                  match uop with
                  | UNot =>
                      match ast_to_tree strict x with
                      | Ok x' => match ast_to_tree strict y with
                                 | Ok y' => Ok (Implication x' y')
                                 | Err e => Err e | Crash k => Crash k
                                 end
                      | Err e => Err e | Crash k => Crash k
                      end
                  | _ => generic
                  end
              | _ => generic
              end
          | _ => generic
          end
      end
  (* _ParseMember, _ParseIndex, _ParseName *)
  | PAttribute v n =>
      match ast_to_tree strict v with
      | Ok v' => Ok (Member v' n)
      | Err e => Err e | Crash k => Crash k
      end
  | PSubscript v i =>
      match ast_to_tree strict v with
      | Ok v' => match ast_to_tree strict i with
                 | Ok i' => Ok (Index v' i')
                 | Err e => Err e | Crash k => Crash k
                 end
      | Err e => Err e | Crash k => Crash k
      end
  | PName x => Ok (Name x)
  (* _ParseAddOrSub *)
  | PBinOp op x y =>
      match op with
      | OOther => err
      | _ =>
          match ast_to_tree strict x with
          | Ok x' => match ast_to_tree strict y with
                     | Ok y' => Ok (match op with OAdd => Add x' y' | _ => Sub x' y' end)
                     | Err e => Err e | Crash k => Crash k
                     end
          | Err e => Err e | Crash k => Crash k
          end
      end
  (* _ParseJoinedStr *)
  | PJoinedStr ps =>
      match seq_map (fun p => match p with
                              | PJLit s => Ok (JLit s)
                              | PJLitNonStr => err
                              | PJFmt e conv has_spec =>
                                  if negb (conv =? -1) then err
                                  else if has_spec then err
                                  else match ast_to_tree strict e with
                                       | Ok e' => Ok (JFmt e')
                                       | Err x => Err x | Crash k => Crash k
                                       end
                              | PJOtherExpr => err
                              end) ps with
      | Ok ps' => Ok (JoinedStr ps')
      | Err e => Err e | Crash k => Crash k
      end
  | PGeneratorExp _ _ | POther | PParen _ => err
  end.

(** Python's parser drops parentheses. *)
Fixpoint strip_parens (a : pyast) : pyast :=
  match a with
  | PParen e => strip_parens e
  | PBoolOp op vs => PBoolOp op (map strip_parens vs)
  | PUnaryOp op e => PUnaryOp op (strip_parens e)
  | PCompare l rest => PCompare (strip_parens l) (map (fun oc => (fst oc, strip_parens (snd oc))) rest)
  | PCall f args nkw => PCall (strip_parens f) (map strip_parens args) nkw
  | PGeneratorExp elt gens =>
      PGeneratorExp (strip_parens elt)
        (map (fun g => match g with
                       | (t, i, ifs) => (strip_parens t, strip_parens i, map strip_parens ifs)
                       end) gens)
  | PAttribute v n => PAttribute (strip_parens v) n
  | PSubscript v i => PSubscript (strip_parens v) (strip_parens i)
  | PName x => PName x
  | PConstant c => PConstant c
  | PJoinedStr ps =>
      PJoinedStr (map (fun p => match p with
                                | PJFmt e c s => PJFmt (strip_parens e) c s
                                | PJLit s => PJLit s
                                | PJLitNonStr => PJLitNonStr
                                | PJOtherExpr => PJOtherExpr
                                end) ps)
  | PBinOp op l r => PBinOp op (strip_parens l) (strip_parens r)
  | POther => POther
  end.

(** Structural equality (executable), used by the correspondence checks. *)
Definition boolop_eqb (a b : boolop) := match a, b with BAnd, BAnd | BOr, BOr => true | _, _ => false end.
Definition unop_eqb (a b : unop) :=
  match a, b with UNot, UNot | USub, USub | UAdd, UAdd | UInvert, UInvert => true | _, _ => false end.
Definition pcmp_eqb (a b : pcmp) :=
  match a, b with
  | CLt, CLt | CLe, CLe | CGt, CGt | CGe, CGe | CEq, CEq | CNe, CNe | CIs, CIs | CIsNot, CIsNot
  | CIn, CIn | CNotIn, CNotIn => true
  | _, _ => false
  end.
Definition binop_eqb (a b : binop) :=
  match a, b with OAdd, OAdd | OSub, OSub | OOther, OOther => true | _, _ => false end.
Definition pconst_eqb (a b : pconst) :=
  match a, b with
  | KNone, KNone | KOther, KOther => true
  | KBool x, KBool y => Bool.eqb x y
  | KInt x, KInt y | KFloat x, KFloat y => Z.eqb x y
  | KStr x, KStr y => text_eqb x y
  | _, _ => false
  end.

Fixpoint pyast_eqb (a b : pyast) {struct a} : bool :=
  let list_eq :=
    fix go (l r : list pyast) : bool :=
      match l, r with
      | [], [] => true
      | x :: l', y :: r' => pyast_eqb x y && go l' r'
      | _, _ => false
      end in
  match a, b with
  | PBoolOp o l, PBoolOp p r => boolop_eqb o p && list_eq l r
  | PUnaryOp o x, PUnaryOp p y => unop_eqb o p && pyast_eqb x y
  | PCompare x l, PCompare y r =>
      pyast_eqb x y &&
      (fix go (l r : list (pcmp * pyast)) : bool :=
         match l, r with
         | [], [] => true
         | (o, u) :: l', (p, w) :: r' => pcmp_eqb o p && pyast_eqb u w && go l' r'
         | _, _ => false
         end) l r
  | PCall f l n, PCall g r m => pyast_eqb f g && list_eq l r && Nat.eqb n m
  | PGeneratorExp e l, PGeneratorExp f r =>
      pyast_eqb e f &&
      (fix go (l r : list comprehension) : bool :=
         match l, r with
         | [], [] => true
         | (t, i, c) :: l', (u, j, d) :: r' =>
             pyast_eqb t u && pyast_eqb i j && list_eq c d && go l' r'
         | _, _ => false
         end) l r
  | PAttribute x n, PAttribute y m => pyast_eqb x y && text_eqb n m
  | PSubscript x i, PSubscript y j => pyast_eqb x y && pyast_eqb i j
  | PName x, PName y => text_eqb x y
  | PConstant c, PConstant d => pconst_eqb c d
  | PJoinedStr l, PJoinedStr r =>
      (fix go (l r : list (pjpart pyast)) : bool :=
         match l, r with
         | [], [] => true
         | PJLit s :: l', PJLit t :: r' => text_eqb s t && go l' r'
         | PJLitNonStr :: l', PJLitNonStr :: r' => go l' r'
         | PJOtherExpr :: l', PJOtherExpr :: r' => go l' r'
         | PJFmt x c s :: l', PJFmt y d t :: r' =>
             pyast_eqb x y && Z.eqb c d && Bool.eqb s t && go l' r'
         | _, _ => false
         end) l r
  | PBinOp o x y, PBinOp p u w => binop_eqb o p && pyast_eqb x u && pyast_eqb y w
  | POther, POther => true
  | PParen x, PParen y => pyast_eqb x y
  | _, _ => false
  end.
