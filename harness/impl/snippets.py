"""Adapter for C25: specific_implementations.read_from_directory and the CLI entry
main.execute of the tree under test on materialised directory trees.
JSON stdin -> stdout.  payload = {"roots": [{"path": given path, "cwd": dir | null, "aux": dir}, ...], "cli": bool,
"keys": [str, ...]}"""
import io
import json
import os
import pathlib
import sys

from aas_core_codegen import main as cg_main
from aas_core_codegen import specific_implementations as si

payload = json.load(sys.stdin)
pattern = si.IMPLEMENTATION_KEY_RE.pattern
key_prefix = f"The snippet key is not valid according to {pattern}: "
dec_prefix = "The snippet file is not a valid UTF-8: "
dec_mid = ". This was the decoding error: "


def classify(root: str, msg: str):
    if msg.startswith(key_prefix):
        return ["key", msg[len(key_prefix):]]
    if msg.startswith(dec_prefix) and dec_mid in msg:
        pth = msg[len(dec_prefix):msg.rindex(dec_mid)]
        if root == ".":
            pass                     # Path(".") / "a" prints as "a"
        elif pth.startswith(root + "/"):
            pth = pth[len(root) + 1:]
        return ["decode", pth]
    return ["other", msg]


out = []
home = os.getcwd()
for spec in payload["roots"]:
    if spec["cwd"] is not None:
        os.chdir(spec["cwd"])
    root_path = pathlib.Path(spec["path"])
    root = str(root_path)       # as it is prefixed to the globbed paths
    res = {}
    try:
        mapping, errors = si.read_from_directory(root_path)
        if errors is not None:
            res["err"] = [classify(root, e) for e in errors]
        else:
            res["ok"] = sorted([k, v] for k, v in mapping.items())
    except BaseException as e:  # noqa
        res["exc"] = type(e).__name__
    if payload.get("cli"):
        model = pathlib.Path(spec["aux"]) / "model.py"
        outdir = pathlib.Path(spec["aux"]) / "out"
        model.write_text("", encoding="utf-8")
        outdir.mkdir(exist_ok=True)
        so, se = io.StringIO(), io.StringIO()
        try:
            params = cg_main.Parameters(model_path=model, target=cg_main.Target.CSHARP,
                                        snippets_dir=root_path, output_dir=outdir)
            rc = cg_main.execute(params, stdout=so, stderr=se)
            res["cli"] = {"rc": rc, "stdout": so.getvalue(), "stderr": se.getvalue()}
        except BaseException as e:  # noqa
            res["cli"] = {"exc": type(e).__name__, "detail": str(e)[:300]}
    os.chdir(home)
    out.append(res)
keys = [si.IMPLEMENTATION_KEY_RE.fullmatch(k) is not None for k in payload.get("keys", [])]
json.dump({"trees": out, "keys": keys, "pattern": pattern}, sys.stdout)
