(** C26: structural facts about every pass of [linearize_to_subroutines], for ALL
    well-formed flows: labels stay pairwise distinct through the clean-up, no assert
    or contract of linear.py fires, the final labels are 0,1,2,... in statement order
    and the subroutine heads carry exactly these labels ([subroutine_shape]). *)
From Coq Require Import List NArith Bool Arith Lia.
From Acg Require Import Base.Outcome Base.Str Model.Flow Model.Linear
  Proofs.LinearSem Proofs.LinearRaw.
Import ListNotations.
Open Scope nat_scope.

Definition labels (ss : list stmt) : list nat := flat_map (fun s => opt_list (s_label s)) ss.

Lemma labels_app : forall a b, labels (a ++ b) = labels a ++ labels b.
Proof. intros. unfold labels. apply flat_map_app. Qed.

Lemma labels_cons : forall s r, labels (s :: r) = opt_list (s_label s) ++ labels r.
Proof. reflexivity. Qed.

(* ------------------------------------------------------------------------- *)
(** * Subsequences *)
Inductive subseq : list nat -> list nat -> Prop :=
| sub_nil : subseq [] []
| sub_skip : forall x a b, subseq a b -> subseq a (x :: b)
| sub_take : forall x a b, subseq a b -> subseq (x :: a) (x :: b).

Lemma subseq_refl : forall a, subseq a a.
Proof. induction a; constructor; assumption. Qed.

Lemma subseq_nil_l : forall b, subseq [] b.
Proof. induction b; constructor; assumption. Qed.

Lemma subseq_in : forall a b x, subseq a b -> In x a -> In x b.
Proof.
  intros a b x H; induction H; intros Hin; cbn in *; auto.
  destruct Hin; auto.
Qed.

Lemma subseq_nodup : forall a b, subseq a b -> NoDup b -> NoDup a.
Proof.
  intros a b H; induction H; intros Hn.
  - constructor.
  - inversion Hn; auto.
  - inversion Hn; subst. constructor; auto.
    intros Hin. apply H2. eapply subseq_in; eauto.
Qed.

Lemma subseq_app : forall a b c d, subseq a b -> subseq c d -> subseq (a ++ c) (b ++ d).
Proof.
  intros a b c d H; induction H; intros Hcd; cbn [app].
  - exact Hcd.
  - apply sub_skip. apply IHsubseq. exact Hcd.
  - apply sub_take. apply IHsubseq. exact Hcd.
Qed.

Lemma subseq_app_r : forall a b c, subseq a c -> subseq a (b ++ c).
Proof. intros a b c H. induction b; cbn; [assumption|constructor; assumption]. Qed.

Lemma subseq_app_l : forall a b c, subseq a b -> subseq a (b ++ c).
Proof.
  intros a b c H. rewrite <- (app_nil_r a). apply subseq_app; [assumption|apply subseq_nil_l].
Qed.

(* ------------------------------------------------------------------------- *)
(** * Raw code *)
Lemma labels_of_from : forall c l, labels_from c l -> labels c = seq l (length c).
Proof.
  induction c as [|x c IH]; intros l H; [reflexivity|].
  cbn [labels_from] in H. destruct H as [Hx H].
  rewrite labels_cons, Hx. cbn [opt_list app length seq]. f_equal. apply IH. exact H.
Qed.

(* ------------------------------------------------------------------------- *)
(** * _remove_redundant_labels_in_place *)
Lemma labels_drop : forall ts ss,
  subseq (labels (map (drop_label_unless ts) ss)) (labels ss).
Proof.
  intros ts; induction ss as [|s r IH]; [constructor|].
  cbn [map]. rewrite !labels_cons. unfold drop_label_unless at 1.
  destruct (s_label s) as [l|] eqn:E.
  - destruct (mem_nat l ts).
    + rewrite E. cbn [opt_list app]. apply sub_take. exact IH.
    + cbn [unlabel s_label opt_list app]. apply sub_skip. exact IH.
  - rewrite E. cbn. exact IH.
Qed.

(* ------------------------------------------------------------------------- *)
(** * _remove_noops_in_place *)
Lemma labels_filter : forall p ss, subseq (labels (filter p ss)) (labels ss).
Proof.
  intros p; induction ss as [|s r IH]; [constructor|].
  cbn [filter]. destruct (p s); rewrite !labels_cons.
  - apply subseq_app; [apply subseq_refl|exact IH].
  - apply subseq_app_r. exact IH.
Qed.

Lemma labels_unlabel : forall l, labels (map unlabel l) = [].
Proof. induction l as [|x l IH]; [reflexivity|]. cbn [map]. rewrite labels_cons. cbn. exact IH. Qed.

Lemma labels_rewire : forall m ss, labels (map (rewire m) ss) = labels ss.
Proof.
  intros m; induction ss as [|s r IH]; [reflexivity|].
  cbn [map]. rewrite !labels_cons, IH. reflexivity.
Qed.

Definition all_labelled (l : list stmt) : Prop := forall s, In s l -> s_label s <> None.
Definition noops_labelled (l : list stmt) : Prop :=
  forall s, In s l -> is_noop s = true -> s_label s <> None.

Lemma map_block_ok : forall blk t m, all_labelled blk -> exists m', map_block blk t m = Ok m'.
Proof.
  induction blk as [|b r IH]; intros t m H; [eexists; reflexivity|].
  cbn [map_block]. destruct (s_label b) as [l|] eqn:E.
  - apply IH. intros s Hs. apply H. right. exact Hs.
  - exfalso. apply (H b); [left; reflexivity|exact E].
Qed.

Lemma map_trailing_ok : forall r t m, all_labelled r -> exists m', map_trailing r (Some t) m = Ok m'.
Proof.
  induction r as [|b r IH]; intros t m H; [eexists; reflexivity|].
  cbn [map_trailing]. destruct (s_label b) as [l|] eqn:E.
  - apply IH. intros s Hs. apply H. right. exact Hs.
  - exfalso. apply (H b); [left; reflexivity|exact E].
Qed.

Lemma noop_loop_ok : forall l blk m, noops_labelled l -> all_labelled blk ->
  exists out m', noop_loop l blk m = Ok (out, m') /\ subseq (labels out) (labels (blk ++ l)).
Proof.
  induction l as [|s l IH]; intros blk m Hl Hb.
  - cbn [noop_loop]. destruct blk as [|b0 bs].
    + exists [], m. split; [reflexivity|constructor].
    + destruct (s_label b0) as [l0|] eqn:E0; [|exfalso; apply (Hb b0); [left; reflexivity|exact E0]].
      destruct (map_trailing_ok bs l0 m) as [m1 Hm1]; [intros x Hx; apply Hb; right; exact Hx|].
      rewrite Hm1. cbn [bind]. exists (b0 :: map unlabel bs), m1. split; [reflexivity|].
      rewrite app_nil_r, !labels_cons, labels_unlabel, E0. cbn [opt_list app].
      apply sub_take. apply subseq_nil_l.
  - cbn [noop_loop]. destruct (is_noop s) eqn:En.
    + destruct (IH (blk ++ [s]) m) as [out [m' [H1 H2]]].
      * intros x Hx. apply Hl. right. exact Hx.
      * intros x Hx. apply in_app_or in Hx. destruct Hx as [Hx|[<-|[]]]; [apply Hb; exact Hx|].
        apply Hl; [left; reflexivity|exact En].
      * exists out, m'. split; [exact H1|]. rewrite <- app_assoc in H2. exact H2.
    + assert (Hl' : noops_labelled l) by (intros x Hx; apply Hl; right; exact Hx).
      assert (Hnil : all_labelled []) by (intros x []).
      destruct blk as [|b0 bs].
      * destruct (IH [] m Hl' Hnil) as [out [m' [H1 H2]]].
        rewrite H1. cbn [bind fst snd]. exists (s :: out), m'. split; [reflexivity|].
        cbn [app] in *. rewrite !labels_cons. apply subseq_app; [apply subseq_refl|exact H2].
      * assert (E0x : exists l0, s_label b0 = Some l0).
        { destruct (s_label b0) as [l0|] eqn:E0; [eauto|exfalso; apply (Hb b0); [left; reflexivity|exact E0]]. }
        destruct E0x as [l0 E0].
        set (lbl := match s_label s with Some x => x | None => l0 end).
        assert (Hlbl : match s_label s with
                       | Some x => Ok x
                       | None => match s_label b0 with Some x => Ok x | None => Crash AssertionError end
                       end = @Ok nat unit lbl).
        { unfold lbl. rewrite E0. destruct (s_label s); reflexivity. }
        rewrite Hlbl. cbn [bind].
        destruct (map_block_ok (b0 :: bs) lbl m Hb) as [m1 Hm1]. rewrite Hm1. cbn [bind].
        destruct (IH [] m1 Hl' Hnil) as [out [m' [H1 H2]]].
        rewrite H1. cbn [bind fst snd].
        exists (map unlabel (b0 :: bs) ++ mk_stmt (Some lbl) (s_kind s) :: out), m'.
        split; [reflexivity|].
        rewrite labels_app, labels_unlabel, labels_cons. cbn [app s_label opt_list].
        rewrite (labels_cons b0 (bs ++ s :: l)), labels_app, (labels_cons s l), E0.
        cbn [app opt_list] in *.
        unfold lbl. destruct (s_label s) as [x|]; cbn [opt_list app].
        -- apply sub_skip. apply subseq_app_r. apply sub_take. exact H2.
        -- apply sub_take. apply subseq_app_r. exact H2.
Qed.

Lemma filter_noops_labelled : forall ss, noops_labelled (filter keep_stmt ss).
Proof.
  intros ss s Hs Hn. apply filter_In in Hs. destruct Hs as [_ Hk].
  unfold keep_stmt in Hk. rewrite Hn in Hk. cbn in Hk.
  destruct (s_label s); [discriminate|discriminate].
Qed.

Lemma remove_noops_ok : forall ss, NoDup (labels ss) ->
  exists out, remove_noops ss = Ok out /\ NoDup (labels out).
Proof.
  intros ss Hnd. unfold remove_noops.
  destruct (noop_loop_ok (filter keep_stmt ss) [] [] (filter_noops_labelled ss))
    as [out [m' [H1 H2]]]; [intros x []|].
  rewrite H1. cbn [bind fst snd]. eexists. split; [reflexivity|].
  rewrite labels_rewire.
  eapply subseq_nodup; [apply labels_filter|].
  eapply subseq_nodup; [exact H2|]. cbn [app].
  eapply subseq_nodup; [apply labels_filter|exact Hnd].
Qed.

Lemma compress_ok : forall ss, NoDup (labels ss) ->
  exists out, compress ss = Ok out /\ NoDup (labels out).
Proof.
  intros ss Hnd. unfold compress. apply remove_noops_ok.
  unfold remove_redundant_labels. eapply subseq_nodup; [apply labels_drop|exact Hnd].
Qed.

(* ------------------------------------------------------------------------- *)
(** * _fix_labels_in_place *)

Lemma max_label_acc : forall ss acc x,
  (x <= acc \/ In x (labels ss)) ->
  x <= fold_left (fun a s => Nat.max a (label_or_0 s)) ss acc.
Proof.
  induction ss as [|s r IH]; intros acc x H; cbn [fold_left].
  - destruct H as [H|[]]. exact H.
  - apply IH. rewrite labels_cons in H. destruct H as [H|H]; [left; lia|].
    apply in_app_or in H. destruct H as [H|H]; [|right; exact H].
    left. unfold label_or_0. destruct (s_label s) as [l|]; cbn in H; [|contradiction].
    destruct H as [<-|[]]. lia.
Qed.

Lemma max_label_ge : forall ss x, In x (labels ss) -> x <= max_label ss.
Proof. intros ss x H. unfold max_label. apply max_label_acc. right. exact H. Qed.

Lemma lay_labels : forall ss b lbl lbl0,
  NoDup (labels ss) -> (forall x, In x (labels ss) -> x < lbl0) -> lbl0 <= lbl ->
  NoDup (labels (label_after_yields b ss lbl))
  /\ (forall x, In x (labels (label_after_yields b ss lbl)) -> In x (labels ss) \/ lbl <= x).
Proof.
  induction ss as [|s r IH]; intros b lbl lbl0 Hnd Hlt Hle.
  - cbn. split; [constructor|intros x []].
  - rewrite labels_cons in Hnd, Hlt.
    assert (Hnd_r : NoDup (labels r)).
    { destruct (s_label s); cbn in Hnd; [inversion Hnd; assumption|exact Hnd]. }
    assert (Hlt_r : forall x, In x (labels r) -> x < lbl0).
    { intros x Hx. apply Hlt. apply in_or_app. right. exact Hx. }
    cbn [label_after_yields]. destruct (s_label s) as [l|] eqn:E.
    + destruct (IH (is_yield s) lbl lbl0 Hnd_r Hlt_r Hle) as [A B].
      rewrite !labels_cons, E. cbn [opt_list app] in *. split.
      * constructor; [|exact A]. intros Hin. destruct (B l Hin) as [H|H].
        -- inversion Hnd; contradiction.
        -- assert (l < lbl0) by (apply Hlt; left; reflexivity). lia.
      * intros x Hx. cbn [In] in Hx. destruct Hx as [Hx|Hx]; [left; left; exact Hx|].
        destruct (B x Hx) as [H|H]; [left; right; exact H|right; exact H].
    + destruct b.
      * destruct (IH (is_yield s) (S lbl) lbl0 Hnd_r Hlt_r ltac:(lia)) as [A B].
        rewrite !labels_cons, E. cbn [s_label opt_list app] in *. split.
        -- constructor; [|exact A]. intros Hin. destruct (B lbl Hin) as [H|H]; [|lia].
           assert (lbl < lbl0) by (apply Hlt_r; exact H). lia.
        -- intros x Hx. cbn [In] in Hx. destruct Hx as [Hx|Hx]; [right; lia|].
           destruct (B x Hx) as [H|H]; [left; exact H|right; lia].
      * destruct (IH (is_yield s) lbl lbl0 Hnd_r Hlt_r Hle) as [A B].
        rewrite !labels_cons, E. cbn [opt_list app] in *. split; [exact A|exact B].
Qed.

Lemma lay_head : forall s r b lbl, s_label s <> None ->
  exists s' r', label_after_yields b (s :: r) lbl = s' :: r' /\ s_label s' <> None.
Proof.
  intros s r b lbl H. cbn [label_after_yields]. destruct (s_label s) eqn:E; [|congruence].
  eexists _, _. split; [reflexivity|]. congruence.
Qed.

Lemma build_map_other : forall ss lbl m k, ~ In k (labels ss) ->
  dict_get (build_map ss lbl m) k = dict_get m k.
Proof.
  induction ss as [|s r IH]; intros lbl m k H; [reflexivity|].
  cbn [build_map]. rewrite labels_cons in H. destruct (s_label s) as [l|] eqn:E.
  - cbn [opt_list app] in H. rewrite IH by (intros Hin; apply H; right; exact Hin).
    cbn [dict_set dict_get]. destruct (Nat.eqb l k) eqn:Ek; [|reflexivity].
    apply Nat.eqb_eq in Ek. exfalso. apply H. left. exact Ek.
  - apply IH. exact H.
Qed.

Lemma build_map_rank : forall ss lbl m j k, NoDup (labels ss) ->
  nth_error (labels ss) j = Some k -> dict_get (build_map ss lbl m) k = Some (lbl + j).
Proof.
  induction ss as [|s r IH]; intros lbl m j k Hnd Hj; [destruct j; discriminate|].
  cbn [build_map]. rewrite labels_cons in Hnd, Hj. destruct (s_label s) as [l|] eqn:E.
  - cbn [opt_list app] in Hnd, Hj. inversion Hnd as [|? ? Hnot Hnd']; subst.
    destruct j as [|j].
    + cbn in Hj. inversion Hj; subst k. rewrite build_map_other by exact Hnot.
      cbn [dict_set dict_get]. rewrite Nat.eqb_refl. f_equal. lia.
    + cbn [nth_error] in Hj. rewrite (IH (S lbl) _ j k Hnd' Hj). f_equal. lia.
  - cbn in Hnd, Hj. apply IH; assumption.
Qed.

Lemma fix_map_labels : forall M ss base,
  (forall j k, nth_error (labels ss) j = Some k -> dict_get M k = Some (base + j)) ->
  exists out, map_o (fix_stmt M) ss = Ok out
              /\ labels out = seq base (length (labels ss))
              /\ map (fun s => is_some (s_label s)) out = map (fun s => is_some (s_label s)) ss.
Proof.
  intros M; induction ss as [|s r IH]; intros base H.
  - exists []. repeat split.
  - cbn [map_o]. unfold fix_stmt at 1. rewrite labels_cons in H.
    destruct (s_label s) as [l|] eqn:E.
    + cbn [opt_list app] in H. rewrite (H 0 l eq_refl). cbn [bind].
      destruct (IH (S base)) as [out [A [B C]]].
      { intros j k Hj. rewrite (H (S j) k Hj). f_equal. lia. }
      rewrite A. cbn [bind]. eexists. split; [reflexivity|].
      rewrite !labels_cons, E. cbn [s_label opt_list app length seq map is_some].
      rewrite B, C, Nat.add_0_r, E. split; reflexivity.
    + cbn [bind]. cbn in H. destruct (IH base H) as [out [A [B C]]].
      rewrite A. cbn [bind]. eexists. split; [reflexivity|].
      rewrite !labels_cons, E. cbn [s_label opt_list app map is_some]. rewrite B, C, E. split; reflexivity.
Qed.

Lemma fix_labels_ok : forall ss, NoDup (labels ss) ->
  exists out, fix_labels ss = Ok out
    /\ labels out = seq 0 (length (labels out))
    /\ (out = [] \/ exists s' r', out = s' :: r' /\ s_label s' <> None).
Proof.
  intros ss Hnd. unfold fix_labels. destruct ss as [|s0 r0]; [exists []; repeat split; left; reflexivity|].
  set (ss := s0 :: r0) in *.
  set (lbl := S (max_label ss)).
  assert (Hlt : forall x, In x (labels ss) -> x < lbl).
  { intros x Hx. unfold lbl. pose proof (max_label_ge ss x Hx). lia. }
  (* label_first *)
  assert (Hfirst : exists s1 lbl1, label_first ss lbl = (s1, lbl1)
            /\ NoDup (labels s1) /\ (forall x, In x (labels s1) -> x < lbl1) /\
            exists h t, s1 = h :: t /\ s_label h <> None).
  { unfold label_first, ss. destruct (s_label s0) as [l|] eqn:E.
    - exists (s0 :: r0), lbl. repeat split; try assumption. exists s0, r0. split; [reflexivity|congruence].
    - exists (mk_stmt (Some lbl) (s_kind s0) :: r0), (S lbl).
      assert (Hr : labels ss = labels r0) by (unfold ss; rewrite labels_cons, E; reflexivity).
      split; [reflexivity|]. rewrite labels_cons. cbn [s_label opt_list app]. repeat split.
      + constructor; [|rewrite <- Hr; exact Hnd]. intros Hin. rewrite <- Hr in Hin.
        specialize (Hlt _ Hin). lia.
      + intros x [<-|Hx]; [lia|]. rewrite <- Hr in Hx. specialize (Hlt _ Hx). lia.
      + eexists _, _. split; [reflexivity|]. cbn. congruence. }
  destruct Hfirst as [s1 [lbl1 [E1 [Hnd1 [Hlt1 [h [t [Es1 Hh]]]]]]]].
  rewrite E1.
  destruct (lay_labels s1 false lbl1 lbl1 Hnd1 Hlt1 (le_n _)) as [Hnd2 _].
  set (s2 := label_after_yields false s1 lbl1) in *.
  destruct (fix_map_labels (build_map s2 0 []) s2 0) as [out [A [B C]]].
  { intros j k Hj. apply build_map_rank; assumption. }
  exists out. split; [exact A|]. split.
  - rewrite B, seq_length. reflexivity.
  - right. subst s1. destruct (lay_head h t false lbl1 Hh) as [s' [r' [E2 Hs']]].
    fold s2 in E2. rewrite E2 in C. destruct out as [|o outr]; [discriminate|].
    exists o, outr. split; [reflexivity|]. cbn [map] in C. inversion C as [[C1 C2]].
    destruct (s_label o); [congruence|]. destruct (s_label s'); [discriminate|congruence].
Qed.

(* ------------------------------------------------------------------------- *)
(** * _split_in_subroutines and the postcondition *)

Lemma unlabelled_forallb : forall t, labels t = [] ->
  forallb (fun x => negb (is_some (s_label x))) t = true.
Proof.
  induction t as [|x t IH]; intros H; [reflexivity|].
  rewrite labels_cons in H. destruct (s_label x) eqn:E; cbn in H; [discriminate|].
  cbn [forallb]. rewrite E. cbn. apply IH. exact H.
Qed.

Lemma check_sub_ok : forall h t, s_label h <> None -> labels t = [] ->
  check_sub (h :: t) = Ok (h :: t).
Proof.
  intros h t Hh Ht. cbn [check_sub]. rewrite (unlabelled_forallb t Ht).
  destruct (s_label h); [reflexivity|congruence].
Qed.

Lemma split_ok : forall ss block,
  (block = [] -> ss = [] \/ exists s r, ss = s :: r /\ s_label s <> None) ->
  (block = [] \/ exists h t, block = h :: t /\ s_label h <> None /\ labels t = []) ->
  exists subs, split_loop ss block = Ok subs
               /\ map sub_head_label subs = map Some (labels (block ++ ss))
               /\ concat subs = block ++ ss.
Proof.
  induction ss as [|s r IH]; intros block Hss Hb.
  - cbn [split_loop]. destruct Hb as [->|[h [t [-> [Hh Ht]]]]].
    + exists []. repeat split.
    + rewrite (check_sub_ok h t Hh Ht). cbn [bind]. exists [h :: t]. split; [reflexivity|].
      rewrite app_nil_r, labels_cons, Ht. cbn [map sub_head_label concat].
      destruct (s_label h) as [l|]; [|congruence]. split; [reflexivity|].
      cbn [app]. rewrite ?app_nil_r. reflexivity.
  - cbn [split_loop]. destruct (s_label s) as [l|] eqn:E.
    + assert (Hone : exists subs, split_loop r [s] = Ok subs
                 /\ map sub_head_label subs = map Some (labels ([s] ++ r))
                 /\ concat subs = [s] ++ r).
      { apply IH; [discriminate|]. right. exists s, []. repeat split. congruence. }
      destruct Hone as [rest [R1 [R2 R3]]].
      destruct Hb as [->|[h [t [-> [Hh Ht]]]]].
      * exists rest. split; [exact R1|]. split; [exact R2|exact R3].
      * rewrite (check_sub_ok h t Hh Ht). cbn [bind]. rewrite R1. cbn [bind].
        exists ((h :: t) :: rest). split; [reflexivity|].
        cbn [map sub_head_label concat]. rewrite R2, R3.
        rewrite (labels_app (h :: t) (s :: r)), (labels_cons h t), Ht.
        destruct (s_label h) as [lh|]; [|congruence]. cbn [opt_list app map].
        split; reflexivity.
    + destruct Hb as [->|[h [t [-> [Hh Ht]]]]].
      * destruct (Hss eq_refl) as [H|[s' [r' [H1 H2]]]]; [discriminate|].
        inversion H1; subst. congruence.
      * destruct (IH ((h :: t) ++ [s])) as [subs [S1 [S2 S3]]].
        -- intros H. destruct t; discriminate.
        -- right. exists h, (t ++ [s]). repeat split; [exact Hh|].
           rewrite labels_app, Ht, labels_cons, E. reflexivity.
        -- exists subs. split; [exact S1|]. rewrite <- app_assoc in S2, S3. split; [exact S2|exact S3].
Qed.

Lemma consecutive_heads_cons2 : forall x y r,
  consecutive_heads (x :: y :: r) =
  match sub_head_label x with
  | None => Crash TypeError
  | Some la =>
      if option_eqb Nat.eqb (Some (S la)) (sub_head_label y)
      then consecutive_heads (y :: r) else Ok false
  end.
Proof. reflexivity. Qed.

Lemma consecutive_ok : forall subs a n,
  map sub_head_label subs = map Some (seq a n) -> consecutive_heads subs = Ok true.
Proof.
  induction subs as [|x subs IH]; intros a n H; [reflexivity|].
  destruct subs as [|y r]; [destruct x; reflexivity|].
  destruct n as [|[|n]]; cbn [seq map] in H; try discriminate.
  inversion H as [[Hx Hy Hr]].
  rewrite consecutive_heads_cons2, Hx, Hy. cbn [option_eqb]. rewrite Nat.eqb_refl.
  apply (IH (S a) (S n)). cbn [seq map]. rewrite Hy, Hr. reflexivity.
Qed.

(** No assert, precondition or postcondition of linear.py fires on a well-formed
    flow; the subroutine heads are labelled 0,1,2,... and the subroutines are the
    flattened code cut at the labels. *)
Theorem subroutine_shape : forall f, wf_flow f = true ->
  exists subs, linearize_to_subroutines f = Ok subs
               /\ map sub_head_label subs = map Some (seq 0 (length subs)).
Proof.
  intros f Hwf. unfold linearize_to_subroutines. destruct f as [|x f']; [exists []; split; reflexivity|].
  set (f := x :: f') in *.
  destruct (lin_seq_facts f Hwf 0) as [[Hlab _] _].
  assert (Hnd : NoDup (labels (linearize_control_flow f))).
  { unfold linearize_control_flow. rewrite (labels_of_from _ _ Hlab). apply seq_NoDup. }
  destruct (compress_ok _ Hnd) as [s1 [C1 Hnd1]]. rewrite C1. cbn [bind].
  destruct (fix_labels_ok s1 Hnd1) as [s2 [F1 [F2 F3]]]. rewrite F1. cbn [bind].
  unfold split_in_subroutines.
  destruct (split_ok s2 []) as [subs [S1 [S2 S3]]].
  { intros _. destruct F3 as [->|[s' [r' [-> Hs']]]]; [left; reflexivity|].
    right. exists s', r'. split; [reflexivity|exact Hs']. }
  { left. reflexivity. }
  rewrite S1. cbn [bind]. cbn [app] in S2. rewrite F2 in S2.
  rewrite (consecutive_ok subs 0 _ S2). cbn [bind].
  exists subs. split; [reflexivity|].
  rewrite S2. f_equal. f_equal.
  apply (f_equal (@length _)) in S2. rewrite !map_length, seq_length in S2. symmetry. exact S2.
Qed.
