(** C19 — Emitted literals denote exactly the original values.

    Theorems over the escaper models [Model/Lit.v] (interpreters of the branch tables
    regenerated from <target>/common.py on every run, [Gen/GenLiteralTables.v]) and the
    lexers [Model/Lex*.v] written from the language specifications. Statements,
    [exact]s, computations of decidable side conditions and [Print Assumptions] only.

    Each [..._ok] side condition says, for the regenerated table: it has no look-ahead
    and EVERY code point 0..0x10FFFF is escaped into text that the lexer reads back as
    that code point from each in-literal state (bound 1114112 = 0x110000 is part of
    the condition); it is decided by computation. The theorems for ALL strings follow
    by induction over the string ([Proofs/LitFacts.v], [Proofs/LitLangs.v]). *)
From Coq Require Import List NArith Bool.
From Coq Require Strings.String.
Import Coq.Strings.String.StringSyntax.
From Acg Require Import Base.Str Base.Outcome Model.LitCore Model.Lit Model.LexCore
  Model.LexPython Model.LexJs Model.LexJava Model.LexCpp Model.LexCsharp Model.LexGo
  Proofs.LitFacts Proofs.LitLangs Gen.GenLiteralTables
  Proofs.LitSweepPy Proofs.LitSweepPyCurly Proofs.LitSweepTs Proofs.LitSweepTpl Proofs.LitSweepJava
  Proofs.LitSweepCppW Proofs.LitSweepCppS Proofs.LitSweepCppC Proofs.LitSweepCs Proofs.LitSweepGo.
Import ListNotations.
Open Scope N_scope.

(** ** Python (str): every string, every quoting mode, with and without brace doubling *)

Theorem C19_python_lit_roundtrip : forall q s, wf_text s ->
  exists l, py_string_literal q false false s = Ok l /\ lex_py l = Some s.
Proof.
  intros q s Hwf. destruct (py_roundtrip (py_side py_side3 py_side4) q false s Hwf) as [l [H1 H2]].
  exists l. split; [exact H1 |]. rewrite H2, flat_map_id_val. reflexivity.
Qed.
Print Assumptions C19_python_lit_roundtrip.

(** with [duplicate_curly_brackets] the literal is a [str.format] template *)
Theorem C19_python_format_template_roundtrip : forall q s, wf_text s ->
  exists l v, py_string_literal q false true s = Ok l /\ lex_py l = Some v
              /\ fmt_unescape v = Some s.
Proof.
  intros q s Hwf. destruct (py_roundtrip (py_side py_side3 py_side4) q true s Hwf) as [l [H1 H2]].
  exists l, (flat_map curly_val s). split; [exact H1 |]. split; [exact H2 |].
  apply fmt_unescape_curly.
Qed.
Print Assumptions C19_python_format_template_roundtrip.

(** Python (bytes), every byte value, in the one-line and the chunked form. The
    statement for all byte strings (induction over the chunks) is not proved:
    C19_python_bytes_roundtrip : forall bs, bytes_wf bs ->
      lex_py_bytes (fst (py_bytes_literal bs)) = Some bs. *)
Theorem C19_python_bytes_roundtrip_partial :
  all_below 256 (fun b =>
    match lex_py_bytes (fst (py_bytes_literal [b])),
          lex_py_bytes (fst (py_bytes_literal [b; 0; 1; 2; 3; 4; 5; 6; 255; b])) with
    | Some [v], Some w => (v =? b) && text_eqb w [b; 0; 1; 2; 3; 4; 5; 6; 255; b]
    | _, _ => false
    end) = true.
Proof. vm_compute. reflexivity. Qed.
Print Assumptions C19_python_bytes_roundtrip_partial.

(** ** TypeScript, double-quoted *)

Theorem C19_typescript_lit_roundtrip : forall s, wf_text s ->
  exists l, ts_string_literal false false s = Ok l /\ lex_js false l = Some (utf16 s).
Proof. exact (ts_quoted_roundtrip ts_quoted_side). Qed.
Print Assumptions C19_typescript_lit_roundtrip.

(** TypeScript template literal. Full statement (NOT proved for all strings; the
    induction needs the invariant "a pending dollar sign is never followed by an
    opening brace"):
      C19_typescript_template_roundtrip : forall s, wf_text s ->
        exists l, ts_string_literal false true s = Ok l /\ lex_js true l = Some (utf16 s).
    Proved: every code point, in each of the three look-ahead classes (end of text,
    opening brace next, anything else next), is escaped into text that the template
    lexer reads back — a dollar sign before a brace is escaped, a dollar sign before
    anything else leaves the lexer in the pending-dollar state without emitting. *)
Theorem C19_typescript_template_chars_partial :
  all_below 1114112 (fun c => tpl_char c None && tpl_char c (Some 123) && tpl_char c (Some 97)) = true.
Proof. exact tpl_side. Qed.
Print Assumptions C19_typescript_template_chars_partial.

Example C19_typescript_template_examples :
  (match ts_string_literal false true [36; 36; 123; 97; 125; 36; 96; 92; 36; 123; 36] with Ok l => lex_js true l | _ => None end)
  = Some [36; 36; 123; 97; 125; 36; 96; 92; 36; 123; 36].
Proof. vm_compute. reflexivity. Qed.
Print Assumptions C19_typescript_template_examples.

(** ** Java *)

Theorem C19_java_lit_roundtrip : forall s, wf_text s ->
  exists l, java_string_literal s = Ok l /\ lex_java l = Some (utf16 s).
Proof. exact (java_roundtrip java_side). Qed.
Print Assumptions C19_java_lit_roundtrip.

(** ** C++ wide string (32-bit wchar_t), narrow string, wide character

    Full statements (for the C++11 the generated SDK is compiled as, where translation
    phase 1 replaces trigraphs):
      C19_cpp_wstring_lit_roundtrip : forall s, wf_text s ->
        exists l, cpp_wstring_literal s = Ok l /\ lex_cpp11_string true l = Some s
      C19_cpp_string_lit_roundtrip  : the same for ASCII s and [lex_cpp11_string false].
    They are FALSE of the code ([C19_cpp11_trigraph_refuted]): a question mark is emitted
    verbatim, so [??/] in the text becomes a backslash in the literal. Escaping [?] would
    change the recorded golden C++ files (regex patterns contain [?]), so this is a known
    finding and not repaired. Proved instead ([_partial]): the round trip for every string
    under the lexer without trigraph replacement (C++17 and later, g++ default mode). *)
Theorem C19_cpp_wstring_lit_roundtrip_partial : forall s, wf_text s ->
  exists l, cpp_wstring_literal s = Ok l /\ lex_cpp_string true l = Some s.
Proof. exact (cpp_wstring_roundtrip cpp_wstring_side). Qed.
Print Assumptions C19_cpp_wstring_lit_roundtrip_partial.

Theorem C19_cpp_string_lit_roundtrip_partial : forall s, wf_text s ->
  cpp_string_representable s = true ->
  exists l, cpp_string_literal s = Ok l /\ lex_cpp_string false l = Some s.
Proof. exact (cpp_string_roundtrip cpp_string_side). Qed.
Print Assumptions C19_cpp_string_lit_roundtrip_partial.

Theorem C19_cpp11_trigraph_refuted :
  exists s l, wf_text s /\ cpp_wstring_literal s = Ok l /\ lex_cpp11_string true l <> Some s
              /\ exists s' l', cpp_string_literal s' = Ok l' /\ lex_cpp11_string false l' = Some [97; 124]
                               /\ s' <> [97; 124].
Proof.
  exists [63; 63; 47], (s2l "L""??/"""). split; [repeat constructor; vm_compute; discriminate |].
  split; [vm_compute; reflexivity |]. split; [vm_compute; discriminate |].
  exists [97; 63; 63; 33], (s2l """a??!"""). split; [vm_compute; reflexivity |].
  split; [vm_compute; reflexivity | discriminate].
Qed.
Print Assumptions C19_cpp11_trigraph_refuted.

Theorem C19_cpp_string_lit_reports : forall s,
  cpp_string_representable s = false -> cpp_string_literal s = Err RViolation.
Proof. exact (cpp_string_reports cpp_string_side). Qed.
Print Assumptions C19_cpp_string_lit_reports.


Theorem C19_cpp_wchar_lit_roundtrip : forall c, c <= max_cp ->
  exists l, cpp_wchar_literal [c] = Ok l /\ lex_cpp_wchar l = Some c.
Proof. exact (cpp_wchar_roundtrip cpp_wchar_side). Qed.
Print Assumptions C19_cpp_wchar_lit_roundtrip.

Theorem C19_cpp_wchar_lit_reports : forall s, length s <> 1%nat ->
  cpp_wchar_literal s = Err RViolation.
Proof. exact (cpp_wchar_reports cpp_wchar_side). Qed.
Print Assumptions C19_cpp_wchar_lit_reports.

(** ** C# (lexer from the specification only) *)

Theorem C19_csharp_lit_roundtrip : forall s, wf_text s ->
  exists l, cs_string_literal s = Ok l /\ lex_cs l = Some (utf16 s).
Proof. exact (cs_roundtrip cs_side). Qed.
Print Assumptions C19_csharp_lit_roundtrip.

(** ** Go (lexer from the specification only): surrogates are refused *)

Theorem C19_go_lit_roundtrip : forall s, wf_text s -> go_representable s = true ->
  exists l, go_string_literal s = Ok l /\ lex_go l = Some s.
Proof. exact (go_roundtrip go_side). Qed.
Print Assumptions C19_go_lit_roundtrip.

Theorem C19_go_lit_reports : forall s, wf_text s -> go_representable s = false ->
  go_string_literal s = Err RValueError.
Proof. exact (go_reports go_side). Qed.
Print Assumptions C19_go_lit_reports.

(** ** Non-vacuity: the suspects of the property text, through escaper and lexer *)
Example C19_nonvacuous :
  cpp_wstring_literal [1; 102; 55296; 97; 63]
    = Ok (s2l "L""\001f\xd800"" L""a?""")
  /\ lex_cpp_string true (s2l "L""\x1f""") = Some [31]
  /\ go_string_literal [1; 97; 98] = Ok (s2l """\x01ab""")
  /\ lex_go (s2l """\x1ab""") = Some [26; 98]
  /\ lex_cs [34; 8232; 34] = None
  /\ lex_py [39; 0; 39] = None
  /\ go_representable [55296] = false.
Proof. vm_compute. repeat split; reflexivity. Qed.
Print Assumptions C19_nonvacuous.
