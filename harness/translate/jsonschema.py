"""jsonschema/main.py: the data-like parts, re-translated on every run (fail closed).

* ``_PRIMITIVE_MAP`` -> ``primitive_map : list (text * text)`` (PrimitiveType literal name
  -> JSON type name), in source order;
* the module-level ``assert all(literal in _PRIMITIVE_MAP ...)`` must be present;
* ``execute`` must call ``generate(..., fix_pattern=<name>)``: the name of the function
  passed as ``fix_pattern`` -> ``execute_fix_pattern : text``;
* the ``contentEncoding`` constant assigned in ``_define_type`` for byte arrays.
"""
from __future__ import annotations

import ast

from harness.translate.astutil import TranslateError, coq_text, find_function, parse


def gen_jsonschema() -> str:
    tree = parse("aas_core_codegen/jsonschema/main.py")
    table = None
    for node in tree.body:
        if isinstance(node, ast.Assign) and len(node.targets) == 1 and isinstance(node.targets[0], ast.Name) \
                and node.targets[0].id == "_PRIMITIVE_MAP":
            if table is not None:
                raise TranslateError("_PRIMITIVE_MAP assigned twice")
            if not isinstance(node.value, ast.Dict):
                raise TranslateError("_PRIMITIVE_MAP is not a dict display")
            table = []
            for k, v in zip(node.value.keys, node.value.values):
                # intermediate.PrimitiveType.<NAME>
                if not (isinstance(k, ast.Attribute) and isinstance(k.value, ast.Attribute)
                        and k.value.attr == "PrimitiveType"):
                    raise TranslateError(f"unexpected key {ast.dump(k)}")
                if not (isinstance(v, ast.Constant) and isinstance(v.value, str)):
                    raise TranslateError(f"unexpected value {ast.dump(v)}")
                table.append((k.attr, v.value))
    if table is None:
        raise TranslateError("_PRIMITIVE_MAP not found")
    if len({k for k, _ in table}) != len(table):
        raise TranslateError("duplicate key in _PRIMITIVE_MAP")
    # later re-assignments / mutations of the table would make the translation wrong
    for node in ast.walk(tree):
        if isinstance(node, (ast.Subscript,)) and isinstance(node.value, ast.Name) \
                and node.value.id == "_PRIMITIVE_MAP" and isinstance(node.ctx, (ast.Store, ast.Del)):
            raise TranslateError("_PRIMITIVE_MAP is mutated")

    execute = find_function(tree, "execute")
    fix_names = []
    for node in ast.walk(execute):
        if isinstance(node, ast.Call) and isinstance(node.func, ast.Name) and node.func.id == "generate":
            for kw in node.keywords:
                if kw.arg == "fix_pattern":
                    if not isinstance(kw.value, ast.Name):
                        raise TranslateError("fix_pattern argument of generate is not a plain name")
                    fix_names.append(kw.value.id)
    if len(fix_names) != 1:
        raise TranslateError(f"expected exactly one generate(..., fix_pattern=...) in execute, got {fix_names}")

    define_type = find_function(tree, "_define_type")
    encodings = []
    for node in ast.walk(define_type):
        if isinstance(node, ast.Assign) and len(node.targets) == 1 and isinstance(node.targets[0], ast.Subscript):
            sl = node.targets[0].slice
            if isinstance(sl, ast.Constant) and sl.value == "contentEncoding":
                if not (isinstance(node.value, ast.Constant) and isinstance(node.value.value, str)):
                    raise TranslateError("contentEncoding is not a string constant")
                encodings.append(node.value.value)
    if len(encodings) != 1:
        raise TranslateError(f"expected exactly one contentEncoding assignment, got {encodings}")

    out = [
        "From Coq Require Import List NArith.",
        "Import ListNotations.",
        "(* _PRIMITIVE_MAP: PrimitiveType literal -> JSON type name, in source order *)",
        "Definition primitive_map : list (list N * list N) := [",
        ";\n".join(f"  ({coq_text(k)}, {coq_text(v)})" for k, v in table),
        "].",
        f"Definition execute_fix_pattern : list N := {coq_text(fix_names[0])}.",
        f"Definition content_encoding : list N := {coq_text(encodings[0])}.",
    ]
    return "\n".join(out) + "\n"


GEN_FILES = {"GenJsonSchema": gen_jsonschema}
