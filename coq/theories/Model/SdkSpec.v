(** Executable specification of what the generated Python SDK must compute (C10, C29).

    A *lite* meta-model (what the generators of python/lib see of the intermediate symbol
    table): enumerations with their literal values; classes with the stacked properties in
    constructor/serialization order, the JSON names, the model type, [with_model_type] and
    the concrete descendants. Types follow the "simple type patterns" the front end enforces:
    a property is an atom or a list of atoms, optionally [Optional] at the top.

    Instances are trees ([VObj cls fields], one field per stacked property, [VNone] for an
    unset optional property). JSON values are Python *jsonables* (what [to_jsonable] returns
    and [*_from_jsonable] consumes), with Python's distinction of [bool]/[int]/[float].

    This file: types, look-ups, well-formedness tests, traversal specification
    ([descend_once], [descend], type-directed exactly like the unrolled code that
    [_generate_descend_body] emits), visitor dispatch, accessors, [to_json]/[from_json]
    following [python/lib/_generate_jsonization.py], XML text escaping of
    [_escape_and_write_text] and the text reading of a conforming XML 1.0 parser.
    No proofs here. *)
From Coq Require Import List NArith ZArith Bool.
From Coq Require Strings.String.
Import Coq.Strings.String.StringSyntax.
From Acg Require Import Base.Str Base.Outcome.
Import ListNotations.

Inductive prim : Type := PBool | PInt | PFloat | PStr | PBytes.
Inductive aty : Type := APrim (p : prim) | AEnum (e : text) | ACls (c : text).
Inductive pty : Type := TAtom (a : aty) | TList (a : aty).

Record prop : Type := mkProp { p_json : text; p_ty : pty; p_opt : bool }.
Record enum : Type := mkEnum { e_name : text; e_lits : list (text * text) }.
Record cls : Type := mkCls {
  c_name : text;
  c_mt : text;               (* naming.json_model_type *)
  c_abstract : bool;
  c_with_mt : bool;          (* serialization.with_model_type *)
  c_props : list prop;       (* stacked properties *)
  c_desc : list text         (* concrete descendants *)
}.
Record mm : Type := mkMM { mm_enums : list enum; mm_classes : list cls }.

Inductive value : Type :=
| VNone
| VBool (b : bool)
| VInt (z : Z)
| VFloat (bits : N)          (* IEEE-754 bit pattern: compared bit-wise *)
| VStr (t : text)
| VBytes (b : list N)
| VEnum (e l : text)         (* enumeration name, literal name *)
| VList (vs : list value)
| VObj (c : text) (fs : list value).

Inductive json : Type :=
| JNull
| JBool (b : bool)
| JInt (z : Z)
| JFloat (bits : N)
| JStr (t : text)
| JArr (js : list json)
| JObj (kvs : list (text * json)).   (* dict in insertion order *)

(** ** Look-ups *)
Fixpoint find_cls_in (cs : list cls) (n : text) : option cls :=
  match cs with
  | [] => None
  | c :: r => if text_eqb (c_name c) n then Some c else find_cls_in r n
  end.
Definition find_cls (m : mm) (n : text) : option cls := find_cls_in (mm_classes m) n.

Fixpoint find_enum_in (es : list enum) (n : text) : option enum :=
  match es with
  | [] => None
  | e :: r => if text_eqb (e_name e) n then Some e else find_enum_in r n
  end.
Definition find_enum (m : mm) (n : text) : option enum := find_enum_in (mm_enums m) n.

Fixpoint assoc {A} (k : text) (l : list (text * A)) : option A :=
  match l with
  | [] => None
  | (k', v) :: r => if text_eqb k' k then Some v else assoc k r
  end.

(** literal name -> value ([literal.value]) *)
Definition enum_value (m : mm) (e l : text) : option text :=
  match find_enum m e with Some en => assoc l (e_lits en) | None => None end.

(** value -> literal name: the generated [_X_FROM_STR] dictionary (a later duplicate key
    replaces an earlier one). *)
Fixpoint lit_of_value_rev (rlits : list (text * text)) (s : text) : option text :=
  match rlits with
  | [] => None
  | (n, v) :: r => if text_eqb v s then Some n else lit_of_value_rev r s
  end.
Definition enum_from_str (m : mm) (e s : text) : option text :=
  match find_enum m e with Some en => lit_of_value_rev (rev (e_lits en)) s | None => None end.

(** The classes an expression of static class type [c] may hold at run time: [c] itself
    when concrete, and its concrete descendants. *)
Definition options (m : mm) (c : text) : list text :=
  match find_cls m c with
  | Some k => (if c_abstract k then [] else [c]) ++ c_desc k
  | None => []
  end.

Definition is_none (v : value) : bool := match v with VNone => true | _ => false end.
Definition is_obj (v : value) : bool := match v with VObj _ _ => true | _ => false end.

(** ** Well-formed instances *)
Definition byte_ok (b : N) : bool := N.ltb b 256.

Fixpoint wf_atom (m : mm) (a : aty) (v : value) {struct v} : bool :=
  match a, v with
  | APrim PBool, VBool _ => true
  | APrim PInt, VInt _ => true
  | APrim PFloat, VFloat _ => true
  | APrim PStr, VStr _ => true
  | APrim PBytes, VBytes b => forallb byte_ok b
  | AEnum e, VEnum e' l =>
      text_eqb e e' && match enum_value m e l with Some _ => true | None => false end
  | ACls c, VObj d fs =>
      mem_text d (options m c) &&
      match find_cls m d with
      | Some k =>
          negb (c_abstract k) &&
          (fix go (ps : list prop) (fs : list value) {struct fs} : bool :=
             match ps, fs with
             | [], [] => true
             | p :: ps', f :: fs' =>
                 (match f with
                  | VNone => p_opt p
                  | VList vs =>
                      match p_ty p with
                      | TList a' => forallb (wf_atom m a') vs
                      | TAtom _ => false
                      end
                  | _ =>
                      match p_ty p with
                      | TAtom a' => wf_atom m a' f
                      | TList _ => false
                      end
                  end) && go ps' fs'
             | _, _ => false
             end) (c_props k) fs
      | None => false
      end
  | _, _ => false
  end.

(** An instance: an object of a concrete class, well-formed at its own class. *)
Definition wf_instance (m : mm) (i : value) : bool :=
  match i with VObj c _ => wf_atom m (ACls c) i | _ => false end.
Definition cls_of (i : value) : text := match i with VObj c _ => c | _ => [] end.

(** ** Traversal (C29) *)

Definition is_cls_atom (a : aty) : bool := match a with ACls _ => true | _ => false end.

(** What one property contributes to [descend_once]: the code is unrolled from the
    *declared type* of the property ([yield self.p] / [yield from self.p] / nothing, under
    [if self.p is not None] for optional ones). *)
Definition once_of_prop (p : prop) (f : value) : list value :=
  match p_ty p with
  | TAtom a => if is_cls_atom a then (if is_none f then [] else [f]) else []
  | TList a => if is_cls_atom a then (match f with VList vs => vs | _ => [] end) else []
  end.

Fixpoint once_fields (ps : list prop) (fs : list value) : list value :=
  match ps, fs with
  | p :: ps', f :: fs' => once_of_prop p f ++ once_fields ps' fs'
  | _, _ => []
  end.

Definition descend_once (m : mm) (v : value) : list value :=
  match v with
  | VObj c fs => match find_cls m c with Some k => once_fields (c_props k) fs | None => [] end
  | _ => []
  end.

(** [descend]: [yield x; yield from x.descend()] for each directly nested [x], where
    [x.descend()] is the method of the run-time class of [x]. *)
Fixpoint descend (m : mm) (v : value) {struct v} : list value :=
  match v with
  | VObj c fs =>
      match find_cls m c with
      | Some k =>
          (fix go (ps : list prop) (fs : list value) {struct fs} : list value :=
             match ps, fs with
             | p :: ps', f :: fs' =>
                 (match p_ty p with
                  | TAtom a =>
                      if is_cls_atom a then
                        (match f with VNone => [] | _ => f :: descend m f end)
                      else []
                  | TList a =>
                      if is_cls_atom a then
                        (match f with
                         | VList vs =>
                             (fix items (vs : list value) : list value :=
                                match vs with
                                | [] => []
                                | x :: r => (x :: descend m x) ++ items r
                                end) vs
                         | _ => []
                         end)
                      else []
                  end) ++ go ps' fs'
             | _, _ => []
             end) (c_props k) fs
      | None => []
      end
  | _ => []
  end.

(** Value-directed reading of the property text: the directly nested class instances in
    property and list order. *)
Definition nested_of_field (f : value) : list value :=
  match f with
  | VObj _ _ => [f]
  | VList vs => filter is_obj vs
  | _ => []
  end.
Definition nested_once (v : value) : list value :=
  match v with VObj _ fs => flat_map nested_of_field fs | _ => [] end.

(** Visitor / transformer dispatch: the method called is the one named after the run-time
    class ([visit_<cls>], [transform_<cls>], with or without context). *)
Definition dispatch_target (v : value) : option text :=
  match v with VObj c _ => Some c | _ => None end.

(** Accessors. [over_X_or_empty]: the items, or nothing when unset. [X_or_default]. *)
Definition over_or_empty (f : value) : list value :=
  match f with VList vs => vs | _ => [] end.
Definition or_default (d f : value) : value :=
  match f with VNone => d | _ => f end.

(** ** JSON (C10) *)

Definition MODEL_TYPE : text := s2l "modelType".

Section Json.
  (** Python's [base64.b64encode(b).decode('ascii')] and
      [base64.b64decode(s.encode('ascii'))]: [Ok bytes], or [Crash ValueError] for
      [binascii.Error] / [UnicodeEncodeError] (both subclasses of [ValueError]). The concrete
      functions are in Model/SdkSpecB64.v. *)
  Variable b64enc : list N -> text.
  Variable b64dec : text -> outcome (list N) unit.
  Variable m : mm.

  Fixpoint members (ps : list prop) (fs : list value) (js : list json) : list (text * json) :=
    match ps, fs, js with
    | p :: ps', f :: fs', j :: js' =>
        (if is_none f then [] else [(p_json p, j)]) ++ members ps' fs' js'
    | _, _, _ => []
    end.

  (** [_Serializer.transform_<cls>]: dispatches on the run-time class. The [JNull] branches
      are not reachable from well-formed instances. *)
  Fixpoint to_json (v : value) : json :=
    match v with
    | VNone => JNull
    | VBool b => JBool b
    | VInt z => JInt z
    | VFloat f => JFloat f
    | VStr s => JStr s
    | VBytes b => JStr (b64enc b)
    | VEnum e l => match enum_value m e l with Some s => JStr s | None => JNull end
    | VList vs => JArr (map to_json vs)
    | VObj c fs =>
        match find_cls m c with
        | Some k =>
            JObj (members (c_props k) fs (map to_json fs)
                  ++ (if c_with_mt k then [(MODEL_TYPE, JStr (c_mt k))] else []))
        | None => JNull
        end
    end.

  (** [_bool_from_jsonable] ... [_bytes_from_jsonable]. [isinstance(True, int)] holds, so a
      JSON boolean is accepted for an [int] property and stored as the boolean. *)
  Definition prim_from_json (p : prim) (j : json) : outcome value unit :=
    match p, j with
    | PBool, JBool b => Ok (VBool b)
    | PInt, JInt z => Ok (VInt z)
    | PInt, JBool b => Ok (VBool b)
    | PFloat, JFloat f => Ok (VFloat f)
    | PStr, JStr s => Ok (VStr s)
    | PBytes, JStr s =>
        match b64dec s with
        | Ok b => Ok (VBytes b)
        | Err e => Err e
        | Crash k => Crash k
        end
    | _, _ => Err tt
    end.

  Fixpoint find_by_mt (names : list text) (s : text) : option cls :=
    match names with
    | [] => None
    | n :: r =>
        match find_cls m n with
        | Some k => if text_eqb (c_mt k) s then Some k else find_by_mt r s
        | None => find_by_mt r s
        end
    end.

  (** Which concrete class the mapping [kvs] is parsed as when a value of class [c] is
      expected: the dispatch function of a class with concrete descendants (model type
      mandatory, looked up in the dispatch map), or the class itself (model type checked only
      with [with_model_type]). [jsonable.get("modelType", None) is None] covers both a
      missing key and an explicit null. *)
  Definition resolve_cls (c : text) (kvs : list (text * json)) : outcome cls unit :=
    match find_cls m c with
    | None => Err tt
    | Some k =>
        match c_desc k with
        | [] =>
            if c_abstract k then Err tt
            else if c_with_mt k then
              match assoc MODEL_TYPE kvs with
              | None | Some JNull => Err tt
              | Some (JStr s) => if text_eqb s (c_mt k) then Ok k else Err tt
              | Some _ => Err tt
              end
            else Ok k
        | _ :: _ =>
            match assoc MODEL_TYPE kvs with
            | None | Some JNull => Err tt
            | Some (JStr s) =>
                match find_by_mt (options m c) s with Some d => Ok d | None => Err tt end
            | Some _ => Err tt
            end
        end
    end.

  Fixpoint find_prop (ps : list prop) (key : text) : option prop :=
    match ps with
    | [] => None
    | p :: r => if text_eqb (p_json p) key then Some p else find_prop r key
    end.

  (** The loop [for i, jsonable_item in enumerate(array_like)]. *)
  Definition parse_items (rec : json -> outcome value unit) : list json -> outcome (list value) unit :=
    fix items (js : list json) : outcome (list value) unit :=
      match js with
      | [] => Ok []
      | x :: r =>
          match rec x with
          | Ok v => match items r with Ok vs => Ok (v :: vs) | Err e => Err e | Crash k => Crash k end
          | Err e => Err e
          | Crash k => Crash k
          end
      end.

  (** The loop [for key, jsonable_value in jsonable.items()] over the setter map: unknown key
      -> error; ["modelType"] -> ignored; otherwise the property's setter. The first failing
      key decides. *)
  Definition parse_fields (rec : aty -> json -> outcome value unit) (ps : list prop)
    : list (text * json) -> outcome (list (text * value)) unit :=
    fix fields (kvs : list (text * json)) : outcome (list (text * value)) unit :=
      match kvs with
      | [] => Ok []
      | (key, jv) :: r =>
          if text_eqb key MODEL_TYPE then fields r
          else
            match find_prop ps key with
            | None => Err tt
            | Some p =>
                let pv :=
                  match p_ty p with
                  | TAtom a => rec a jv
                  | TList a =>
                      match jv with
                      | JArr js =>
                          match parse_items (rec a) js with
                          | Ok vs => Ok (VList vs)
                          | Err e => Err e
                          | Crash k => Crash k
                          end
                      | _ => Err tt
                      end
                  end in
                match pv with
                | Ok v =>
                    match fields r with
                    | Ok rest => Ok ((key, v) :: rest)
                    | Err e => Err e
                    | Crash k => Crash k
                    end
                | Err e => Err e
                | Crash k => Crash k
                end
            end
      end.

  (** [if setter.x is None: raise "required property missing"], then the constructor call.
      A later assignment of the same key replaces an earlier one (not expressible in a
      Python dict; kept total here). *)
  Fixpoint last_assoc (k : text) (l : list (text * value)) : option value :=
    match l with
    | [] => None
    | (k', v) :: r =>
        match last_assoc k r with
        | Some v' => Some v'
        | None => if text_eqb k' k then Some v else None
        end
    end.

  Fixpoint build_fields (ps : list prop) (parsed : list (text * value)) : outcome (list value) unit :=
    match ps with
    | [] => Ok []
    | p :: r =>
        match last_assoc (p_json p) parsed with
        | Some v =>
            match build_fields r parsed with Ok vs => Ok (v :: vs) | Err e => Err e | Crash k => Crash k end
        | None =>
            if p_opt p then
              match build_fields r parsed with Ok vs => Ok (VNone :: vs) | Err e => Err e | Crash k => Crash k end
            else Err tt
        end
    end.

  Fixpoint from_json (a : aty) (j : json) {struct j} : outcome value unit :=
    match a with
    | APrim p => prim_from_json p j
    | AEnum e =>
        match j with
        | JStr s => match enum_from_str m e s with Some l => Ok (VEnum e l) | None => Err tt end
        | _ => Err tt
        end
    | ACls c =>
        match j with
        | JObj kvs =>
            match resolve_cls c kvs with
            | Ok k =>
                match parse_fields from_json (c_props k) kvs with
                | Ok parsed =>
                    match build_fields (c_props k) parsed with
                    | Ok fs => Ok (VObj (c_name k) fs)
                    | Err e => Err e
                    | Crash x => Crash x
                    end
                | Err e => Err e
                | Crash x => Crash x
                end
            | Err e => Err e
            | Crash x => Crash x
            end
        | _ => Err tt
        end
    end.
End Json.

(** ** Decidable equality of values and documents (for the correspondence) *)
Fixpoint value_eqb (a b : value) {struct a} : bool :=
  match a, b with
  | VNone, VNone => true
  | VBool x, VBool y => Bool.eqb x y
  | VInt x, VInt y => Z.eqb x y
  | VFloat x, VFloat y => N.eqb x y
  | VStr x, VStr y => text_eqb x y
  | VBytes x, VBytes y => text_eqb x y
  | VEnum e l, VEnum e' l' => text_eqb e e' && text_eqb l l'
  | VList xs, VList ys =>
      (fix go (xs ys : list value) {struct xs} : bool :=
         match xs, ys with
         | [], [] => true
         | x :: xs', y :: ys' => value_eqb x y && go xs' ys'
         | _, _ => false
         end) xs ys
  | VObj c xs, VObj d ys =>
      text_eqb c d &&
      (fix go (xs ys : list value) {struct xs} : bool :=
         match xs, ys with
         | [], [] => true
         | x :: xs', y :: ys' => value_eqb x y && go xs' ys'
         | _, _ => false
         end) xs ys
  | _, _ => false
  end.

Fixpoint json_eqb (a b : json) {struct a} : bool :=
  match a, b with
  | JNull, JNull => true
  | JBool x, JBool y => Bool.eqb x y
  | JInt x, JInt y => Z.eqb x y
  | JFloat x, JFloat y => N.eqb x y
  | JStr x, JStr y => text_eqb x y
  | JArr xs, JArr ys =>
      (fix go (xs ys : list json) {struct xs} : bool :=
         match xs, ys with
         | [], [] => true
         | x :: xs', y :: ys' => json_eqb x y && go xs' ys'
         | _, _ => false
         end) xs ys
  | JObj xs, JObj ys =>
      (fix go (xs ys : list (text * json)) {struct xs} : bool :=
         match xs, ys with
         | [], [] => true
         | (k, x) :: xs', (k', y) :: ys' => text_eqb k k' && json_eqb x y && go xs' ys'
         | _, _ => false
         end) xs ys
  | _, _ => false
  end.

(** ** Well-formed meta-models (decidable; what [json_roundtrip] needs) *)
Fixpoint nodup_text (l : list text) : bool :=
  match l with
  | [] => true
  | x :: r => negb (mem_text x r) && nodup_text r
  end.

Definition cls_ok (m : mm) (k : cls) : bool :=
  nodup_text (map p_json (c_props k))
  && negb (mem_text MODEL_TYPE (map p_json (c_props k)))
  && forallb (fun d => match find_cls m d with
                       | Some kd => negb (c_abstract kd) && text_eqb (c_name kd) d
                       | None => false end) (c_desc k)
  (* a class that is de-serialized through a dispatch needs the model type on every
     class it may dispatch to *)
  && (match c_desc k with
      | [] => true
      | _ => forallb (fun d => match find_cls m d with
                               | Some kd => c_with_mt kd | None => false end) (options m (c_name k))
      end)
  && nodup_text (map (fun d => match find_cls m d with Some kd => c_mt kd | None => [] end)
                     (options m (c_name k))).

Definition mm_ok (m : mm) : bool :=
  nodup_text (map c_name (mm_classes m))
  && nodup_text (map e_name (mm_enums m))
  && forallb (fun e => nodup_text (map snd (e_lits e)) && nodup_text (map fst (e_lits e))) (mm_enums m)
  && forallb (cls_ok m) (mm_classes m).

(** ** XML text (C10) *)

Definition AMP : N := 38.  Definition LT : N := 60.  Definition GT : N := 62.
Definition SEMI : N := 59. Definition HASH : N := 35.

(** [_escape_and_write_text]: [text.replace('&','&amp;').replace('<','&lt;').replace('>','&gt;')] *)
Fixpoint xml_escape (t : text) : text :=
  match t with
  | [] => []
  | c :: r =>
      (if N.eqb c AMP then s2l "&amp;"
       else if N.eqb c LT then s2l "&lt;"
       else if N.eqb c GT then s2l "&gt;"
       else [c]) ++ xml_escape r
  end.

(** The writer this specification expects after the fix proposed in docs/C10.md: a carriage
    return is written as a character reference. *)
Fixpoint xml_escape_cr (t : text) : text :=
  match t with
  | [] => []
  | c :: r =>
      (if N.eqb c AMP then s2l "&amp;"
       else if N.eqb c LT then s2l "&lt;"
       else if N.eqb c GT then s2l "&gt;"
       else if N.eqb c CR then s2l "&#13;"
       else [c]) ++ xml_escape_cr r
  end.

(** XML 1.0 §2.11: before parsing, [\r\n] and a lone [\r] become [\n]. *)
Fixpoint normalize_eol (t : text) : text :=
  match t with
  | [] => []
  | c :: r =>
      if N.eqb c CR then
        match r with
        | d :: r' => if N.eqb d NL then NL :: normalize_eol r' else NL :: normalize_eol r
        | [] => [NL]
        end
      else c :: normalize_eol r
  end.

(** Character data of an element whose content was produced by the writers above: the five
    predefined entities and [&#13;] are resolved; anything else after [&] is kept verbatim
    (a real parser reports an error there; never produced by the writers). *)
Fixpoint decode_entities (fuel : nat) (t : text) : text :=
  match fuel with
  | O => t
  | S f =>
      match t with
      | [] => []
      | c :: r =>
          if N.eqb c AMP then
            if starts_with (s2l "amp;") r then AMP :: decode_entities f (skipn 4 r)
            else if starts_with (s2l "lt;") r then LT :: decode_entities f (skipn 3 r)
            else if starts_with (s2l "gt;") r then GT :: decode_entities f (skipn 3 r)
            else if starts_with (s2l "#13;") r then CR :: decode_entities f (skipn 4 r)
            else c :: decode_entities f r
          else c :: decode_entities f r
      end
  end.

Definition parse_text (t : text) : text :=
  decode_entities (S (length t)) (normalize_eol t).

(** XML 1.0 [Char]: what text an XML document can carry at all. *)
Definition xml_char (c : N) : bool :=
  N.eqb c 9 || N.eqb c 10 || N.eqb c 13
  || (N.leb 32 c && N.leb c 55295)
  || (N.leb 57344 c && N.leb c 65533)
  || (N.leb 65536 c && N.leb c 1114111).
Definition xml_repr (t : text) : bool := forallb xml_char t.
