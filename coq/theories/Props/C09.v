(** C09 — All runnable SDK targets agree with the Python SDK (partial).

    Full statement (properties.jsonl): for every accepted meta-model the generated
    TypeScript, Java and C++ SDKs flag the same invariants with the same descriptions
    as the Python SDK for every instance, serialise to equal JSON, accept/reject the
    same documents, and expose equal constants and enumeration literals.

    What is *proved* here is the operator level of that statement, over the operator
    tables and connective skeletons re-translated from the four transpilers on every
    run ([Gen/GenOperatorTables.v]): the token a transpiler emits for a comparator,
    read with the semantics of the target language on the run-time representation the
    generated SDK uses ([Model/OpSem.v]), computes Python's comparison — in full for
    C++, and for Java / TypeScript on a stated subset ([_partial]) with machine-checked
    counterexamples outside it ([_refuted]): Java compares two boxed values or two
    strings by *address*, JavaScript orders strings by UTF-16 code units. The
    connectives not / and / or / implication are proved for all four languages.
    Everything else of the statement (dispatch, paths, descriptions, JSON, constants,
    enumeration literals) is corresponded at text level and by compiling and running
    the Java and C++ SDKs (harness/props/c09.py); TypeScript cannot be executed here.

    This file contains only statements, [exact]s and [Print Assumptions]. *)
From Coq Require Import List NArith ZArith Bool.
From Acg Require Import Base.Str Model.OpSem Proofs.OpSemFacts Gen.GenOperatorTables.
Import ListNotations.
Open Scope Z_scope.

(** ** Generated side conditions: every table maps each of the six comparators to the
    token that denotes it in the target language, and every template of
    [transform_comparison] writes left operand, operator, right operand. *)
Theorem C09_gen_table_python : table_ok python_comparison_map = true.
Proof. vm_compute. reflexivity. Qed.
Print Assumptions C09_gen_table_python.
Theorem C09_gen_table_typescript : table_ok typescript_comparison_map = true.
Proof. vm_compute. reflexivity. Qed.
Print Assumptions C09_gen_table_typescript.
Theorem C09_gen_table_java : table_ok java_comparison_map = true.
Proof. vm_compute. reflexivity. Qed.
Print Assumptions C09_gen_table_java.
Theorem C09_gen_table_cpp : table_ok cpp_comparison_map = true.
Proof. vm_compute. reflexivity. Qed.
Print Assumptions C09_gen_table_cpp.

Theorem C09_gen_operand_order :
  forallb cmp_template_ok
    (python_cmp_templates ++ typescript_cmp_templates ++ java_cmp_templates ++ cpp_cmp_templates)
  && nonempty python_cmp_templates && nonempty typescript_cmp_templates
  && nonempty java_cmp_templates && nonempty cpp_cmp_templates = true.
Proof. vm_compute. reflexivity. Qed.
Print Assumptions C09_gen_operand_order.

(** ... and every skeleton of the connectives computes the connective ([conn_ok]). *)
Theorem C09_gen_connectives_python :
  conn_ok Python python_not_shapes python_impl_shapes python_and_shapes python_or_shapes = true.
Proof. vm_compute. reflexivity. Qed.
Print Assumptions C09_gen_connectives_python.
Theorem C09_gen_connectives_typescript :
  conn_ok TypeScript typescript_not_shapes typescript_impl_shapes typescript_and_shapes typescript_or_shapes = true.
Proof. vm_compute. reflexivity. Qed.
Print Assumptions C09_gen_connectives_typescript.
Theorem C09_gen_connectives_java :
  conn_ok Java java_not_shapes java_impl_shapes java_and_shapes java_or_shapes = true.
Proof. vm_compute. reflexivity. Qed.
Print Assumptions C09_gen_connectives_java.
Theorem C09_gen_connectives_cpp :
  conn_ok Cpp cpp_not_shapes cpp_impl_shapes cpp_and_shapes cpp_or_shapes = true.
Proof. vm_compute. reflexivity. Qed.
Print Assumptions C09_gen_connectives_cpp.

(** ** Quantifiers: in each of the four cases any/all x for-each/for-range, every template
    [_transform_any_or_all] can return is written with the helper of that quantifier kind and
    that iteration kind (C++ [common::All/Some/AllRange/SomeRange], Java
    [stream().allMatch/anyMatch] and [IntStream.range], TypeScript [AasCommon.every/some]
    over [AasCommon.map] and [AasCommon.range], Python [all/any] over a generator). *)
Theorem C09_gen_quantifiers :
  quantifier_table_ok python_quantifier_table && quantifier_table_ok typescript_quantifier_table
  && quantifier_table_ok java_quantifier_table && quantifier_table_ok cpp_quantifier_table = true.
Proof. vm_compute. reflexivity. Qed.
Print Assumptions C09_gen_quantifiers.

Theorem C09_quantifier_tables_sound : forall t, quantifier_table_ok t = true ->
  (forall a g a' g', In (a, g, a', g') t -> a' = a /\ g' = g) /\
  (forall a g, exists a' g', In (a, g, a', g') t).
Proof. exact quantifier_table_sound. Qed.
Print Assumptions C09_quantifier_tables_sound.

(** ** The tables never raise [KeyError]. *)
Theorem C09_tables_total : forall op,
  lookup_cmp python_comparison_map op <> None /\ lookup_cmp typescript_comparison_map op <> None /\
  lookup_cmp java_comparison_map op <> None /\ lookup_cmp cpp_comparison_map op <> None.
Proof.
  exact (fun op => conj (table_ok_total _ C09_gen_table_python op)
         (conj (table_ok_total _ C09_gen_table_typescript op)
         (conj (table_ok_total _ C09_gen_table_java op)
               (table_ok_total _ C09_gen_table_cpp op)))).
Qed.
Print Assumptions C09_tables_total.

(** ** Python (reference): the emitted token denotes the comparator. *)
Theorem C09_op_table_sound_python : forall op tok,
  lookup_cmp python_comparison_map op = Some tok -> tok_cmp tok = Some op.
Proof. exact (table_ok_sound _ C09_gen_table_python). Qed.
Print Assumptions C09_op_table_sound_python.

(** ** C++, full: on every pair of comparable values the emitted operator, applied to
    the C++ values, computes Python's comparison ([std::wstring] with a 32-bit
    [wchar_t]; optionals are dereferenced by the transpiler). *)
Theorem C09_op_table_sound_cpp : forall op tok v w,
  lookup_cmp cpp_comparison_map op = Some tok -> comparable op v w ->
  sem_cpp tok (cpp_repr v) (cpp_repr w) = py_cmp op v w.
Proof.
  exact (fun op tok v w Hl Hc =>
           sem_cpp_sound op tok v w (table_ok_sound _ C09_gen_table_cpp op tok Hl) Hc).
Qed.
Print Assumptions C09_op_table_sound_cpp.

(** Lengths are outside [C09_op_table_sound_cpp]: [len(x)] is an unsigned [std::size_t] in
    C++. Comparisons of length expressions agree with Python as long as no intermediate
    value is negative ([_partial]); [len(s) + 1 > len(t) - 1] with an empty [t] does not
    ([_refuted]; found by the compile-and-run stream, known finding
    [run:cpp:verdict:unsigned-length]). *)
Theorem C09_cpp_length_cmp_partial : forall op l r,
  0 <= l < 18446744073709551616 -> 0 <= r < 18446744073709551616 ->
  cpp_len_cmp op l r = z_cmp op l r.
Proof. exact cpp_len_cmp_sound. Qed.
Print Assumptions C09_cpp_length_cmp_partial.

Theorem C09_cpp_length_arithmetic_refuted :
  exists op l r, z_cmp op l r <> cpp_len_cmp op l r.
Proof. exact cpp_length_arithmetic_refuted. Qed.
Print Assumptions C09_cpp_length_arithmetic_refuted.

(** ** Java. Full statement (false):
      forall op tok v w jv jw, lookup_cmp java_comparison_map op = Some tok ->
        comparable op v w -> java_repr v jv -> java_repr w jw ->
        sem_java tok jv jw = py_cmp op v w.
    Proved: the same under [java_safe] — ordering of numbers, equality with at least
    one primitive operand (literal, [size()], [length()]), equality of enum constants.
    Missing: [==]/[!=] between two boxed [Long]/[Boolean]/[Float] or two [String]
    references, and [<] on strings (does not compile). *)
Theorem C09_op_table_sound_java_partial : forall op tok v w jv jw,
  lookup_cmp java_comparison_map op = Some tok -> comparable op v w ->
  java_repr v jv -> java_repr w jw -> java_safe op jv jw = true ->
  sem_java tok jv jw = py_cmp op v w.
Proof.
  exact (fun op tok v w jv jw Hl =>
           sem_java_partial op tok v w jv jw (table_ok_sound _ C09_gen_table_java op tok Hl)).
Qed.
Print Assumptions C09_op_table_sound_java_partial.

(** Refutation of the full Java statement, over the *generated* table: the token the
    table gives for EQ, applied to two equal strings held in two objects (as after
    reading them from a JSON document), answers false where Python answers true; the
    token for NE on two boxed [Long] 1000 answers true where Python answers false. *)
Theorem C09_op_table_java_refuted :
  exists op tok v w jv jw,
    lookup_cmp java_comparison_map op = Some tok /\ comparable op v w /\
    java_repr v jv /\ java_repr w jw /\ sem_java tok jv jw <> py_cmp op v w.
Proof. exact (java_refuted_of_table _ C09_gen_table_java). Qed.
Print Assumptions C09_op_table_java_refuted.

Theorem C09_op_table_java_refuted_boxed_long :
  exists op tok jv jw,
    lookup_cmp java_comparison_map op = Some tok /\
    java_repr (PInt 1000) jv /\ java_repr (PInt 1000) jw /\
    sem_java tok jv jw <> py_cmp op (PInt 1000) (PInt 1000).
Proof. exact (java_refuted_long_of_table _ C09_gen_table_java). Qed.
Print Assumptions C09_op_table_java_refuted_boxed_long.

(** What a repair would have to emit. The transpiler as it is writes the table token
    [==] / [!=] between two references (so [C09_op_table_java_refuted] describes the
    generated SDK; known finding [run:java:verdict:boxed-equality]). For comparison,
    [java.util.Objects.equals(l, r)] / [!Objects.equals(l, r)] on two references
    *would* compute Python's [==] / [!=] for every comparable pair. Nothing here claims
    that the code emits it: [java_value_eq_templates] is the list of such templates
    found in [transform_comparison], and it is empty on the current tree. *)
Theorem C09_gen_java_value_equality : value_eq_templates_ok java_value_eq_templates = true.
Proof. vm_compute. reflexivity. Qed.
Print Assumptions C09_gen_java_value_equality.

Theorem C09_objects_equals_would_be_sound : forall op v w a b x y,
  (op = EQ \/ op = NE) -> comparable op v w ->
  java_repr v (JRef a x) -> java_repr w (JRef b y) ->
  sem_java_objects_equals (match op with NE => true | _ => false end) (JRef a x) (JRef b y)
  = py_cmp op v w.
Proof. exact java_objects_equals_sound. Qed.
Print Assumptions C09_objects_equals_would_be_sound.

(** ** TypeScript. Full statement (false):
      forall op tok v w, lookup_cmp typescript_comparison_map op = Some tok ->
        comparable op v w -> sem_ts tok (ts_repr v) (ts_repr w) = py_cmp op v w.
    Proved for integers a double holds exactly and strings below the surrogate range
    ([ts_safe]); refuted for the order of strings with astral characters. *)
Theorem C09_op_table_sound_typescript_partial : forall op tok v w,
  lookup_cmp typescript_comparison_map op = Some tok -> comparable op v w ->
  ts_safe v = true -> ts_safe w = true ->
  sem_ts tok (ts_repr v) (ts_repr w) = py_cmp op v w.
Proof.
  exact (fun op tok v w Hl =>
           sem_ts_partial op tok v w (table_ok_sound _ C09_gen_table_typescript op tok Hl)).
Qed.
Print Assumptions C09_op_table_sound_typescript_partial.

Theorem C09_op_table_typescript_refuted :
  exists op tok v w,
    lookup_cmp typescript_comparison_map op = Some tok /\ comparable op v w /\
    sem_ts tok (ts_repr v) (ts_repr w) <> py_cmp op v w.
Proof. exact (ts_refuted_of_table _ C09_gen_table_typescript). Qed.
Print Assumptions C09_op_table_typescript_refuted.

(** ** Connectives, all four languages: every skeleton the transpiler can emit for an
    implication computes [implb] of its operands ([!a || b], [not a or b]); likewise
    negation, conjunction and disjunction. *)
Theorem C09_implication_encoding_python : forall s a b, In s python_impl_shapes ->
  eval_shape Python (env2 h_antecedent a h_consequent b) s = Some (implb a b).
Proof.
  exact (proj1 (proj2 (conn_ok_sound Python _ _ _ _ C09_gen_connectives_python))).
Qed.
Print Assumptions C09_implication_encoding_python.
Theorem C09_implication_encoding_typescript : forall s a b, In s typescript_impl_shapes ->
  eval_shape TypeScript (env2 h_antecedent a h_consequent b) s = Some (implb a b).
Proof.
  exact (proj1 (proj2 (conn_ok_sound TypeScript _ _ _ _ C09_gen_connectives_typescript))).
Qed.
Print Assumptions C09_implication_encoding_typescript.
Theorem C09_implication_encoding_java : forall s a b, In s java_impl_shapes ->
  eval_shape Java (env2 h_antecedent a h_consequent b) s = Some (implb a b).
Proof.
  exact (proj1 (proj2 (conn_ok_sound Java _ _ _ _ C09_gen_connectives_java))).
Qed.
Print Assumptions C09_implication_encoding_java.
Theorem C09_implication_encoding_cpp : forall s a b, In s cpp_impl_shapes ->
  eval_shape Cpp (env2 h_antecedent a h_consequent b) s = Some (implb a b).
Proof.
  exact (proj1 (proj2 (conn_ok_sound Cpp _ _ _ _ C09_gen_connectives_cpp))).
Qed.
Print Assumptions C09_implication_encoding_cpp.

Theorem C09_connectives_sound : forall l nots impls ands ors,
  conn_ok l nots impls ands ors = true ->
  (forall s a, In s nots -> eval_shape l (env1 h_operand a) s = Some (negb a)) /\
  (forall s a b, In s impls ->
     eval_shape l (env2 h_antecedent a h_consequent b) s = Some (implb a b)) /\
  (forall s a b, In s ands -> eval_shape l (env2 h_prev a h_value b) s = Some (andb a b)) /\
  (forall s a b, In s ors -> eval_shape l (env2 h_prev a h_value b) s = Some (orb a b)).
Proof. exact conn_ok_sound. Qed.
Print Assumptions C09_connectives_sound.

(** ** Non-vacuity. The hypotheses are satisfiable by non-trivial inputs: the Java
    table really sends LE to a token under which 3 <= 3 holds and 4 <= 3 does not, on
    a boxed and a primitive operand; the C++ comparison of "ab" and "b"; a Java
    implication skeleton exists and [false -> false] evaluates to true. *)
Example C09_nonvacuous :
  (exists tok, lookup_cmp java_comparison_map LE = Some tok /\
     sem_java tok (JRef (AHeap 7) (OLong 3)) (JPLong 3) = Some true /\
     sem_java tok (JRef (AHeap 7) (OLong 4)) (JPLong 3) = Some false /\
     java_safe LE (JRef (AHeap 7) (OLong 4)) (JPLong 3) = true) /\
  (exists tok, lookup_cmp cpp_comparison_map LT = Some tok /\
     sem_cpp tok (cpp_repr (PStr [97;98]%N)) (cpp_repr (PStr [98]%N)) = Some true) /\
  (exists s, In s java_impl_shapes /\
     eval_shape Java (env2 h_antecedent false h_consequent false) s = Some true /\
     eval_shape Java (env2 h_antecedent true h_consequent false) s = Some false).
Proof.
  split; [exists t_le; vm_compute; repeat split; reflexivity|].
  split; [exists t_lt; vm_compute; repeat split; reflexivity|].
  exists (hd (SHole []) java_impl_shapes). vm_compute. repeat split; try reflexivity.
  left. reflexivity.
Qed.
Print Assumptions C09_nonvacuous.
