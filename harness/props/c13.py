"""C13 — XSD is valid and never rejects valid data (xsd/main.py)."""
from __future__ import annotations

import re
from typing import Any, Dict, List

from harness import lib
from harness.gen import xsd as gx

META = {
    "title": "XSD is valid and never rejects valid data",
    "design_ref": "§4 C13 / C14",
    "level_text": (
        "Coq theorems for all regex trees and all strings without line breaks over a Gallina "
        "model of the XSD pattern translation (anchor removal gives exactly the language of the "
        "anchored pattern; character decoding never changes the language; every character is "
        "rendered as itself or as an escape of the XSD grammar; refutations of the former "
        "text-level un-escaping), on top of the shared regex models of C16 and the tables "
        "re-translated from the source on every run. The model is tied to the code by a "
        "correspondence stream evaluated inside Coq; the property itself is run on the real "
        "artefacts: schema.xsd of generated meta-models (real CLI) is loaded as XML Schema 1.0 "
        "and 1.1 by an independent validator, SDK-written documents of invariant-satisfying "
        "instances are validated, translated patterns are compared with Python's re on sampled "
        "strings and checked against the XSD regular-expression grammar."
    ),
    "level_note": (
        "Partial: the group / choice structure of the schema (element order, inheritance, "
        "dispatch) is not modelled, it is only exercised through validation of SDK-written "
        "documents; the greenery intersection of several patterns is third-party. Trusted: "
        "xmlschema (and xmllint for schema compilation) as validators; Model/RegexSem.v as the "
        "reading of both regex dialects on strings without line breaks (sample-checked)."
    ),
    "technique": "Coq proof (nested induction over regex trees, vm_compute witnesses) + in-Coq "
                 "correspondence check + property oracle on generated schemas and documents",
}
GEN = ["GenXsd", "GenRetreeTables"]
MODEL = ["Model/XsdPattern", "Model/XsdGen", "Gen/GenXsd", "Gen/GenRetreeTables"]
TRUSTED = [
    "Model/XsdPattern.v is a hand-written model of xsd/main.py:_translate_pattern, _AnchorRemover, "
    "_CharacterDecoder, _undo_escaping_backslash_x_in_pattern (correspondence-checked on every run)",
    "Model/Retree*.v, Model/RegexSem.v (property C16) as parser / renderer / matching semantics",
    "harness/translate/xsd.py (renderer tables, call skeleton of _translate_pattern) via Python's ast",
    "xmlschema 4.x (XMLSchema10 / XMLSchema11) and xmllint as XSD validators; the generated "
    "Python SDK (verification, xmlization) as producer of valid documents",
    "harness/gen/xsd.py:xsd_regex_error as the reading of the XSD regular-expression grammar",
]
RULE = ("patterns: corpus of minimised witnesses + grammar-generated anchored patterns rich in "
        "encoded characters, dialect-specific metacharacters, sets with dashes/carets and inner "
        "anchors; strings sampled from the pattern's own alphabet +-1 (XML characters without line "
        "breaks); non-trivial = the pattern has an encoded character, a set or a quantifier. "
        "meta-models: seeded generator (mmgen profiles tiny/small/medium; every second model gets "
        "hostile patterns injected) plus hand-built 'sites' models (required / optional lists of a "
        "concrete class with concrete descendants, of an abstract class and of a leaf class, filled "
        "with one item of every concrete class; one constrained primitive at several sites with "
        "different tightenings in three definition orders; values constrained only by a constant "
        "set or only by the XML-character pattern), one document per instance that the generated SDK verifies "
        "without errors; distinct by (model, class)")

XML_PATTERN = "^[\\x09\\x0A\\x0D\\x20-\\uD7FF\\uE000-\\uFFFD\\U00010000-\\U0010FFFF]*$"


def _first_corpus(cands: List[str]) -> str:
    for p in gx.CORPUS_PATTERNS:
        if p in cands:
            return p
    return "h" + lib.stable_key(sorted(cands, key=lambda x: (len(x), x))[0])


def pattern_oracle(ctx, results: List[Dict[str, Any]]) -> Dict[str, int]:
    """C13 on single patterns that the front end accepts."""
    buckets: Dict[str, List[Dict[str, Any]]] = {}
    stats = {"accepted_shape": 0, "translated": 0, "strings": 0, "refused": 0}
    for r in results:
        tree = (r.get("parse_orig") or {}).get("ok")
        if not gx.accepted_by_front_end(tree):
            continue
        stats["accepted_shape"] += 1
        tr = r["translate"]
        if "exc" in tr:
            buckets.setdefault(f"pattern-translation-raises-{tr['exc']}", []).append(r)
            continue
        if "err" in tr:
            stats["refused"] += 1
            buckets.setdefault("pattern-translation-refused", []).append(r)
            continue
        stats["translated"] += 1
        err = gx.xsd_regex_error(tr["ok"])
        if err is not None:
            if "lazy" in err and re.search(r"[*+?}]\?", r["pattern"]):
                # non-greedy quantifiers have no XSD counterpart at all; reported once
                buckets.setdefault("pattern-not-xsd-regex-lazy-quantifier", []).append(r)
            else:
                buckets.setdefault("pattern-not-xsd-regex", []).append(dict(r, reason=err))
            continue
        if r.get("facet_error"):
            buckets.setdefault("pattern-rejected-by-validator", []).append(r)
            continue
        for s, pv, x10, x11 in r.get("verdicts") or []:
            stats["strings"] += 1
            if pv and not (x10 and x11):
                buckets.setdefault("pattern-rejects-valid-value", []).append(dict(r, witness=s))
                break
    for cat, rs in buckets.items():
        wit = _first_corpus([r["pattern"] for r in rs])
        r = next((x for x in rs if x["pattern"] == wit), min(rs, key=lambda x: len(x["pattern"])))
        ctx.impl_failure(
            f"{cat}:{wit}", f"{cat} ({len(rs)} patterns in this run)",
            {"pattern": r["pattern"], "string": r.get("witness")},
            {"translate": r["translate"], "reason": r.get("reason"), "facet_error": r.get("facet_error")},
            "patterns",
            f"PYTHONPATH={lib.REPO} {lib.PY} -c \"from aas_core_codegen.xsd import main as m; "
            f"print(m._translate_pattern({r['pattern']!r}))\"")
    return stats


def classify_schema_error(msg: str, diamonds=frozenset()) -> str:
    # a diamond references the group of the common ancestor twice: with optional / list
    # properties in that group the doubled sequence is not even deterministic (UPA)
    m = re.search(r"complex type '(\w+)_t': The content model is not determinist", msg)
    if m and m.group(1) in diamonds:
        return "diamond-inherited-properties-twice"
    if "overlap and are in the same 'choice' group" in msg:
        return "schema-invalid-duplicate-choice-element"
    if "pattern" in msg.lower() or "regular expression" in msg.lower() or "escape" in msg.lower():
        return "schema-invalid-pattern-facet"
    return "schema-invalid"


def model_oracle(ctx, models, results) -> Dict[str, Any]:
    """C13 on whole meta-models: generation, schema validity, valid documents."""
    stats = {"models": len(models), "schemas_loaded": 0, "documents": 0, "classes_with_documents": 0,
             "classes_without_valid_instance": 0, "xsd_refused": 0, "stages": {}}
    nontrivial = []
    for m, res in zip(models, results):
        stage = res.get("stage")
        stats["stages"][stage] = stats["stages"].get(stage, 0) + 1
        ident = {"model_index": m["index"], "profile": m["profile"], "seed": m["seed"],
                 "injected_patterns": m["injected"]}
        how = ("regenerate with harness/gen/xsd.py:gen_models (same VERIF_SEED); the model text "
               "is in the replay file")
        if stage == "timeout":
            stats["timeouts"] = stats.get("timeouts", 0) + 1
            continue
        if stage == "frontend" and (res.get("frontend") or {}).get("status") == "rejected":
            # the generated model is not accepted by the front end: outside the quantifier
            stats["frontend_rejected"] = stats.get("frontend_rejected", 0) + 1
            if stats["frontend_rejected"] > max(2, len(models) // 2):
                raise lib.HarnessError(f"too many generated models rejected: {str(res)[:800]}")
            continue
        if stage in ("adapter-exception", "harness-exception", "frontend", "sdk-import"):
            raise lib.HarnessError(f"model stream broke at stage {stage}: "
                                   f"{str(res)[:1500]}")
        x = res.get("xsd") or {}
        if x.get("exception") is not None:
            ctx.impl_failure(f"xsd-generator-raises-{gx.exception_site(x['exception'])}",
                             "the XSD generator raises on an accepted meta-model",
                             dict(ident, model_text=m["text"]), x["exception"], "models", how)
            continue
        if x.get("rc") != 0:
            stats["xsd_refused"] += 1
            first = " ".join((x.get("stderr") or "").split())[:300]
            cat = "xsd-generator-refuses-pattern" if "pattern" in first.lower() or "escap" in first.lower() \
                else "xsd-generator-refuses"
            ctx.impl_failure(cat, "the XSD generator reports an error for an accepted meta-model "
                             "that the other generators handle", dict(ident, model_text=m["text"]),
                             first, "models", how)
            continue
        for p in res.get("pattern_facets") or []:
            err = gx.xsd_regex_error(p)
            if err is not None:
                ctx.impl_failure("schema-pattern-facet-not-xsd-regex",
                                 "a pattern facet of the generated schema is not in the XSD "
                                 "regular-expression grammar: " + err,
                                 dict(ident, facet=p, model_text=m["text"]), err, "models", how)
        if res.get("schema_errors"):
            dia = ({gx.lcc(c) for c in gx.diamond_classes(m["mm"])} if m["mm"] is not None else set())
            cats = sorted({classify_schema_error(e, dia) for e in res["schema_errors"]})
            ctx.impl_failure(cats[0], "the generated schema is not a valid XML Schema",
                             dict(ident, model_text=m["text"]), res["schema_errors"][:3], "models", how)
            continue
        stats["schemas_loaded"] += 1
        if res.get("python", {}).get("rc") not in (0, None) or (res.get("python") or {}).get("exception"):
            continue  # not this property (C02)
        st = res.get("stats") or {}
        stats["documents"] += res.get("docs", 0)
        stats["classes_with_documents"] += len(st.get("docs_per_class") or {})
        stats["classes_without_valid_instance"] += len(st.get("no_valid_instance") or [])
        for cls in (st.get("docs_per_class") or {}):
            nontrivial.append((m["index"], cls))
        diamonds = {gx.lcc(c) for c in gx.diamond_classes(m["mm"])} if m["mm"] is not None else set()
        seen = set()
        for vf in res.get("valid_fail") or []:
            if vf["kind"] != "valid-document-rejected":
                cat = vf["kind"]
            else:
                tags = set()
                for v in vf["verdicts"]:
                    for e in v["errors"]:
                        path = e.rsplit(" @ ", 1)[-1]
                        tags.add(path.rstrip("/").rsplit("/", 1)[-1].split("[")[0])
                cat = ("diamond-inherited-properties-twice" if tags and tags <= diamonds
                       else "valid-document-rejected")
            if cat in seen:
                continue
            seen.add(cat)
            ctx.impl_failure(cat, "a document that the generated SDK wrote for an instance "
                             "satisfying all invariants is rejected by the generated schema",
                             dict(ident, cls=vf.get("cls"), document=vf.get("document"),
                                  model_text=m["text"]),
                             vf.get("verdicts") or vf.get("error"), "models", how)
    stats["nontrivial"] = nontrivial
    return stats


def streams(ctx: lib.Ctx) -> None:
    # 1. patterns: correspondence inside Coq + oracle
    results = gx.pattern_stream(ctx, ctx.n(160, 800), ctx.n(20, 30))
    pstats = pattern_oracle(ctx, results)
    nontriv = [r["pattern"] for r in results
               if re.search(r"\\[xuU]|\[|[*+?{]", r["pattern"])]
    ctx.count("patterns", len(results) + pstats["strings"], nontrivial_keys=nontriv,
              validated=len(results), **pstats,
              outcome_shares={k: sum(1 for r in results if k in r["translate"])
                              for k in ("ok", "err", "exc")})
    for r in results[:2] + results[len(gx.CORPUS_PATTERNS):len(gx.CORPUS_PATTERNS) + 3]:
        ctx.sample({"pattern": r["pattern"], "translate": r["translate"]})

    # 2. meta-models: real CLI -> schema -> SDK documents
    models = gx.gen_models(ctx.rng, ctx.n(5, 16))
    # hand-built shapes: lists of classes with descendants, one constrained primitive at
    # several sites with different tightenings, values with nothing for XSD to emit
    models += gx.gen_sites_models(ctx.rng, ctx.n(3, 6))
    mres = gx.run_models(models, n_docs=ctx.n(40, 50), mutants_per_doc=0)
    mstats = model_oracle(ctx, models, mres)
    nontrivial = mstats.pop("nontrivial")
    feats: Dict[str, int] = {}
    for m in models:
        for k, v in ((m["mm"].features if m["mm"] is not None else None) or {}).items():
            if isinstance(v, (int, float)):
                feats[k] = feats.get(k, 0) + v
    ctx.count("models", mstats["documents"], nontrivial_keys=nontrivial,
              validated=mstats["documents"], **mstats,
              generator_features={k: feats[k] for k in sorted(feats)[:40]})
    for res in mres[:2]:
        if res.get("sample_doc"):
            ctx.sample({"document": res["sample_doc"][:400]})
    ctx.coverage["exhaustive"] = False
