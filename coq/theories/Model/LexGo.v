(** C19 — Go interpreted string literal lexer (The Go Programming Language
    Specification, "String literals", "Rune literals" for the escapes, "Source code
    representation"): [\x] takes exactly two hexadecimal digits, octal escapes exactly
    three digits, [\u]/[\U] must denote valid code points (no surrogates), [\'] is not
    allowed in a string. A Go string is a byte sequence; this model returns the code
    points whose UTF-8 encoding is that byte sequence and is conservative ([None]) for
    byte escapes above 0x7f, NUL, CR and the byte order mark in the source. No Go tool
    chain is installed: this lexer is derived from the specification only.
    Executable definitions only. *)
From Coq Require Import List NArith Bool.
From Acg Require Import Base.Str Model.LexCore.
Import ListNotations.
Open Scope N_scope.

Inductive go_state : Type :=
| GStart | GBody | GEsc
| GHex (remaining : nat) (acc : N) (byte : bool)   (* \xHH (byte) / \uHHHH / \UHHHHHHHH *)
| GOct (remaining : nat) (acc : N)
| GDone.

Definition go_simple_escape (c : N) : option N :=
  if c =? 97 then Some 7 else if c =? 98 then Some 8 else if c =? 102 then Some 12
  else if c =? 110 then Some 10 else if c =? 114 then Some 13 else if c =? 116 then Some 9
  else if c =? 118 then Some 11 else if c =? 92 then Some 92 else if c =? 34 then Some 34
  else None.

Definition go_step (st : go_state) (c : N) : option (go_state * text) :=
  match st with
  | GStart => if c =? 34 then Some (GBody, []) else None
  | GBody =>
      if c =? 34 then Some (GDone, [])
      else if c =? 92 then Some (GEsc, [])
      else if (c =? 10) || (c =? 13) || (c =? 0) || (c =? 65279) then None
      else if negb (source_char c) then None
      else Some (GBody, [c])
  | GEsc =>
      match go_simple_escape c with
      | Some v => Some (GBody, [v])
      | None =>
          if c =? 120 then Some (GHex 2 0 true, [])
          else if c =? 117 then Some (GHex 4 0 false, [])
          else if c =? 85 then Some (GHex 8 0 false, [])
          else match oct_val c with
               | Some d => Some (GOct 2 d, [])
               | None => None
               end
      end
  | GHex remaining acc byte =>
      match hex_val c, remaining with
      | Some d, S O =>
          let v := acc * 16 + d in
          if byte then (if v <? 128 then Some (GBody, [v]) else None)
          else if (v <=? 1114111) && negb (surrogate v) then Some (GBody, [v]) else None
      | Some d, S k => Some (GHex k (acc * 16 + d) byte, [])
      | _, _ => None
      end
  | GOct remaining acc =>
      match oct_val c, remaining with
      | Some d, S O => if acc * 8 + d <? 128 then Some (GBody, [acc * 8 + d]) else None
      | Some d, S k => Some (GOct k (acc * 8 + d), [])
      | _, _ => None
      end
  | GDone => None
  end.

Definition lex_go (l : text) : option text :=
  match run go_step GStart l with
  | Some (GDone, v) => Some v
  | _ => None
  end.
