"""Adapter: run parse.retree of the tree under test. JSON stdin -> JSON stdout.

Input: {"seed": int, "words": int, "cases": [values, ...]} where ``values`` is a list whose
items are a list of code points (a string value) or an int (a formatted value, by id).

Output per case:
  {"o": "exc", "exc": name, "site": "function:line"}                     parse raised
  {"o": "err", "positioned": bool}                                        reported Error
  {"o": "ok", "tree": <json>, "rendered": values, "render_exc": name|None,
   "reparse": "same"|"differs"|"err"|"exc:<name>",
   "re_rend": "ok"|"<exception name>: msg", "re_orig": ...,
   "words": [[code points], ...], "m_rend": [bool...], "m_orig": [bool...]|None}

The tree is dumped by reading the attributes of the node classes directly (not through
``retree.dump``). Formatted values are replaced by the pattern ``(?:q|rs)`` when a pattern
is handed to Python's ``re``.
"""
import ast
import json
import random
import re
import sys
import traceback
import warnings

warnings.simplefilter("ignore")

from aas_core_codegen.common import Identifier
from aas_core_codegen.parse import retree
from aas_core_codegen.parse import tree as parse_tree

FV_PATTERN = "(?:q|rs)"
_NODE = ast.parse("x").body[0]
_FVS = {}


def fv(k):
    if k not in _FVS:
        name = parse_tree.Name(identifier=Identifier(f"x{k}"), original_node=_NODE)
        _FVS[k] = parse_tree.FormattedValue(value=name, original_node=_NODE)
    return _FVS[k]


def fv_id(obj):
    for k, v in _FVS.items():
        if v is obj:
            return k
    raise AssertionError("unknown formatted value")


def to_values(enc):
    return [fv(x) if isinstance(x, int) else "".join(map(chr, x)) for x in enc]


def enc_values(values):
    return [fv_id(v) if isinstance(v, parse_tree.FormattedValue) else [ord(c) for c in v]
            for v in values]


def dump_char(c):
    assert type(c) is retree.Char
    return [ord(c.character), bool(c.explicitly_encoded)]


def dump_union(u):
    assert type(u) is retree.UnionExpr
    return [[dump_term(t) for t in c.concatenants] for c in u.uniates]


def dump_term(t):
    assert type(t) is retree.Term
    q = None
    if t.quantifier is not None:
        q = [bool(t.quantifier.non_greedy), t.quantifier.minimum, t.quantifier.maximum]
    v = t.value
    if isinstance(v, retree.Group):
        d = {"g": dump_union(v.union)}
    elif isinstance(v, retree.Char):
        d = {"c": dump_char(v)}
    elif isinstance(v, retree.CharSet):
        d = {"s": [bool(v.complementing),
                   [[dump_char(r.start), None if r.end is None else dump_char(r.end)]
                    for r in v.ranges]]}
    elif isinstance(v, parse_tree.FormattedValue):
        d = {"f": fv_id(v)}
    elif isinstance(v, retree.Symbol):
        d = {"y": v.kind.name}
    else:
        raise AssertionError(type(v))
    d["q"] = q
    return d


def as_python_pattern(values):
    return "".join(FV_PATTERN if isinstance(v, parse_tree.FormattedValue) else v for v in values)


def compile_(pattern):
    try:
        return re.compile(pattern), "ok"
    except BaseException as e:  # noqa
        return None, f"{type(e).__name__}: {e}"[:200]


def sample_word(rng, union, depth=0):
    """A word that (mostly) matches: random walk through the tree."""
    if not union.uniates:
        return ""
    conc = rng.choice(union.uniates)
    out = []
    for t in conc.concatenants:
        if t.quantifier is None:
            n = 1
        else:
            lo = min(t.quantifier.minimum, 6)
            hi = lo + 2 if t.quantifier.maximum is None else min(t.quantifier.maximum, lo + 2)
            n = rng.randint(lo, max(lo, hi))
        for _ in range(n):
            v = t.value
            if isinstance(v, retree.Group):
                out.append(sample_word(rng, v.union, depth + 1))
            elif isinstance(v, retree.Char):
                out.append(v.character)
            elif isinstance(v, retree.CharSet):
                if v.ranges and not v.complementing:
                    r = rng.choice(v.ranges)
                    a = ord(r.start.character)
                    b = a if r.end is None else ord(r.end.character)
                    out.append(chr(rng.choice([a, b, rng.randint(a, b)])))
                else:
                    out.append(rng.choice("az0-^] \né\U0001F600"))
            elif isinstance(v, parse_tree.FormattedValue):
                out.append(rng.choice(["q", "rs"]))
            elif isinstance(v, retree.Symbol):
                if v.kind is retree.SymbolKind.DOT:
                    out.append(rng.choice("ab.\n\U0001F600"))
    return "".join(out)


def alphabet_of(values):
    chars = set()
    for v in values:
        if isinstance(v, str):
            for c in v:
                chars.add(c)
                o = ord(c)
                if 0 < o < 0x10FFFF and not (0xD7FF <= o <= 0xE000):
                    chars.add(chr(o + 1))
                    chars.add(chr(o - 1))
    chars |= set("aq\n")
    return sorted(chars)


def words_for(rng, values, regex, n):
    alpha = alphabet_of(values)
    ws = [""]
    for _ in range(n):
        w = sample_word(rng, regex.union)
        r = rng.random()
        if r < 0.25 and w:
            i = rng.randrange(len(w))
            w = w[:i] + w[i + 1:]
        elif r < 0.45:
            i = rng.randrange(len(w) + 1)
            w = w[:i] + rng.choice(alpha) + w[i:]
        elif r < 0.55:
            w = w + "\n"
        elif r < 0.65:
            w = "".join(rng.choice(alpha) for _ in range(rng.randint(0, 4)))
        ws.append(w[:12])
    # dedupe, keep order
    seen = set()
    out = []
    for w in ws:
        if w not in seen:
            seen.add(w)
            out.append(w)
    return out


def run_case(enc, rng, n_words):
    values = to_values(enc)
    try:
        regex, error = retree.parse(values)
    except BaseException as e:  # noqa
        tb = traceback.extract_tb(e.__traceback__)
        site = ""
        for fr in reversed(tb):
            if "aas_core_codegen" in fr.filename:
                site = f"{fr.name}"
                break
        return {"o": "exc", "exc": type(e).__name__, "site": site}
    if error is not None:
        cur = getattr(error, "cursor", None)
        positioned = (regex is None and isinstance(cur, retree.Cursor)
                      and cur.values is values
                      and isinstance(cur.major_cursor, int)
                      and 0 <= cur.major_cursor <= len(values)
                      and isinstance(getattr(error, "message", None), str))
        return {"o": "err", "positioned": bool(positioned)}
    res = {"o": "ok", "tree": dump_union(regex.union), "render_exc": None}
    try:
        rendered = retree.render(regex)
    except BaseException as e:  # noqa
        res["render_exc"] = type(e).__name__
        return res
    res["rendered"] = enc_values(rendered)
    try:
        again, err2 = retree.parse(rendered)
        if err2 is not None:
            res["reparse"] = "err"
        else:
            res["reparse"] = "same" if dump_union(again.union) == res["tree"] else "differs"
    except BaseException as e:  # noqa
        res["reparse"] = f"exc:{type(e).__name__}"
    c_rend, res["re_rend"] = compile_(as_python_pattern(rendered))
    c_orig, res["re_orig"] = compile_(as_python_pattern(values))
    words = words_for(rng, values, regex, n_words) if n_words > 0 else []
    res["words"] = [[ord(c) for c in w] for w in words]
    res["m_rend"] = None if c_rend is None else [c_rend.fullmatch(w) is not None for w in words]
    res["m_orig"] = None if c_orig is None else [c_orig.fullmatch(w) is not None for w in words]
    return res


def main():
    payload = json.load(sys.stdin)
    out = []
    for i, case in enumerate(payload["cases"]):
        nw = payload.get("words", 0)
        if isinstance(case, dict):
            nw = case.get("words", nw)
            case = case["values"]
        # the sampled words depend on the case only (so that shrinking is deterministic)
        rng = random.Random(f"{payload.get('seed', 0)}:{json.dumps(case)}")
        out.append(run_case(case, rng, nw))
    json.dump(out, sys.stdout)


main()
