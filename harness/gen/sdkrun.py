"""Generate Python SDKs with the real CLI (harness/impl/cli.py) and run operation lists on
them (harness/impl/pysdk.py). Shared by the checks C10, C29 and C30."""
from __future__ import annotations

import concurrent.futures
import pathlib
import shutil
import time
from typing import Any, Dict, List, Sequence

from harness import lib
from harness.gen import sdk as sdkg


def generate(models: Sequence[sdkg.SdkModel], workdir: pathlib.Path, parallel: int = 8) -> Dict[str, Any]:
    """Run the real generator for target ``python`` on every model (fresh subprocesses,
    fresh TMPDIR each); materialise the outputs under ``workdir/<module>``."""
    t0 = time.time()
    sdk_root = workdir / "sdks"
    if sdk_root.exists():
        shutil.rmtree(sdk_root)
    sdk_root.mkdir(parents=True)
    chunks: List[List[sdkg.SdkModel]] = [[] for _ in range(max(1, min(parallel, len(models))))]
    for i, m in enumerate(models):
        chunks[i % len(chunks)].append(m)

    def run(chunk: List[sdkg.SdkModel]) -> None:
        if not chunk:
            return
        res = lib.impl_call("cli.py", {"jobs": [m.job() for m in chunk], "files": "text"}, timeout=1500)
        for m, r in zip(chunk, res):
            m.gen_result = {"rc": r["rc"], "stderr": r["stderr"][-3000:], "exception": r["exception"]}
            if r["rc"] == 0 and r["exception"] is None:
                out = sdk_root / m.module
                for rel, content in r["files"].items():
                    if rel.startswith("dev/"):
                        continue
                    p = out / rel
                    p.parent.mkdir(parents=True, exist_ok=True)
                    if isinstance(content, dict):
                        p.write_bytes(bytes.fromhex(content["hex"]))
                    else:
                        p.write_text(content, encoding="utf-8", errors="surrogatepass")
                m.sdk_dir = str(out)

    with concurrent.futures.ThreadPoolExecutor(max_workers=len(chunks)) as ex:
        list(ex.map(run, chunks))
    return {"models": len(models), "generated": sum(1 for m in models if m.sdk_dir),
            "seconds": round(time.time() - t0, 1)}


def run_ops(jobs: Sequence[Dict[str, Any]], timeout: int = 1200) -> List[Dict[str, Any]]:
    """``jobs``: [{"model": SdkModel, "ops": [...]}]; one fresh subprocess for all of them."""
    payload = {"sdks": [{"dir": j["model"].sdk_dir, "lite": j["model"].lite, "ops": j["ops"]} for j in jobs]}
    return lib.impl_call("pysdk.py", payload, timeout=timeout)


def run_cases_sized(workdir: pathlib.Path, name: str, header: str, case_type: str, bad_fn: str,
                    terms: Sequence[str], max_chars: int = 500_000, timeout: int = 900):
    """lib.run_cases with the number of cases per shard chosen from the size of the terms, so
    that one coqc (about 0.4 GB + 1.4 kB per character of case text) stays well below 2 GB."""
    if not terms:
        return [], ""
    lengths = sorted(len(t) for t in terms)
    top = lengths[-max(1, len(lengths) // 10):]
    typical = max(1, sum(top) // len(top))
    shard = max(1, min(400, max_chars // typical))
    return lib.run_cases(workdir, name, header, case_type, bad_fn, list(terms), shard=shard, timeout=timeout)


def cap_terms(rng, terms: List[Any], size_of, budget_chars: int) -> List[Any]:
    """Keep a seeded random subset of ``terms`` whose total text size fits the budget
    (order preserved); everything is kept when it fits."""
    total = sum(size_of(t) for t in terms)
    if total <= budget_chars:
        return terms
    keep_p = budget_chars / total
    return [t for t in terms if rng.random() < keep_p]


def cleanup(workdir: pathlib.Path, models: Sequence[sdkg.SdkModel] = ()) -> None:
    """Delete what a run generated: the SDK directories and the cases files."""
    shutil.rmtree(workdir / "sdks", ignore_errors=True)
    for m in models:
        shutil.rmtree(workdir / m.module, ignore_errors=True)
    for pattern in ("*.v", "*.vo", "*.vok", "*.vos", "*.glob", ".*.aux"):
        for f in workdir.glob(pattern):
            try:
                f.unlink()
            except OSError:
                pass
