(** C17 — relational matching semantics and its equivalence with the executable one. *)
From Coq Require Import List NArith Bool Arith Lia.
From Acg Require Import Model.Utf16Tree.
Import ListNotations.

Definition rel : Type := st -> st -> Prop.

Definition req (R1 R2 : rel) : Prop := forall s s', R1 s s' <-> R2 s s'.

Definition comp (R1 R2 : rel) : rel := fun s s' => exists m, R1 s m /\ R2 m s'.

Fixpoint pow (R : rel) (n : nat) : rel :=
  match n with
  | O => eq
  | S n' => comp R (pow R n')
  end.

(** between [qmin] and [qmax] iterations *)
Definition iter (R : rel) (q : quant) : rel := fun s s' =>
  exists n, (qmin q <= n)%nat
            /\ match qmax q with None => True | Some mx => (n <= mx)%nat end
            /\ pow R n s s'.

Definition mq (q : option quant) (R : rel) : rel :=
  match q with None => R | Some q' => iter R q' end.

Definition atom (f : st -> list st) : rel := fun s s' => In s' (f s).

Fixpoint mt (t : term) : rel :=
  match t with
  | TChar c q => mq q (atom (e_char c))
  | TSet k rs q => mq q (atom (e_set k rs))
  | TSym y q => mq q (atom (e_sym y))
  | TGroup u q => mq q (mu u)
  end
with mc (c : concat) : rel :=
  match c with
  | CNil => eq
  | CCons t c' => comp (mt t) (mc c')
  end
with mu (u : union) : rel :=
  match u with
  | UNil => fun _ _ => False
  | UCons c u' => fun s s' => mc c s s' \/ mu u' s s'
  end.

(** the word [w] is matched entirely *)
Definition matches (u : union) (w : list N) : Prop := exists b, mu u (true, w) (b, []).

Scheme term_mind := Induction for term Sort Prop
with concat_mind := Induction for concat Sort Prop
with union_mind := Induction for union Sort Prop.
Combined Scheme tree_mutind from term_mind, concat_mind, union_mind.

(* ------------------------------------------------------------ generic facts *)
Lemma req_refl : forall R, req R R.
Proof. intros R s s'. tauto. Qed.

Lemma req_sym : forall R1 R2, req R1 R2 -> req R2 R1.
Proof. intros R1 R2 H s s'. symmetry. apply H. Qed.

Lemma req_trans : forall R1 R2 R3, req R1 R2 -> req R2 R3 -> req R1 R3.
Proof. intros R1 R2 R3 H1 H2 s s'. rewrite (H1 s s'). apply H2. Qed.

Lemma comp_req : forall R1 R2 S1 S2, req R1 S1 -> req R2 S2 -> req (comp R1 R2) (comp S1 S2).
Proof.
  intros R1 R2 S1 S2 H1 H2 s s'. unfold comp. split; intros (m & A & B); exists m.
  - split; [apply H1|apply H2]; assumption.
  - split; [apply H1|apply H2]; assumption.
Qed.

Lemma pow_req : forall R S n, req R S -> req (pow R n) (pow S n).
Proof.
  intros R S n H. induction n as [|n IH]; cbn [pow].
  - apply req_refl.
  - apply comp_req; assumption.
Qed.

Lemma iter_req : forall R S q, req R S -> req (iter R q) (iter S q).
Proof.
  intros R S q H s s'. unfold iter.
  split; intros (n & A & B & C); exists n; repeat split; auto; apply (pow_req R S n H); auto.
Qed.

Lemma mq_req : forall q R S, req R S -> req (mq q R) (mq q S).
Proof. intros [q|] R S H; cbn [mq]; auto using iter_req. Qed.

Lemma comp_eq_r : forall R, req (comp R eq) R.
Proof.
  intros R s s'. unfold comp. split.
  - intros (m & A & <-). exact A.
  - intros A. exists s'. auto.
Qed.

Lemma pow_plus : forall R a b s s',
  pow R (a + b) s s' <-> exists m, pow R a s m /\ pow R b m s'.
Proof.
  intros R a. induction a as [|a IH]; intros b s s'; cbn [pow plus].
  - split.
    + intros H. exists s. auto.
    + intros (m & <- & H). exact H.
  - unfold comp. split.
    + intros (m & A & B). apply IH in B. destruct B as (m2 & B & C).
      exists m2. split; auto. exists m. auto.
    + intros (m2 & (m & A & B) & C). exists m. split; auto. apply IH. exists m2. auto.
Qed.

Lemma mc_app : forall a b, req (mc (capp a b)) (comp (mc a) (mc b)).
Proof.
  induction a as [|t a IH]; intros b s s'; cbn [capp mc].
  - unfold comp. split.
    + intros H. exists s. auto.
    + intros (m & <- & H). exact H.
  - unfold comp in *. split.
    + intros (m & A & B). apply IH in B. destruct B as (m2 & B & C).
      exists m2. split; auto. exists m. auto.
    + intros (m2 & (m & A & B) & C). exists m. split; auto. apply IH. exists m2. auto.
Qed.

(* ------------------------------------------------ every step moves forward *)
(** [adv s s']: [s'] is [s], or something was consumed (then we are not at the start
    any more and the remaining word is a proper suffix). *)
Definition adv (s s' : st) : Prop :=
  s' = s \/ (fst s' = false /\ exists x pre, snd s = x :: pre ++ snd s').

Lemma adv_refl : forall s, adv s s.
Proof. intros s. left. reflexivity. Qed.

Lemma adv_trans : forall a b c, adv a b -> adv b c -> adv a c.
Proof.
  intros a b c [->|(Hb & x & pre & E)] [->|(Hc & y & pre' & E')].
  - left; reflexivity.
  - right. eauto.
  - right. eauto.
  - right. split; auto. rewrite E' in E. exists x, (pre ++ y :: pre').
    rewrite E. rewrite <- app_assoc. reflexivity.
Qed.

Lemma adv_len : forall s s', adv s s' -> (length (snd s') <= length (snd s))%nat.
Proof.
  intros s s' [->|(_ & x & pre & E)]; auto.
  rewrite E. cbn [length]. rewrite app_length. lia.
Qed.

Lemma adv_same_len : forall s s', adv s s' -> length (snd s') = length (snd s) -> s' = s.
Proof.
  intros s s' [->|(_ & x & pre & E)] H; auto.
  rewrite E in H. cbn [length] in H. rewrite app_length in H. lia.
Qed.

Lemma adv_forall : forall (P : N -> Prop) s s', adv s s' -> Forall P (snd s) -> Forall P (snd s').
Proof.
  intros P s s' [->|(_ & x & pre & E)] H; auto.
  rewrite E in H. inversion H as [|? ? _ H2]; subst. apply Forall_app in H2. tauto.
Qed.

Definition advancing (R : rel) : Prop := forall s s', R s s' -> adv s s'.

Lemma eat_adv : forall p, advancing (atom (eat p)).
Proof.
  intros p s s' H. unfold atom, eat in H. destruct s as [b [|x w]]; cbn in H; try tauto.
  destruct (p x); cbn in H; try tauto. destruct H as [<-|[]].
  right. cbn. split; auto. exists x, []. reflexivity.
Qed.

Lemma e_sym_adv : forall y, advancing (atom (e_sym y)).
Proof.
  intros [| |] s s' H; unfold atom, e_sym in H.
  - destruct (fst s); cbn in H; try tauto. destruct H as [<-|[]]. apply adv_refl.
  - destruct (snd s); cbn in H; try tauto. destruct H as [<-|[]]. apply adv_refl.
  - apply (eat_adv dot_ok). exact H.
Qed.

Lemma comp_adv : forall R1 R2, advancing R1 -> advancing R2 -> advancing (comp R1 R2).
Proof. intros R1 R2 H1 H2 s s' (m & A & B). eapply adv_trans; eauto. Qed.

Lemma pow_adv : forall R n, advancing R -> advancing (pow R n).
Proof.
  intros R n H. induction n as [|n IH]; cbn [pow].
  - intros s s' <-. apply adv_refl.
  - apply comp_adv; assumption.
Qed.

Lemma mq_adv : forall q R, advancing R -> advancing (mq q R).
Proof.
  intros [q|] R H; cbn [mq]; auto.
  intros s s' (n & _ & _ & P). eapply pow_adv; eauto.
Qed.

Lemma tree_adv :
  (forall t, advancing (mt t)) /\ (forall c, advancing (mc c)) /\ (forall u, advancing (mu u)).
Proof.
  apply tree_mutind; cbn [mt mc mu].
  - intros c q. apply mq_adv. apply eat_adv.
  - intros k rs q. apply mq_adv. apply eat_adv.
  - intros y q. apply mq_adv. apply e_sym_adv.
  - intros u IH q. apply mq_adv. exact IH.
  - intros s s' <-. apply adv_refl.
  - intros t IHt c IHc. apply comp_adv; assumption.
  - intros s s' [].
  - intros c IHc u IHu s s' [H|H]; auto.
Qed.

(** iterations that consume nothing can be dropped: a star needs at most
    [length remaining] iterations *)
Lemma pow_shrink : forall R n s s', advancing R -> pow R n s s' ->
  exists k, (k <= length (snd s))%nat /\ pow R k s s'.
Proof.
  intros R n. induction n as [|n IH]; intros s s' HR H; cbn [pow] in H.
  - exists 0%nat. split; [lia|exact H].
  - destruct H as (m & A & B). destruct (IH m s' HR B) as (k & Hk & P).
    pose proof (HR _ _ A) as Hadv. pose proof (adv_len _ _ Hadv) as Hlen.
    destruct (Nat.eq_dec (length (snd m)) (length (snd s))) as [E|E].
    + apply adv_same_len in Hadv; auto. subst m. exists k. split; auto.
    + exists (S k). split; [lia|]. cbn [pow]. exists m. auto.
Qed.

(* ----------------------------------------------- executable = relational *)
Lemma lN_eqb_eq : forall a b, lN_eqb a b = true <-> a = b.
Proof.
  induction a as [|x a IH]; intros [|y b]; cbn [lN_eqb]; split; intros H;
    try discriminate; auto.
  - apply andb_prop in H. destruct H as [H1 H2]. apply N.eqb_eq in H1. apply IH in H2.
    congruence.
  - inversion H; subst. rewrite N.eqb_refl. cbn. apply IH. reflexivity.
Qed.

Lemma st_eqb_eq : forall a b, st_eqb a b = true <-> a = b.
Proof.
  intros [b1 w1] [b2 w2]. unfold st_eqb. cbn [fst snd]. split; intros H.
  - apply andb_prop in H. destruct H as [H1 H2]. apply eqb_prop in H1.
    apply lN_eqb_eq in H2. congruence.
  - inversion H; subst. rewrite eqb_reflx. cbn. apply lN_eqb_eq. reflexivity.
Qed.

Lemma mem_st_in : forall x l, mem_st x l = true <-> In x l.
Proof.
  intros x l. induction l as [|y l IH]; cbn [mem_st In].
  - split; [discriminate|tauto].
  - rewrite orb_true_iff, IH, st_eqb_eq. split; intros [H|H]; auto.
Qed.

Lemma in_dedup : forall x l, In x (dedup l) <-> In x l.
Proof.
  intros x l. induction l as [|y l IH]; cbn [dedup]; [tauto|].
  destruct (mem_st y l) eqn:E.
  - rewrite IH. cbn [In]. split; auto. intros [<-|H]; auto. apply mem_st_in. exact E.
  - cbn [In]. rewrite IH. tauto.
Qed.

(** [f] implements [R] *)
Definition impl (f : st -> list st) (R : rel) : Prop := forall s s', In s' (f s) <-> R s s'.

Lemma in_step : forall f R l s', impl f R ->
  (In s' (dedup (flat_map f l)) <-> exists s, In s l /\ R s s').
Proof.
  intros f R l s' H. rewrite in_dedup, in_flat_map.
  split; intros (s & A & B); exists s; split; auto; apply H; auto.
Qed.

Lemma in_epow : forall f R n l s', impl f R ->
  (In s' (epow f n l) <-> exists s, In s l /\ pow R n s s').
Proof.
  intros f R n. induction n as [|n IH]; intros l s' H; cbn [epow pow].
  - split.
    + intros A. exists s'. auto.
    + intros (s & A & <-). exact A.
  - rewrite (IH _ _ H). unfold comp. split.
    + intros (m & A & B). apply (in_step f R l m H) in A. destruct A as (s & A & C).
      exists s. split; auto. exists m. auto.
    + intros (s & A & m & B & C). exists m. split; auto.
      apply (in_step f R l m H). exists s. auto.
Qed.

Lemma in_eupto : forall f R k l s', impl f R ->
  (In s' (eupto f k l) <-> exists j s, (j <= k)%nat /\ In s l /\ pow R j s s').
Proof.
  intros f R k. induction k as [|k IH]; intros l s' H; cbn [eupto].
  - split.
    + intros A. exists 0%nat, s'. cbn. auto.
    + intros (j & s & Hj & A & P). assert (j = 0%nat) by lia. subst j. cbn in P.
      subst s'. exact A.
  - rewrite in_app_iff, (IH _ _ H). split.
    + intros [A|(j & m & Hj & A & P)].
      * exists 0%nat, s'. cbn. repeat split; auto. lia.
      * apply (in_step f R l m H) in A. destruct A as (s & A & C).
        exists (S j), s. repeat split; auto; [lia|]. cbn [pow]. exists m. auto.
    + intros (j & s & Hj & A & P). destruct j as [|j].
      * cbn in P. subst s'. left. exact A.
      * right. cbn [pow] in P. destruct P as (m & B & C).
        exists j, m. repeat split; auto; [lia|]. apply (in_step f R l m H). exists s. auto.
Qed.

Lemma eiter_impl : forall f R q, impl f R -> advancing R -> impl (eiter f q) (iter R q).
Proof.
  intros f R q H HR s s'. unfold eiter, iter.
  destruct (qmax q) as [mx|].
  - destruct (mx <? qmin q)%nat eqn:E.
    + apply Nat.ltb_lt in E. split; [intros []|]. intros (n & A & B & _). lia.
    + apply Nat.ltb_ge in E. rewrite in_dedup, (in_eupto f R _ _ _ H). split.
      * intros (j & m & Hj & A & P). apply (in_epow f R _ _ _ H) in A.
        destruct A as (s0 & [<-|[]] & A). exists (qmin q + j)%nat.
        repeat split; try lia. apply pow_plus. exists m. auto.
      * intros (n & A & B & P). replace n with (qmin q + (n - qmin q))%nat in P by lia.
        apply pow_plus in P. destruct P as (m & P1 & P2).
        exists (n - qmin q)%nat, m. repeat split; auto; [lia|].
        apply (in_epow f R _ _ _ H). exists s. cbn. auto.
  - rewrite in_dedup, (in_eupto f R _ _ _ H). split.
    + intros (j & m & Hj & A & P). apply (in_epow f R _ _ _ H) in A.
      destruct A as (s0 & [<-|[]] & A). exists (qmin q + j)%nat.
      repeat split; try lia. apply pow_plus. exists m. auto.
    + intros (n & A & _ & P). replace n with (qmin q + (n - qmin q))%nat in P by lia.
      apply pow_plus in P. destruct P as (m & P1 & P2).
      destruct (pow_shrink R _ _ _ HR P2) as (k & Hk & P3).
      pose proof (adv_len _ _ (pow_adv R _ HR _ _ P1)) as Hlen.
      exists k, m. repeat split; auto; [lia|].
      apply (in_epow f R _ _ _ H). exists s. cbn. auto.
Qed.

Lemma eq_impl : forall q f R, impl f R -> advancing R -> impl (eq_ q f) (mq q R).
Proof. intros [q|] f R H HR; cbn [eq_ mq]; auto using eiter_impl. Qed.

Lemma atom_impl : forall f, impl f (atom f).
Proof. intros f s s'. unfold atom. tauto. Qed.

(** The executable matcher computes exactly the relational semantics. *)
Lemma tree_spec :
  (forall t, impl (et t) (mt t)) /\ (forall c, impl (ec c) (mc c)) /\ (forall u, impl (eu u) (mu u)).
Proof.
  apply tree_mutind; cbn [et ec eu mt mc mu].
  - intros c q. apply eq_impl; [apply atom_impl|apply eat_adv].
  - intros k rs q. apply eq_impl; [apply atom_impl|apply eat_adv].
  - intros y q. apply eq_impl; [apply atom_impl|apply e_sym_adv].
  - intros u IH q. apply eq_impl; [exact IH|apply tree_adv].
  - intros s s'. cbn [In]. split; [intros [H|[]]; auto|auto].
  - intros t IHt c IHc s s'. rewrite in_dedup, in_flat_map. unfold comp.
    split; intros (m & A & B); exists m; split; try apply IHt; try apply IHc; auto.
  - intros s s'. cbn. tauto.
  - intros c IHc u IHu s s'. rewrite in_app_iff, (IHc s s'), (IHu s s'). tauto.
Qed.

Theorem matchesb_spec : forall u w, matchesb u w = true <-> matches u w.
Proof.
  intros u w. unfold matchesb, matches, ends. rewrite existsb_exists.
  destruct tree_spec as (_ & _ & Hu). split.
  - intros ([b r] & A & B). unfold is_final in B. cbn [snd] in B.
    destruct r; try discriminate. exists b. apply Hu. exact A.
  - intros (b & A). exists (b, []). split; [apply Hu; exact A|reflexivity].
Qed.
