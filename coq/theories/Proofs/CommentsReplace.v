(** C20 — facts about the model of [str.replace] ([Model/Comments.v]). *)
From Coq Require Import List NArith ZArith Bool Lia.
From Acg Require Import Base.Str Model.Comments.
Import ListNotations.
Open Scope N_scope.

Lemma starts_with_length : forall p t, starts_with p t = true -> (length p <= length t)%nat.
Proof.
  induction p as [|x p IH]; intros [|y t] H; cbn in *; try lia; try discriminate.
  apply andb_true_iff in H. destruct H as [_ H]. apply IH in H. lia.
Qed.

Lemma replace_fuel_enough : forall n m old new t,
  old <> [] -> (length t <= n)%nat -> (length t <= m)%nat ->
  replace_fuel n old new t = replace_fuel m old new t.
Proof.
  induction n as [|n IH]; intros m old new t Hold Hn Hm.
  - destruct t; [|cbn in Hn; lia]. destruct m; reflexivity.
  - destruct m as [|m].
    + destruct t; [reflexivity|cbn in Hm; lia].
    + destruct t as [|c r]; [reflexivity|].
      cbn [replace_fuel]. destruct (starts_with old (c :: r)) eqn:Hs.
      * f_equal. apply IH; auto.
        -- rewrite skipn_length. destruct old as [|o old']; [congruence|]. cbn in *. lia.
        -- rewrite skipn_length. destruct old as [|o old']; [congruence|]. cbn in *. lia.
      * f_equal. apply IH; auto; cbn in *; lia.
Qed.

Lemma replace_nil : forall old new, replace old new [] = [].
Proof. intros [|o old] new; reflexivity. Qed.

Lemma replace_cons_match : forall old new c r,
  old <> [] -> starts_with old (c :: r) = true ->
  replace old new (c :: r) = new ++ replace old new (skipn (length old) (c :: r)).
Proof.
  intros old new c r Hold Hs. unfold replace. destruct old as [|o old']; [congruence|].
  cbn [length replace_fuel]. rewrite Hs. f_equal.
  apply replace_fuel_enough; auto.
  - cbn [length skipn]. rewrite skipn_length. lia.
Qed.

Lemma replace_cons_nomatch : forall old new c r,
  old <> [] -> starts_with old (c :: r) = false ->
  replace old new (c :: r) = c :: replace old new r.
Proof.
  intros old new c r Hold Hs. unfold replace. destruct old as [|o old']; [congruence|].
  cbn [length replace_fuel]. rewrite Hs. reflexivity.
Qed.

(** One-character patterns. *)
Lemma replace1_hit : forall a new r, replace [a] new (a :: r) = new ++ replace [a] new r.
Proof.
  intros. rewrite replace_cons_match; [reflexivity|discriminate|].
  cbn. rewrite N.eqb_refl. reflexivity.
Qed.
Lemma replace1_miss : forall a new c r, (a =? c) = false -> replace [a] new (c :: r) = c :: replace [a] new r.
Proof.
  intros. apply replace_cons_nomatch; [discriminate|]. cbn. rewrite H. reflexivity.
Qed.

(** Two-character patterns. *)
Lemma replace2_hit : forall a b new r, replace [a; b] new (a :: b :: r) = new ++ replace [a; b] new r.
Proof.
  intros. rewrite replace_cons_match; [reflexivity|discriminate|].
  cbn. rewrite !N.eqb_refl. reflexivity.
Qed.
Lemma replace2_miss : forall a b new c r,
  starts_with [a; b] (c :: r) = false -> replace [a; b] new (c :: r) = c :: replace [a; b] new r.
Proof. intros. apply replace_cons_nomatch; [discriminate|assumption]. Qed.

(** Three-character patterns. *)
Lemma replace3_hit : forall a b c new r,
  replace [a; b; c] new (a :: b :: c :: r) = new ++ replace [a; b; c] new r.
Proof.
  intros. rewrite replace_cons_match; [reflexivity|discriminate|].
  cbn. rewrite !N.eqb_refl. reflexivity.
Qed.
Lemma replace3_miss : forall a b c new x r,
  starts_with [a; b; c] (x :: r) = false -> replace [a; b; c] new (x :: r) = x :: replace [a; b; c] new r.
Proof. intros. apply replace_cons_nomatch; [discriminate|assumption]. Qed.
