"""Meta-models, instances and documents for the checks of the generated Python SDK
(C10 serialization, C29 traversal/accessors, C30 constants/enumerations).

Built on ``harness/gen/metamodel.py`` (abstract meta-model dataclasses, renderer to
meta-model source text, snippet synthesis). This module adds

* ``lite_of(mm)``      the *lite* view of an abstract meta-model that the Coq specification
                       (Model/SdkSpec.v) and the adapter harness/impl/pysdk.py work with:
                       enumerations, classes with their stacked properties, concrete
                       descendants, model types; names in every naming scheme are computed
                       HERE, independently of /repo's naming modules;
* model builders       hand-shaped families (constants with edge values, superset chains,
                       enumerations with edge literal values, X_or_default methods with
                       their snippets, missing with_model_type, lists of primitives, ...)
                       and wrappers around ``metamodel.random_metamodel``;
* instance generator   valid instances incl. shared sub-objects, empty lists, None;
* document mutations   typed JSON mutations and XML text mutations;
* printers             Coq terms of the lite meta-model, instances, JSON documents.

Pure Python, standard library only; everything random comes from the ``rng`` argument.
"""
from __future__ import annotations

import base64
import copy
import math
import struct
from typing import Any, Dict, List, Optional, Sequence, Tuple

from harness.gen import metamodel as mmg

# =====================================================================================
# Naming (independent re-implementation; a disagreement with /repo shows up as a failing
# attribute access or a differing JSON/XML name in the oracles)
# =====================================================================================


def lower_snake(ident: str) -> str:
    return "_".join(p.lower() for p in ident.split("_"))


def upper_snake(ident: str) -> str:
    return "_".join(p.upper() for p in ident.split("_"))


def lower_camel(ident: str) -> str:
    parts = ident.split("_")
    if len(parts) == 1:
        return parts[0].lower()
    return parts[0].lower() + "".join(p.capitalize() for p in parts[1:])


def capital_camel(ident: str) -> str:
    return "".join(p.capitalize() for p in ident.split("_"))


def py_class_name(ident: str) -> str:
    return "".join(p if p == p.upper() else p.capitalize() for p in ident.split("_"))


# =====================================================================================
# Value encodings shared with harness/impl/pysdk.py
# =====================================================================================


def f2hex(x: float) -> str:
    return struct.pack(">d", x).hex()


def hex2f(h: str) -> float:
    return struct.unpack(">d", bytes.fromhex(h))[0]


def e_bool(b: bool) -> Dict[str, Any]:
    return {"b": bool(b)}


def e_int(i: int) -> Dict[str, Any]:
    return {"i": str(int(i))}


def e_float(x: float) -> Dict[str, Any]:
    return {"d": f2hex(x)}


def e_str(s: str) -> Dict[str, Any]:
    return {"s": [ord(c) for c in s]}


def e_bytes(b: bytes) -> Dict[str, Any]:
    return {"y": bytes(b).hex()}


def e_enum(enum: str, literal: str) -> Dict[str, Any]:
    return {"e": enum, "l": literal}


def e_list(items: Sequence[Any]) -> Dict[str, Any]:
    return {"L": list(items)}


def enc_plain(v: Any) -> Any:
    """Encode a plain Python constant (bool/int/float/str/bytes)."""
    if isinstance(v, bool):
        return e_bool(v)
    if isinstance(v, int):
        return e_int(v)
    if isinstance(v, float):
        return e_float(v)
    if isinstance(v, str):
        return e_str(v)
    if isinstance(v, (bytes, bytearray)):
        return e_bytes(bytes(v))
    raise TypeError(v)


def dec_str(e: Dict[str, Any]) -> str:
    return "".join(chr(c) for c in e["s"])


# =====================================================================================
# Lite view
# =====================================================================================


def _lite_type(mm: mmg.MetaModel, t: mmg.Type) -> Dict[str, Any]:
    if isinstance(t, mmg.TPrim):
        return {"k": "prim", "p": t.name}
    if isinstance(t, mmg.TOur):
        if mm.find_enum(t.name) is not None:
            return {"k": "enum", "n": t.name}
        cp = mm.find_cprim(t.name)
        if cp is not None:
            return {"k": "prim", "p": cp.constrainee}
        return {"k": "cls", "n": t.name}
    if isinstance(t, mmg.TList):
        return {"k": "list", "items": _lite_type(mm, t.items)}
    raise TypeError(t)


def lite_of(mm: mmg.MetaModel, module: str, or_default: Optional[Dict[Tuple[str, str], Any]] = None) -> Dict[str, Any]:
    """The lite view; ``or_default`` maps (class, method) -> (property, encoded default)."""
    or_default = or_default or {}
    enums = []
    for en in mm.enumerations:
        enums.append({
            "name": en.name, "py": py_class_name(en.name), "fn": lower_snake(en.name),
            "literals": [{"name": l.name, "py": upper_snake(l.name), "value": l.value}
                         for l in en.literals],
        })
    classes = []
    for c in mm.classes:
        if c.is_implementation_specific:
            raise ValueError("implementation-specific classes are outside the SDK checks")
        props = []
        for p, owner in mmg.stacked_properties(mm, c):
            t = p.type
            optional = isinstance(t, mmg.TOpt)
            if optional:
                t = t.value
            props.append({
                "name": p.name, "py": lower_snake(p.name), "json": lower_camel(p.name),
                "xml": lower_camel(p.name), "type": _lite_type(mm, t), "optional": optional,
                "owner": owner.name,
            })
        ods = []
        for cc in [*mmg.ancestors(mm, c), c]:
            for m in cc.methods:
                key = (cc.name, m.name)
                if key in or_default:
                    prop, default = or_default[key]
                    ods.append({"method": m.name, "py": lower_snake(m.name), "prop": prop,
                                "default": default})
        classes.append({
            "name": c.name, "py": py_class_name(c.name), "fn": lower_snake(c.name),
            "abstract": c.is_abstract,
            "with_model_type": mmg.effective_with_model_type(mm, c),
            "model_type": capital_camel(c.name), "xml": lower_camel(c.name),
            "props": props,
            "concrete_descendants": [d.name for d in mmg.concrete_descendants(mm, c)],
            "or_default": ods,
        })
    constants = []
    for k in mm.constants:
        if isinstance(k, mmg.ConstantPrimitive):
            constants.append({"kind": "primitive", "name": k.name, "py": upper_snake(k.name),
                              "type": k.kind, "value": enc_plain(k.value)})
        else:
            is_enum = k.items_type not in mmg.PRIMITIVES
            constants.append({
                "kind": "set", "name": k.name, "py": upper_snake(k.name), "type": k.items_type,
                "is_enum": is_enum,
                "values": [e_enum(k.items_type, v) if is_enum else enc_plain(v) for v in k.values],
                "superset_of": list(k.superset_of),
            })
    return {"module": module, "enums": enums, "classes": classes, "constants": constants}


def find_cls(lite: Dict[str, Any], name: str) -> Dict[str, Any]:
    for c in lite["classes"]:
        if c["name"] == name:
            return c
    raise KeyError(name)


def find_enum(lite: Dict[str, Any], name: str) -> Dict[str, Any]:
    for e in lite["enums"]:
        if e["name"] == name:
            return e
    raise KeyError(name)


def concrete_options(lite: Dict[str, Any], name: str) -> List[str]:
    c = find_cls(lite, name)
    out = [] if c["abstract"] else [name]
    return out + list(c["concrete_descendants"])


# =====================================================================================
# A packaged model: what one generator run needs and what the checks need
# =====================================================================================


class SdkModel:
    def __init__(self, tag: str, mm: mmg.MetaModel, module: str,
                 or_default: Optional[Dict[Tuple[str, str], Any]] = None,
                 extra_snippets: Optional[Dict[str, str]] = None,
                 expect: str = "accepted") -> None:
        self.tag = tag
        self.mm = mm
        self.module = module
        self.expect = expect          # "accepted" | "rejected" (front end must refuse)
        # repr(inf) is not a literal: the meta-model text writes the overflowing literal
        self.source = mmg.render_source(mm).replace("constant_float(value=inf", "constant_float(value=1e400")
        self.snippets = dict(mmg.synth_snippets(mm, "python"))
        self.snippets["qualified_module_name.txt"] = module
        self.snippets.update(extra_snippets or {})
        self.lite = lite_of(mm, module, or_default) if expect == "accepted" else None
        self.sdk_dir: Optional[str] = None     # filled after generation
        self.gen_result: Optional[Dict[str, Any]] = None

    def job(self) -> Dict[str, Any]:
        return {"model_text": self.source, "target": "python", "snippets": self.snippets,
                "files": "text"}


def _mm(**kw: Any) -> mmg.MetaModel:
    base = dict(doc=None, version="V1.0", xml_namespace="https://example.com/sdk/1/0")
    base.update(kw)
    m = mmg.MetaModel(**base)
    m.quote_our_types = True
    return m


# =====================================================================================
# C30 families: constants, constant sets, enumerations
# =====================================================================================

EDGE_STRINGS = [
    "", "x", "some text", "a-b_c", 'Text with "quotes"', "it's", "both ' and \"", "tab\there",
    "new\nline", "cr\rlf\r\n", "back\\slash", "\\n not newline", "äöü ß", "   seps",
    "\U0001F600 astral", "{curly} {{braces}}", "%s %d", "'''", '"""', "trailing backslash \\",
    "\x07\x08\x0b\x0c bell", "\x7f del \x1b esc", " leading and trailing ", " nbsp", "﻿bom",
]
#: a string the Python tokenizer cannot hold raw; reported under a stable key
NUL_STRING = "nul\x00byte"

EDGE_INTS = [0, 1, 7, 255, 65536, 2**31 - 1, 2**31, 2**63, 2**64 + 1, 10**30, 0o17, 0x10]
EDGE_FLOATS = [0.0, 0.5, 1.5, 3.25, 100.0, 1e10, 2.5e-3, 1e-7, 1e22, 1e23, 0.1, 1 / 3,
               5e-324, 1.7976931348623157e308, 123456789.12345678, 1e16, 2.0**53 + 2]


def const_names(rng, n: int, prefix: str) -> List[str]:
    words = ["alpha", "beta", "gamma", "delta", "omega", "sigma", "kappa", "theta", "lambda_x", "zeta",
             "URL", "ID", "IEC", "mu", "nu", "xi", "rho", "tau", "phi", "chi", "psi"]
    out: List[str] = []
    seen = set()
    while len(out) < n:
        k = rng.randint(1, 3)
        name = prefix + "_" + "_".join(rng.choice(words) for _ in range(k))
        name = name[0].upper() + name[1:]
        low = name.lower()
        if low in seen or mmg.is_reserved_type_name(name):
            continue
        seen.add(low)
        out.append(name)
    return out


def model_constants(rng, idx: int, module: str, with_inf: bool = False, with_nul: bool = False,
                    n_prims: int = 14) -> SdkModel:
    """Primitive constants of every accepted kind with edge values + enumerations with edge
    literal values + constant sets with superset chains (valid)."""
    mm = _mm()
    names = const_names(rng, n_prims + 12, "K")
    consts: List[Any] = []
    pool: List[Tuple[str, Any]] = []
    pool += [("str", s) for s in rng.sample(EDGE_STRINGS, min(len(EDGE_STRINGS), max(4, n_prims // 2)))]
    pool += [("int", i) for i in rng.sample(EDGE_INTS, 4)]
    pool += [("float", f) for f in rng.sample(EDGE_FLOATS, 4)]
    pool += [("bool", True), ("bool", False)]
    rng.shuffle(pool)
    pool = pool[:n_prims]
    if with_inf:
        pool.append(("float", math.inf))
    if with_nul:
        pool.append(("str", NUL_STRING))
    for (kind, value) in pool:
        consts.append(mmg.ConstantPrimitive(names.pop(), kind, value))
    # enumerations with edge literal values (distinct values: the front end demands it)
    enums = []
    lit_words = ["Red", "Green", "Blue", "Dark_red", "URL_color", "Off_white", "X", "Y_2", "Ultra_violet_UV"]
    for e in range(rng.randint(2, 3)):
        k = rng.randint(1, 6)
        lits = rng.sample(lit_words, k)
        values = rng.sample([s for s in EDGE_STRINGS if "\x00" not in s], k)
        if e == 0:
            values = [l.lower() for l in lits]      # a plain one
        enums.append(mmg.Enumeration(f"Shade_{e}" if e else "Colour_kind",
                                     [mmg.EnumLiteral(l, v) for l, v in zip(lits, values)]))
    mm.enumerations = enums
    # constant sets: chains of supersets (valid: each superset lists its subsets' literals)
    sets: List[mmg.ConstantSet] = []
    for s in range(rng.randint(3, 6)):
        name = names.pop()
        kind = rng.choice(["str", "str", "int", "enum", "bool"] if s else ["str"])
        same = [x for x in sets if x.items_type == kind or (kind == "enum" and x.items_type not in mmg.PRIMITIVES)]
        if kind == "enum":
            en = rng.choice([e for e in enums])
            same = [x for x in sets if x.items_type == en.name]
            base_pool: List[Any] = [l.name for l in en.literals]
            items_type = en.name
        elif kind == "str":
            base_pool = rng.sample(EDGE_STRINGS, 8)
            items_type = "str"
        elif kind == "int":
            base_pool = rng.sample(range(0, 50), 8) + [2**40]
            items_type = "int"
        else:
            base_pool = [True, False]
            items_type = "bool"
        subs = rng.sample(same, min(len(same), rng.choice([0, 1, 1, 2]))) if same else []
        values: List[Any] = []
        for sub in subs:
            for v in sub.values:
                if v not in values:
                    values.append(v)
        extra = [v for v in base_pool if v not in values]
        values += rng.sample(extra, rng.randint(0 if values else 1, min(3, len(extra)))) if extra else []
        if not values:
            values = [base_pool[0]]
        rng.shuffle(values)
        sets.append(mmg.ConstantSet(name, items_type, values, superset_of=[x.name for x in subs]))
    if idx == 0:
        # corpus: a literal with str.splitlines() boundaries (textwrap.indent used to split it)
        sets.append(mmg.ConstantSet("K_line_separators", "str", ["\u2028 x", "y\u2029 z", "plain"]))
    mm.constants = consts + sets
    # the generators need at least one class (an empty class list crashes them: C02's topic)
    mm.classes = [mmg.Class("Anchor_thing", properties=[mmg.Property("label", mmg.TPrim("str"))])]
    return SdkModel(f"constants-{idx}", mm, module)


def model_bad_superset(rng, idx: int, module: str) -> SdkModel:
    """A superset chain in which one superset misses a literal of a (transitive) subset:
    the front end must refuse it."""
    mm = _mm()
    a = mmg.ConstantSet("Set_a", "str", ["p", "q"])
    b = mmg.ConstantSet("Set_b", "str", ["p", "q", "r"], superset_of=["Set_a"])
    c_vals = ["p", "q", "r", "s"]
    missing = rng.choice(["p", "q", "r"])
    c_vals.remove(missing)
    c = mmg.ConstantSet("Set_c", "str", c_vals, superset_of=["Set_b"])
    kinds = rng.choice(["chain", "type", "unknown"])
    if kinds == "type":
        c = mmg.ConstantSet("Set_c", "int", [1, 2], superset_of=["Set_b"])
    elif kinds == "unknown":
        c = mmg.ConstantSet("Set_c", "str", ["p", "q", "r"], superset_of=["Set_nowhere"])
    mm.constants = [a, b, c]
    return SdkModel(f"bad-superset-{kinds}-{idx}", mm, module, expect="rejected")


# =====================================================================================
# C29 / C10 families: classes
# =====================================================================================


def with_ctor_defaults(mm: mmg.MetaModel, cls: mmg.Class, defaults: Dict[str, str]) -> None:
    """Give the constructor arguments of REQUIRED properties non-None defaults (source text,
    e.g. ``{"level": "3"}``): the derived constructor, with the defaulted required arguments
    moved behind the plain ones (and before the Optional ``= None`` ones)."""
    ctor = mmg.derive_ctor(mm, cls)
    assert ctor is not None
    plain = [a for a in ctor.args if a.default is None and a.name not in defaults]
    dflt = [mmg.CtorArg(a.name, a.type, defaults[a.name]) for a in ctor.args if a.default is None and a.name in defaults]
    opt = [a for a in ctor.args if a.default is not None]
    cls.ctor_override = mmg.Ctor(args=plain + dflt + opt, body=ctor.body)


def model_shapes(rng, idx: int, module: str) -> SdkModel:
    """Hand-shaped class model: an abstract root with concrete leaves (with_model_type),
    a stand-alone class with every primitive kind (required, optional, lists), nested
    classes, lists of abstract items, X_or_default methods with their snippets."""
    mm = _mm()
    T, O, L, P, U = mmg.TPrim, mmg.TOpt, mmg.TList, mmg.Property, mmg.TOur
    kind = mmg.Enumeration("Modelling_kind_IEC_61360", [mmg.EnumLiteral("Template", "Template"),
                                               mmg.EnumLiteral("Instance", "Instance"),
                                               mmg.EnumLiteral("Odd_one", "odd \"one\" & <two>"),
                                               mmg.EnumLiteral("URL_type", "url type"),
                                               mmg.EnumLiteral("X_2", "X2")])
    level = mmg.Enumeration("Level_type_X", [mmg.EnumLiteral("Min", "Min"), mmg.EnumLiteral("Max", "Max"),
                                           mmg.EnumLiteral("Nom", "Nom"), mmg.EnumLiteral("Typ", "Typ"),
                                           mmg.EnumLiteral("Not_applicable", "n/a")])
    mm.enumerations = [kind, level]
    # constrained primitives of every primitive type (names with all-caps / digit / one-letter parts)
    mm.constrained_primitives = [mmg.ConstrainedPrimitive("Short_text", "str"),
                                 mmg.ConstrainedPrimitive("Small_int_V2", "int"),
                                 mmg.ConstrainedPrimitive("Ratio_value", "float"),
                                 mmg.ConstrainedPrimitive("Flag_value_X", "bool"),
                                 mmg.ConstrainedPrimitive("Blob_value_DER", "bytearray")]
    item = mmg.Class("Abstract_ID_item", is_abstract=True, with_model_type=True,
                     properties=[P("ID_short", O(T("str")))])
    leaf_a = mmg.Class("URL_resource", bases=["Abstract_ID_item"],
                       properties=[P("text", T("str")), P("more_A_b", O(U("Short_text")))])
    leaf_b = mmg.Class("X509_cert", bases=["Abstract_ID_item"],
                       properties=[P("X509_data", T("bytearray")), P("opt_blob", O(T("bytearray"))),
                                   P("chain_DER", O(L(U("Blob_value_DER"))))])
    # required properties whose constructor arguments have non-None defaults
    dflts = mmg.Class("Defaults_thing",
                      properties=[P("level", T("int")), P("label", T("str")), P("flag", T("bool")),
                                  P("ratio", T("float")), P("plain", T("int")), P("remark", O(T("str")))])
    # single (non-list) properties typed with LEAF concrete classes below a with_model_type
    # ancestor (X509_cert, Deep_leaf_URL), with a class that has descendants (URL_resource) and
    # with the abstract root, at nesting depth >= 2 (Holder.item -> A_b_C_container -> ...)
    mid = mmg.Class("A_b_C_container", bases=["Abstract_ID_item"],
                    properties=[P("items", O(L(U("Abstract_ID_item")))), P("first_ID", O(U("Abstract_ID_item"))),
                                P("texts", L(U("URL_resource"))),
                                P("main_X509", O(U("X509_cert"))), P("main_deep", O(U("Deep_leaf_URL"))),
                                P("thing", O(U("Defaults_thing"))), P("things", O(L(U("Defaults_thing"))))])
    deep = mmg.Class("Deep_leaf_URL", bases=["URL_resource"], properties=[P("URL_count", T("int"))])
    or_default: Dict[Tuple[str, str], Any] = {}
    extra: Dict[str, str] = {}
    prims = mmg.Class(
        "All_primitives",
        properties=[P("a_bool", T("bool")), P("an_int", T("int")), P("a_float", T("float")),
                    P("a_str", T("str")), P("some_bytes", T("bytearray")), P("kind", O(U("Modelling_kind_IEC_61360"))),
                    P("opt_bool", O(T("bool"))), P("opt_int", O(T("int"))), P("opt_float", O(T("float"))),
                    P("opt_str", O(T("str"))), P("level", U("Level_type_X")),
                    P("strs", O(L(T("str")))), P("ints_V2", L(T("int"))), P("kinds", O(L(U("Modelling_kind_IEC_61360")))),
                    # lists (required / optional) of every item kind
                    P("bools", O(L(T("bool")))), P("floats", L(T("float"))), P("blobs", L(T("bytearray"))),
                    P("opt_blobs", O(L(T("bytearray")))), P("levels_X", L(U("Level_type_X"))),
                    P("short_texts", O(L(U("Short_text")))), P("small_ints", L(U("Small_int_V2"))),
                    P("ratio_values", O(L(U("Ratio_value")))), P("flag_values", O(L(U("Flag_value_X")))),
                    P("blob_values_DER", L(U("Blob_value_DER"))), P("opt_blob_values", O(L(U("Blob_value_DER")))),
                    P("a_blob_value", U("Blob_value_DER")), P("opt_small_int", O(U("Small_int_V2")))],
        methods=[mmg.Method("kind_or_default", U("Modelling_kind_IEC_61360")),
                 mmg.Method("opt_bool_or_default", T("bool")),
                 mmg.Method("opt_int_or_default", T("int")),
                 mmg.Method("opt_str_or_default", T("str"))])
    or_default[("All_primitives", "kind_or_default")] = ("kind", e_enum("Modelling_kind_IEC_61360", "Instance"))
    or_default[("All_primitives", "opt_bool_or_default")] = ("opt_bool", e_bool(True))
    or_default[("All_primitives", "opt_int_or_default")] = ("opt_int", e_int(42))
    or_default[("All_primitives", "opt_str_or_default")] = ("opt_str", e_str("dflt"))
    extra["Types/All_primitives/kind_or_default.py"] = (
        'def kind_or_default(self) -> "ModellingKindIEC61360":\n'
        '    """Return :py:attr:`kind` if set, and the default otherwise."""\n'
        "    return self.kind if self.kind is not None else ModellingKindIEC61360.INSTANCE")
    extra["Types/All_primitives/opt_bool_or_default.py"] = (
        "def opt_bool_or_default(self) -> bool:\n"
        "    return self.opt_bool if self.opt_bool is not None else True")
    extra["Types/All_primitives/opt_int_or_default.py"] = (
        "def opt_int_or_default(self) -> int:\n"
        "    return self.opt_int if self.opt_int is not None else 42")
    extra["Types/All_primitives/opt_str_or_default.py"] = (
        "def opt_str_or_default(self) -> str:\n"
        "    return self.opt_str if self.opt_str is not None else 'dflt'")
    holder = mmg.Class("Holder", with_model_type=bool(idx % 2),
                       properties=[P("prims", U("All_primitives")), P("an_ID_item", U("Abstract_ID_item")),
                                   P("leaf", O(U("URL_resource"))), P("many", L(U("All_primitives"))),
                                   P("opt_many", O(L(U("A_b_C_container")))),
                                   P("blob_leaf", U("X509_cert")), P("deep_leaf", U("Deep_leaf_URL")),
                                   P("nested_container", O(U("A_b_C_container"))), P("dflt", U("Defaults_thing"))])
    mm.classes = [item, leaf_a, leaf_b, mid, deep, prims, dflts, holder]
    with_ctor_defaults(mm, dflts, {"level": "3", "label": '"x"', "flag": "True"})
    # the real URL_resource has a concrete descendant: it needs with_model_type (inherited)
    return SdkModel(f"shapes-{idx}", mm, module, or_default=or_default, extra_snippets=extra)


def model_mixins(rng, idx: int, module: str) -> SdkModel:
    """Multiple inheritance: a concrete parent plus an abstract mix-in that contributes
    class-typed and list-of-class properties; children WITHOUT own properties (single and
    multiple inheritance); a concrete child of a concrete class without own properties; a
    child with an own descendable property; a container nesting all of them."""
    mm = _mm()
    T, O, L, P, U = mmg.TPrim, mmg.TOpt, mmg.TList, mmg.Property, mmg.TOur
    extra = mmg.Class("Extra_item", properties=[P("text", T("str"))])
    has_extras = mmg.Class("Has_extras", is_abstract=True, with_model_type=True,
                           properties=[P("extras", O(L(U("Extra_item")))), P("main_extra", O(U("Extra_item")))])
    plain = mmg.Class("Plain_part", with_model_type=True,
                      properties=[P("name", T("str")), P("part_item", O(U("Extra_item")))])
    derived = mmg.Class("Derived_part", bases=["Plain_part", "Has_extras"])
    sub_plain = mmg.Class("Sub_plain", bases=["Plain_part"])
    sub_sub = mmg.Class("Sub_sub_plain", bases=["Sub_plain"])
    sub_own = mmg.Class("Sub_with_own", bases=["Plain_part"], properties=[P("more", O(L(U("Extra_item"))))])
    mixed_own = mmg.Class("Mixed_with_own", bases=["Sub_with_own", "Has_extras"])
    only_mixin = mmg.Class("Only_extras", bases=["Has_extras"])
    container = mmg.Class("Part_container",
                          properties=[P("parts", L(U("Plain_part"))), P("first_part", O(U("Plain_part"))),
                                      P("derived", O(U("Derived_part"))), P("with_extras", O(U("Has_extras"))),
                                      P("subs", O(L(U("Sub_plain")))), P("inner", O(L(U("Part_container"))))])
    mm.classes = [extra, has_extras, plain, derived, sub_plain, sub_sub, sub_own, mixed_own, only_mixin, container]
    return SdkModel(f"mixins-{idx}", mm, module)


def model_float_default(rng, idx: int, module: str) -> SdkModel:
    """A required float property whose constructor argument has a default (kept apart from
    the shapes model: on a tree without the repair the generated types module has a syntax
    error, reported under the stable key ``float-ctor-default-breaks-import``)."""
    mm = _mm()
    T, P = mmg.TPrim, mmg.Property
    c = mmg.Class("Ratio_thing", properties=[P("ratio", T("float")), P("count", T("int")),
                                             P("remark", mmg.TOpt(T("str")))])
    mm.classes = [c]
    with_ctor_defaults(mm, c, {"ratio": "1.5"})
    return SdkModel(f"float-default-{idx}", mm, module)


def model_missing_model_type(rng, idx: int, module: str) -> SdkModel:
    """A concrete class with a concrete descendant, never used as a property type and
    without ``with_model_type``: accepted by the front end."""
    mm = _mm()
    T, P = mmg.TPrim, mmg.Property
    a = mmg.Class("Plain_base", properties=[P("x", T("int")), P("s", T("str"))])
    b = mmg.Class("Plain_child", bases=["Plain_base"], properties=[P("y", T("bool"))])
    mm.classes = [a, b]
    return SdkModel(f"missing-model-type-{idx}", mm, module)


def model_random(rng, idx: int, module: str, profile: str = "small") -> SdkModel:
    prof = copy.deepcopy(mmg.PROFILES[profile])
    prof.p_impl_specific_class = 0.0
    prof.p_method = 0.0
    prof.impl_fns = (0, 0)
    prof.p_list_non_class = 0.3
    prof.p_empty_concrete_class = 0.0   # crashes the jsonization generator (C02's topic)
    prof.invariants_per_class = (0, 1)
    mm = mmg.random_metamodel(rng, prof)
    return SdkModel(f"random-{profile}-{idx}", mm, module)


# =====================================================================================
# Instances
# =====================================================================================

TEXT_POOL = ["", "x", "hello world", "a<b&c>d", "&amp;", "]]>", "tab\tand\nnewline", " spaces  ",
             "äöü€", "\U0001F600", "quote\"s'", " ", "<!-- c -->", "é́", "0", "true", "null",
             "a" * 40]
CR_POOL = ["cr\rhere", "\r", "crlf\r\n", "\r\n\r"]
#: text that XML 1.0 cannot carry (not "XML-representable"): JSON only
NON_XML_POOL = ["\x00", "\x0b", "\ud800", "￾", "\x1f"]


class InstanceGen:
    def __init__(self, rng, lite: Dict[str, Any], xml_safe: bool = False, with_cr: bool = True,
                 share: float = 0.15, empty_bytes: bool = True) -> None:
        self.rng = rng
        self.lite = lite
        self.next_id = 1
        self.pool: Dict[str, List[Dict[str, Any]]] = {}
        self.xml_safe = xml_safe
        self.with_cr = with_cr
        self.share = share
        self.empty_bytes = empty_bytes
        self.ranks = instantiable_ranks(lite)
        self.nodes = 0

    def text(self) -> str:
        r = self.rng.random()
        if r < 0.6:
            return self.rng.choice(TEXT_POOL)
        if r < 0.7 and self.with_cr:
            return self.rng.choice(CR_POOL)
        if r < 0.75 and not self.xml_safe:
            return self.rng.choice(NON_XML_POOL)
        n = self.rng.randint(0, 6)
        alphabet = "ab <>&\"'\n\t;#x1é中"
        return "".join(self.rng.choice(alphabet) for _ in range(n))

    def prim(self, p: str) -> Any:
        rng = self.rng
        if p == "bool":
            return e_bool(rng.random() < 0.5)
        if p == "int":
            return e_int(rng.choice([0, 1, -1, 7, -(2**31), 2**63, 10**25, rng.randint(-1000, 1000)]))
        if p == "float":
            return e_float(rng.choice([0.0, -0.0, 1.5, -2.25, 1e22, 1e-7, 0.1, 5e-324, 1e308 * 10,
                                       -math.inf, math.nan, 3.0, 1e16, rng.random() * 100]))
        if p == "str":
            return e_str(self.text())
        if p == "bytearray":
            n = rng.choice([0, 1, 2, 3, 4, 7] if self.empty_bytes else [1, 2, 3, 4, 7])
            return e_bytes(bytes(rng.randrange(256) for _ in range(n)))
        raise ValueError(p)

    def value(self, t: Dict[str, Any], depth: int) -> Any:
        k = t["k"]
        if k == "prim":
            return self.prim(t["p"])
        if k == "enum":
            en = find_enum(self.lite, t["n"])
            return e_enum(en["name"], self.rng.choice(en["literals"])["name"])
        if k == "cls":
            return self.obj(t["n"], depth)
        if k == "list":
            n = self.rng.choice([0, 0, 1, 2, 3]) if depth > 0 else (self.rng.choice([0, 0, 1]) if depth == 0 else 0)
            return e_list([self.value(t["items"], depth - 1) for _ in range(n)])
        raise ValueError(k)

    def obj(self, static: str, depth: int) -> Any:
        options = concrete_options(self.lite, static)
        if not options:
            raise ValueError(f"no concrete class below {static}")
        if self.rng.random() < self.share:
            cands = [o for name in options for o in self.pool.get(name, [])]
            if cands:
                return {"r": self.rng.choice(cands)["o"]}
        if depth <= 0:
            # out of budget: the class that bottoms out fastest (termination)
            best = min(self.ranks.get(o, 10**6) for o in options)
            options = [o for o in options if self.ranks.get(o, 10**6) == best]
        name = self.rng.choice(options)
        return self.new_obj(name, depth)

    def new_obj(self, name: str, depth: int, force: Optional[Dict[str, str]] = None) -> Dict[str, Any]:
        """``force``: property name -> concrete class to put at that (class-typed or
        list-of-class) position of THIS object."""
        c = find_cls(self.lite, name)
        oid = self.next_id
        self.next_id += 1
        self.nodes += 1
        fields = []
        for p in c["props"]:
            needs_obj = p["type"]["k"] == "cls"
            if force and p["name"] in force:
                forced = self.new_obj(force[p["name"]], depth - 1)
                if p["type"]["k"] == "list":
                    items = [forced]
                    if self.rng.random() < 0.5:
                        items.insert(self.rng.randint(0, 1), self.value(p["type"]["items"], depth - 1))
                    fields.append(e_list(items))
                else:
                    fields.append(forced)
            elif p["optional"] and (self.rng.random() < 0.45 or (depth <= 0 and (needs_obj or p["type"]["k"] == "list"))):
                fields.append(None)
            else:
                fields.append(self.value(p["type"], depth - 1))
        o = {"o": oid, "c": name, "f": fields}
        # only completed objects are shared (no cycles)
        self.pool.setdefault(name, []).append(o)
        return o


def class_positions(lite: Dict[str, Any]) -> List[Tuple[str, str, str]]:
    """(holder class, property, concrete class) for every class-typed or list-of-class
    property of every concrete class and every class that may stand there."""
    out = []
    for c in lite["classes"]:
        if c["abstract"]:
            continue
        for p in c["props"]:
            t = p["type"]["items"] if p["type"]["k"] == "list" else p["type"]
            if t["k"] == "cls":
                for d in concrete_options(lite, t["n"]):
                    out.append((c["name"], p["name"], d))
    return out


def instantiable_ranks(lite: Dict[str, Any]) -> Dict[str, int]:
    """Concrete classes for which a finite instance exists, with the round of the fixpoint
    iteration in which that became known (0 = no required class-typed property)."""
    rank: Dict[str, int] = {}
    rnd = 0
    changed = True
    while changed:
        changed = False
        new: List[str] = []
        for c in lite["classes"]:
            if c["abstract"] or c["name"] in rank:
                continue
            good = True
            for p in c["props"]:
                if p["optional"]:
                    continue
                t = p["type"]
                if t["k"] == "cls" and not any(o in rank for o in concrete_options(lite, t["n"])):
                    good = False
            if good:
                new.append(c["name"])
        for n in new:
            rank[n] = rnd
            changed = True
        rnd += 1
    return rank


def instantiable(lite: Dict[str, Any]) -> List[str]:
    """Concrete classes for which a finite instance exists (required class-typed properties
    bottom out)."""
    rank = instantiable_ranks(lite)
    return [c["name"] for c in lite["classes"] if c["name"] in rank]


def restrict_to(lite: Dict[str, Any], ok: Sequence[str]) -> Dict[str, Any]:
    """A copy of the lite model in which concrete descendants are limited to instantiable
    classes (used by the instance generator only)."""
    l2 = copy.deepcopy(lite)
    for c in l2["classes"]:
        c["concrete_descendants"] = [d for d in c["concrete_descendants"] if d in ok]
        if c["name"] not in ok:
            c["abstract"] = True
    return l2


def resolve(inst: Any, table: Optional[Dict[int, Any]] = None) -> Dict[int, Any]:
    """id -> object encoding for every object of an encoded instance."""
    table = {} if table is None else table
    if isinstance(inst, dict):
        if "o" in inst:
            table[inst["o"]] = inst
            for f in inst["f"]:
                resolve(f, table)
        elif "L" in inst:
            for x in inst["L"]:
                resolve(x, table)
    return table


def expand(inst: Any, table: Dict[int, Any]) -> Any:
    """The instance as a tree (shared references unfolded)."""
    if isinstance(inst, dict):
        if "r" in inst:
            return expand(table[inst["r"]], table)
        if "o" in inst:
            return {"o": inst["o"], "c": inst["c"], "f": [expand(f, table) for f in inst["f"]]}
        if "L" in inst:
            return {"L": [expand(x, table) for x in inst["L"]]}
    return inst


def walk_once(inst: Dict[str, Any]) -> List[Any]:
    """Reference walk (tree form): directly nested objects in property and list order."""
    out = []
    for f in inst["f"]:
        if isinstance(f, dict) and "o" in f:
            out.append(f)
        elif isinstance(f, dict) and "L" in f:
            out.extend(x for x in f["L"] if isinstance(x, dict) and "o" in x)
    return out


def walk_all(inst: Dict[str, Any]) -> List[Any]:
    out = []
    for c in walk_once(inst):
        out.append(c)
        out.extend(walk_all(c))
    return out


def count_nodes(inst: Any) -> int:
    return 1 + len(walk_all(inst)) if isinstance(inst, dict) and "o" in inst else 0


# =====================================================================================
# Coq printers
# =====================================================================================


def cq_text(s: str) -> str:
    return "[" + ";".join(str(ord(c)) for c in s) + "]"


def cq_cps(cps: Sequence[int]) -> str:
    return "[" + ";".join(str(c) for c in cps) + "]"


def cq_list(items: Sequence[str]) -> str:
    return "[" + "; ".join(items) + "]"


def cq_bool(b: bool) -> str:
    return "true" if b else "false"


_PRIM_CQ = {"bool": "PBool", "int": "PInt", "float": "PFloat", "str": "PStr", "bytearray": "PBytes"}


def cq_aty(t: Dict[str, Any]) -> str:
    if t["k"] == "prim":
        return f"(APrim {_PRIM_CQ[t['p']]})"
    if t["k"] == "enum":
        return f"(AEnum {cq_text(t['n'])})"
    if t["k"] == "cls":
        return f"(ACls {cq_text(t['n'])})"
    raise ValueError(t)


def cq_pty(t: Dict[str, Any]) -> str:
    if t["k"] == "list":
        return f"(TList {cq_aty(t['items'])})"
    return f"(TAtom {cq_aty(t)})"


def cq_mm(lite: Dict[str, Any]) -> str:
    enums = []
    for e in lite["enums"]:
        lits = cq_list([f"({cq_text(l['name'])}, {cq_text(l['value'])})" for l in e["literals"]])
        enums.append(f"(mkEnum {cq_text(e['name'])} {lits})")
    classes = []
    for c in lite["classes"]:
        props = cq_list([
            f"(mkProp {cq_text(p['json'])} {cq_pty(p['type'])} {cq_bool(p['optional'])})"
            for p in c["props"]])
        desc = cq_list([cq_text(d) for d in c["concrete_descendants"]])
        classes.append(
            f"(mkCls {cq_text(c['name'])} {cq_text(c['model_type'])} {cq_bool(c['abstract'])} "
            f"{cq_bool(c['with_model_type'])} {props} {desc})")
    return f"(mkMM {cq_list(enums)} {cq_list(classes)})"


def cq_value(v: Any) -> str:
    """Tree-form encoded value -> Coq term of type value."""
    if v is None:
        return "VNone"
    if "b" in v:
        return f"(VBool {cq_bool(v['b'])})"
    if "i" in v:
        return f"(VInt ({v['i']})%Z)"
    if "d" in v:
        return f"(VFloat {int(v['d'], 16)}%N)"
    if "s" in v:
        return f"(VStr {cq_cps(v['s'])})"
    if "y" in v:
        return f"(VBytes {cq_cps(bytes.fromhex(v['y']))})"
    if "e" in v:
        return f"(VEnum {cq_text(v['e'])} {cq_text(v['l'])})"
    if "L" in v:
        return f"(VList {cq_list([cq_value(x) for x in v['L']])})"
    if "o" in v:
        return f"(VObj {cq_text(v['c'])} {cq_list([cq_value(x) for x in v['f']])})"
    raise ValueError(v)


def cq_json(j: Any) -> str:
    if j is None:
        return "JNull"
    if "b" in j:
        return f"(JBool {cq_bool(j['b'])})"
    if "i" in j:
        return f"(JInt ({j['i']})%Z)"
    if "d" in j:
        return f"(JFloat {int(j['d'], 16)}%N)"
    if "s" in j:
        return f"(JStr {cq_cps(j['s'])})"
    if "A" in j:
        return f"(JArr {cq_list([cq_json(x) for x in j['A']])})"
    if "O" in j:
        return "(JObj " + cq_list([f"({cq_cps(k)}, {cq_json(x)})" for k, x in j["O"]]) + ")"
    raise ValueError(j)


# =====================================================================================
# JSON documents: typed mutations
# =====================================================================================

J_KINDS = ["null", "bool", "int", "float", "str", "arr", "obj"]


def j_str(s: str) -> Dict[str, Any]:
    return {"s": [ord(c) for c in s]}


def j_sample(rng, kind: str) -> Any:
    if kind == "null":
        return None
    if kind == "bool":
        return {"b": rng.random() < 0.5}
    if kind == "int":
        return {"i": str(rng.choice([0, 1, -3, 2**70]))}
    if kind == "float":
        return {"d": f2hex(rng.choice([0.0, 1.0, 2.5, math.inf, math.nan]))}
    if kind == "str":
        return j_str(rng.choice(["", "x", "AP8=", "true", "1", "Leaf_text", "modelType"]))
    if kind == "arr":
        return {"A": [] if rng.random() < 0.5 else [j_str("x")]}
    if kind == "obj":
        return {"O": [] if rng.random() < 0.5 else [[[ord(c) for c in "k"], j_str("v")]]}
    raise ValueError(kind)


def j_kind(j: Any) -> str:
    if j is None:
        return "null"
    for key, kind in (("b", "bool"), ("i", "int"), ("d", "float"), ("s", "str"), ("A", "arr"), ("O", "obj")):
        if key in j:
            return kind
    raise ValueError(j)


def j_paths(j: Any, path: Tuple[Any, ...] = ()) -> List[Tuple[Any, ...]]:
    """All positions (object member index / array index) of a typed document."""
    out = [path]
    if isinstance(j, dict) and "A" in j:
        for i, x in enumerate(j["A"]):
            out += j_paths(x, path + (i,))
    if isinstance(j, dict) and "O" in j:
        for i, (_k, x) in enumerate(j["O"]):
            out += j_paths(x, path + (i,))
    return out


def j_get(j: Any, path: Tuple[Any, ...]) -> Any:
    for i in path:
        j = j["A"][i] if "A" in j else j["O"][i][1]
    return j


def j_set(j: Any, path: Tuple[Any, ...], new: Any) -> Any:
    if not path:
        return new
    j = copy.copy(j)
    i = path[0]
    if "A" in j:
        items = list(j["A"])
        items[i] = j_set(items[i], path[1:], new)
        j["A"] = items
    else:
        members = [list(m) for m in j["O"]]
        members[i][1] = j_set(members[i][1], path[1:], new)
        j["O"] = members
    return j


BAD_B64 = ["A", "AP8", "AP", "=", "AP8=A", "é", "€€€€", "A\x00", "====", "AA=A"]
ODD_B64 = ["AP8=\n", " AP8=", "AP8=AP8=", "A P 8 =", "AP8=====", "!AP8=", "", "AA==", "AAA="]

MUTATIONS = ["wrong_type", "missing_property", "extra_property", "wrong_model_type", "missing_model_type",
             "non_str_model_type", "bad_base64", "odd_base64", "bad_enum", "null_value", "rename_key",
             "bool_for_int", "int_for_float", "nest_deeper", "array_for_object", "duplicate_into_list"]


def mutate_json(rng, doc: Any, kind: str) -> Optional[Any]:
    """One typed mutation of a typed document; None if not applicable."""
    paths = j_paths(doc)
    objs = [p for p in paths if j_kind(j_get(doc, p)) == "obj"]
    strs = [p for p in paths if j_kind(j_get(doc, p)) == "str" and p]
    if kind == "wrong_type":
        p = rng.choice(paths)
        cur = j_kind(j_get(doc, p))
        other = rng.choice([k for k in J_KINDS if k != cur])
        return j_set(doc, p, j_sample(rng, other))
    if kind == "null_value":
        cands = [p for p in paths if p]
        return j_set(doc, rng.choice(cands), None) if cands else None
    if kind in ("missing_property", "rename_key", "extra_property", "wrong_model_type",
                "missing_model_type", "non_str_model_type"):
        p = rng.choice(objs)
        o = j_get(doc, p)
        members = [list(m) for m in o["O"]]
        mt = [i for i, m in enumerate(members) if m[0] == [ord(c) for c in "modelType"]]
        if kind == "missing_property":
            cands = [i for i in range(len(members)) if i not in mt]
            if not cands:
                return None
            del members[rng.choice(cands)]
        elif kind == "rename_key":
            cands = [i for i in range(len(members)) if i not in mt]
            if not cands:
                return None
            i = rng.choice(cands)
            key = "".join(chr(c) for c in members[i][0])
            members[i][0] = [ord(c) for c in rng.choice([key.upper(), key + "_", key[:-1] or "q", "model_type"])]
        elif kind == "extra_property":
            key = rng.choice(["extra", "", "ModelType", "modeltype", "__class__", "é"])
            members.insert(rng.randint(0, len(members)), [[ord(c) for c in key], j_sample(rng, rng.choice(J_KINDS))])
        elif kind == "wrong_model_type":
            if not mt:
                members.append([[ord(c) for c in "modelType"], j_str(rng.choice(["Nope", "", "leafText"]))])
            else:
                cur = "".join(chr(c) for c in members[mt[0]][1]["s"]) if members[mt[0]][1] and "s" in members[mt[0]][1] else ""
                members[mt[0]][1] = j_str(rng.choice(["Nope", "", cur.lower(), cur + " ", "AbstractItem", "LeafText", "LeafBlob"]))
        elif kind == "missing_model_type":
            if not mt:
                return None
            del members[mt[0]]
        else:
            if not mt:
                return None
            members[mt[0]][1] = j_sample(rng, rng.choice(["null", "bool", "int", "float", "arr", "obj"]))
        return j_set(doc, p, {"O": members})
    if kind in ("bad_base64", "odd_base64", "bad_enum"):
        if not strs:
            return None
        p = rng.choice(strs)
        pool = BAD_B64 if kind == "bad_base64" else ODD_B64 if kind == "odd_base64" else ["", "nope", "instance", "Instance ", "MIN"]
        return j_set(doc, p, j_str(rng.choice(pool)))
    if kind == "bool_for_int":
        ints = [p for p in paths if j_kind(j_get(doc, p)) == "int"]
        return j_set(doc, rng.choice(ints), {"b": rng.random() < 0.5}) if ints else None
    if kind == "int_for_float":
        fl = [p for p in paths if j_kind(j_get(doc, p)) == "float"]
        return j_set(doc, rng.choice(fl), {"i": "3"}) if fl else None
    if kind == "nest_deeper":
        p = rng.choice(paths)
        cur = j_get(doc, p)
        for _ in range(rng.choice([1, 2, 50])):
            cur = {"A": [cur]}
        return j_set(doc, p, cur)
    if kind == "array_for_object":
        p = rng.choice(objs)
        return j_set(doc, p, {"A": [x for _k, x in j_get(doc, p)["O"]]})
    if kind == "duplicate_into_list":
        arrs = [p for p in paths if j_kind(j_get(doc, p)) == "arr"]
        if not arrs:
            return None
        p = rng.choice(arrs)
        items = list(j_get(doc, p)["A"])
        items.insert(rng.randint(0, len(items)), j_sample(rng, rng.choice(J_KINDS)))
        return j_set(doc, p, {"A": items})
    raise ValueError(kind)


# =====================================================================================
# XML documents: text-level mutations
# =====================================================================================

XML_MUTATIONS = ["truncate", "drop_close", "swap_tag", "add_attribute", "add_text", "bad_entity",
                 "wrong_namespace", "no_namespace", "unknown_element", "drop_element", "bad_value",
                 "duplicate_root", "empty", "tail_text", "comment_pi"]


def mutate_xml(rng, text: str, kind: str) -> Optional[str]:
    import re as _re
    tags = list(_re.finditer(r"<([A-Za-z][A-Za-z0-9]*)( xmlns=\"[^\"]*\")?>", text))
    closes = list(_re.finditer(r"</([A-Za-z][A-Za-z0-9]*)>", text))
    if kind == "truncate":
        return text[: rng.randint(0, max(0, len(text) - 1))]
    if kind == "empty":
        return rng.choice(["", " ", "\n", "<?xml version='1.0'?>"])
    if kind == "drop_close":
        if not closes:
            return None
        m = rng.choice(closes)
        return text[: m.start()] + text[m.end():]
    if kind == "swap_tag":
        if not tags:
            return None
        m = rng.choice(tags)
        new = rng.choice(["bogus", m.group(1).upper(), m.group(1) + "x"])
        out = text[: m.start(1)] + new + text[m.end(1):]
        return out if rng.random() < 0.5 else out.replace(f"</{m.group(1)}>", f"</{new}>", 1)
    if kind == "add_attribute":
        if not tags:
            return None
        m = rng.choice(tags)
        return text[: m.end() - 1] + ' attr="1"' + text[m.end() - 1:]
    if kind == "add_text":
        if not tags:
            return None
        m = rng.choice(tags)
        return text[: m.end()] + rng.choice(["junk", " x ", "&amp;"]) + text[m.end():]
    if kind == "tail_text":
        if not closes:
            return None
        m = rng.choice(closes)
        return text[: m.end()] + rng.choice(["junk", "0"]) + text[m.end():]
    if kind == "bad_entity":
        if not tags:
            return None
        m = rng.choice(tags)
        return text[: m.end()] + rng.choice(["&bogus;", "&", "&#xD800;", "&#0;", "<"]) + text[m.end():]
    if kind == "wrong_namespace":
        return text.replace('xmlns="', 'xmlns="urn:other:', 1)
    if kind == "no_namespace":
        return _re.sub(r' xmlns="[^"]*"', "", text, count=1)
    if kind == "unknown_element":
        if not closes:
            return None
        m = rng.choice(closes)
        return text[: m.start()] + "<unknownThing>1</unknownThing>" + text[m.start():]
    if kind == "drop_element":
        leaves = list(_re.finditer(r"<([A-Za-z][A-Za-z0-9]*)>[^<]*</\1>", text))
        if not leaves:
            return None
        m = rng.choice(leaves)
        return text[: m.start()] + text[m.end():]
    if kind == "bad_value":
        leaves = list(_re.finditer(r"<([A-Za-z][A-Za-z0-9]*)>([^<]*)</\1>", text))
        if not leaves:
            return None
        m = rng.choice(leaves)
        new = rng.choice(["", "maybe", "1.2.3", "0x10", "A", "é", "  ", "TRUE", "1e", "--1", "nan", "٣"])
        return text[: m.start(2)] + new + text[m.end(2):]
    if kind == "duplicate_root":
        return text + text
    if kind == "comment_pi":
        if not tags:
            return None
        m = rng.choice(tags)
        return text[: m.end()] + rng.choice(["<!-- c -->", "<?pi x?>", "<![CDATA[x]]>"]) + text[m.end():]
    raise ValueError(kind)


def xml_representable(s: str) -> bool:
    """XML 1.0 Char production."""
    for ch in s:
        o = ord(ch)
        if not (o in (0x9, 0xA, 0xD) or 0x20 <= o <= 0xD7FF or 0xE000 <= o <= 0xFFFD or 0x10000 <= o <= 0x10FFFF):
            return False
    return True


def inst_strings(inst: Any) -> List[str]:
    out: List[str] = []
    if isinstance(inst, dict):
        if "s" in inst:
            out.append(dec_str(inst))
        for key in ("f", "L"):
            if key in inst:
                for x in inst[key]:
                    out += inst_strings(x)
    return out


# =====================================================================================
# "Missing key" documents: every property of every object at every depth
# =====================================================================================


def json_drops(lite: Dict[str, Any], tree: Dict[str, Any], doc: Any) -> List[Tuple[Any, bool, str]]:
    """Documents obtained from ``doc`` (the typed jsonable of the instance ``tree``) by
    removing exactly one member of one object: (document, property is required, "Cls.prop")."""
    out: List[Tuple[Any, bool, str]] = []

    def walk(t: Dict[str, Any], d: Any, path: Tuple[Any, ...]) -> None:
        if not (isinstance(d, dict) and "O" in d):
            return
        c = find_cls(lite, t["c"])
        by_json = {p["json"]: (i, p) for i, p in enumerate(c["props"])}
        for mi, (key, val) in enumerate(d["O"]):
            k = "".join(chr(x) for x in key)
            if k not in by_json:
                continue
            i, p = by_json[k]
            members = [m for j, m in enumerate(d["O"]) if j != mi]
            out.append((j_set(doc, path, {"O": members}), not p["optional"], f"{c['name']}.{p['name']}"))
            f = t["f"][i]
            if isinstance(f, dict) and "o" in f:
                walk(f, val, path + (mi,))
            elif isinstance(f, dict) and "L" in f and isinstance(val, dict) and "A" in val:
                for li, (x, xv) in enumerate(zip(f["L"], val["A"])):
                    if isinstance(x, dict) and "o" in x:
                        walk(x, xv, path + (mi, li))

    walk(tree, doc, ())
    return out


def xml_drops(lite: Dict[str, Any], tree: Dict[str, Any], text: str) -> List[Tuple[str, bool, str]]:
    """XML documents obtained from the SDK's own output by removing exactly one property
    element at any depth: (text, property is required, "Cls.prop"). Returns [] when the
    document does not have the expected shape (the round-trip oracle reports that)."""
    import copy as _copy
    import xml.etree.ElementTree as ET

    def local(tag: str) -> str:
        return tag.rsplit("}", 1)[-1]

    try:
        root = ET.fromstring(text)
    except ET.ParseError:
        return []
    ns = root.tag[1:].split("}")[0] if root.tag.startswith("{") else ""
    if ns:
        ET.register_namespace("", ns)
    found: List[Tuple[Tuple[int, ...], bool, str]] = []

    def walk(parent: Any, t: Dict[str, Any], path: Tuple[int, ...]) -> None:
        c = find_cls(lite, t["c"])
        by_xml = {p["xml"]: (i, p) for i, p in enumerate(c["props"])}
        for ci, child in enumerate(list(parent)):
            name = local(child.tag)
            if name not in by_xml:
                raise ValueError("unexpected shape")
            i, p = by_xml[name]
            found.append((path + (ci,), not p["optional"], f"{c['name']}.{p['name']}"))
            f = t["f"][i]
            if isinstance(f, dict) and "o" in f:
                runtime = find_cls(lite, f["c"])
                static = find_cls(lite, p["type"]["n"])
                if static["concrete_descendants"]:
                    if len(child) != 1 or local(child[0].tag) != runtime["xml"]:
                        raise ValueError("unexpected shape")
                    walk(child[0], f, path + (ci, 0))
                else:
                    walk(child, f, path + (ci,))
            elif isinstance(f, dict) and "L" in f:
                for li, (x, item) in enumerate(zip(f["L"], list(child))):
                    if isinstance(x, dict) and "o" in x:
                        if local(item.tag) != find_cls(lite, x["c"])["xml"]:
                            raise ValueError("unexpected shape")
                        walk(item, x, path + (ci, li))

    try:
        walk(root, tree, ())
    except (ValueError, KeyError, IndexError):
        return []
    out = []
    for path, required, label in found:
        r2 = _copy.deepcopy(root)
        parent = r2
        for i in path[:-1]:
            parent = parent[i]
        parent.remove(parent[path[-1]])
        out.append((ET.tostring(r2, encoding="unicode"), required, label))
    return out
