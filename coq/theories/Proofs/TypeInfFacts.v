(** Soundness of the None-narrowing of [Model/TypeInf.v] w.r.t. [Model/PyEval.v]. *)
From Coq Require Import List NArith ZArith Bool Lia.
From Coq Require Strings.String.
Import Coq.Strings.String.StringSyntax.
From Acg Require Import Base.Str Model.Tree Model.PyEval Model.TypeInf Proofs.TypeInfInd.
Import ListNotations.
Open Scope Z_scope.

(** ** Generic facts *)

Lemma text_eqb_refl : forall a, text_eqb a a = true.
Proof. induction a as [|x a IH]; cbn; [reflexivity|]. rewrite N.eqb_refl. exact IH. Qed.

Lemma text_eqb_eq : forall a b, text_eqb a b = true -> a = b.
Proof.
  induction a as [|x a IH]; destruct b as [|y b]; cbn; intros H; try discriminate; auto.
  apply andb_true_iff in H. destruct H as [H1 H2]. apply N.eqb_eq in H1. subst.
  f_equal. auto.
Qed.

Lemma mem_text_In : forall x l, mem_text x l = true -> In x l.
Proof.
  induction l as [|y l IH]; cbn; intros H; [discriminate|].
  apply orb_true_iff in H. destruct H as [H|H]; [left; symmetry; apply text_eqb_eq; auto|auto].
Qed.

(** ** Conformance of values to types.

    [TPrim PBool] is deliberately weak: the inference does not require the operands of
    [and]/[or]/implication to be booleans, so a "bool"-typed expression may yield any value
    — but never [None]. Everything else is strict. *)

Section Sound.
  Variable S : symtab.

  Inductive conf : ty -> value -> Prop :=
  | cf_bool v : v <> VNone -> conf (TPrim PBool) v
  | cf_int z : conf (TPrim PInt) (VInt z)
  | cf_length z : conf (TPrim PLength) (VInt z)
  | cf_float q : conf (TPrim PFloat) (VFloat q)
  | cf_str s : conf (TPrim PStr) (VStr s)
  | cf_bytes b : conf (TPrim PBytes) (VBytes b)
  | cf_cons n p v : conf (TPrim p) v -> conf (TCons n p) v
  | cf_class c cd oid cls cd' fs :
      find_class S c = Some cd ->
      (cls = c \/ In cls (c_desc cd)) ->
      find_class S cls = Some cd' ->
      (forall p t, lookup p (c_props cd') = Some t ->
                   exists v, lookup p fs = Some v /\ conf t v) ->
      (forall p, lookup p (c_props cd') = None -> lookup p fs = None) ->
      conf (TClass c) (VObj oid cls fs)
  | cf_enum e l : conf (TEnum e) (VEnum e l)
  | cf_list t vs : Forall (conf t) vs -> conf (TList t) (VList vs)
  | cf_set t vs : Forall (conf t) vs -> conf (TSet t) (VSet vs)
  | cf_none t : conf (TOpt t) VNone
  | cf_some t v : conf t v -> conf (TOpt t) v
  | cf_verif f : conf (TVerif f) (VFun f)
  | cf_len : conf TLen (VFun (s2l "len"))
  | cf_enumtype e : conf (TEnumType e) (VType e).

  (** Well-formedness of the symbol table: descendants keep the properties and methods of
      their ancestors; a method never has the name of a property; no verification function
      is called [len]. *)
  Definition symtab_ok : Prop :=
    (forall c cd cls cd', find_class S c = Some cd -> In cls (c_desc cd) ->
                          find_class S cls = Some cd' ->
                          (forall p t, lookup p (c_props cd) = Some t ->
                                       lookup p (c_props cd') = Some t)
                          /\ (forall m sg, lookup m (c_methods cd) = Some sg ->
                                           lookup m (c_methods cd') = Some sg))
    /\ (forall c cd m sg, find_class S c = Some cd -> lookup m (c_methods cd) = Some sg ->
                          lookup m (c_props cd) = None)
    /\ lookup (s2l "len") (verifs S) = None.

  Lemma conf_nonopt : forall t v, conf t v -> is_opt t = false -> v <> VNone.
  Proof.
    induction 1; cbn; intros Ho; try discriminate; auto.
  Qed.

  (** [None] is passed only where the parameter is Optional. *)
  Fixpoint args_nn (ps : list ty) (vs : list value) : Prop :=
    match ps, vs with
    | p :: ps', v :: vs' => (v = VNone -> is_opt p = true) /\ args_nn ps' vs'
    | _, _ => True
    end.

  Definition res_ok (t : ty) (r : pyresult) : Prop :=
    match r with Val v => conf t v | Raise x => x <> NoneDeref end.

  (** The oracles: a verification function / method that receives [None] only for Optional
      parameters answers with a value of its declared type, or raises something that is not
      a None-dereference. *)
  Definition fn_ok (r : env) : Prop :=
    forall g sg vs, lookup g (verifs S) = Some sg -> args_nn (s_params sg) vs ->
                    res_ok (s_ret sg) (fn_impl r g vs).

  Definition meth_ok (r : env) : Prop :=
    forall c cd m sg oid cls fs vs,
      find_class S c = Some cd -> lookup m (c_methods cd) = Some sg ->
      conf (TClass c) (VObj oid cls fs) -> args_nn (s_params sg) vs ->
      res_ok (s_ret sg) (meth_impl r cls fs m vs).

  Definition env_ok (G : tenv) (r : env) : Prop :=
    forall x t, lookup x G = Some t -> exists v, lookup x (vars r) = Some v /\ conf t v.

  (** ** Python operations never report a None-dereference on non-None operands *)

  Definition bool_or_ok (r : pyresult) : Prop :=
    match r with Val (VBool _) => True | Val _ => False | Raise x => x <> NoneDeref end.

  Lemma py_order_nn : forall op a b, a <> VNone -> b <> VNone -> bool_or_ok (py_order op a b).
  Proof.
    intros op a b Ha Hb.
    destruct a; try congruence; destruct b; try congruence; cbn; try exact I; try congruence.
    (* lists *)
    clear Ha Hb. revert vs0. induction vs as [|x l IH]; intros [|y r]; cbn; try exact I.
    destruct (py_eq x y); [apply IH|].
    destruct (py_order op x y) as [[]|[]]; cbn; try exact I; congruence.
  Qed.

  Lemma py_compare_nn : forall op a b, a <> VNone -> b <> VNone -> bool_or_ok (py_compare op a b).
  Proof.
    intros op a b Ha Hb. destruct op; cbn; try exact I; apply py_order_nn; auto.
  Qed.

  Lemma py_in_nn : forall m c, m <> VNone -> c <> VNone -> bool_or_ok (py_in m c).
  Proof.
    intros m c Hm Hc. destruct c; try congruence; cbn; try exact I; try congruence;
      destruct m; try congruence; cbn; try exact I; try congruence.
    destruct ((0 <=? z) && (z <? 256)); cbn; [exact I|congruence].
  Qed.

  (** ** Typable expressions only look at names of the environment *)

  Variable fuel : nat.

  Definition agree (G : tenv) (r r' : env) : Prop :=
    (forall x, lookup x G <> None -> lookup x (vars r) = lookup x (vars r'))
    /\ fn_impl r = fn_impl r' /\ meth_impl r = meth_impl r' /\ enum_lits r = enum_lits r'.

  Definition stable (G : tenv) (e : expr) : Prop :=
    forall r r', agree G r r' -> eval r e fuel = eval r' e fuel.

  Definition typable (G : tenv) (e : expr) : Prop :=
    exists K t, infer false S G K e = Some t.

  Lemma and_typable : forall G vs K t,
    infer false S G K (And vs) = Some t -> Forall (typable G) vs.
  Proof.
    intros G vs. induction vs as [|v rest IH]; intros K t H; [constructor|].
    cbn in H. destruct (infer false S G K v) as [tv|] eqn:Hv; [|discriminate].
    destruct (is_opt tv); [discriminate|]. cbn in H.
    constructor; [exists K, tv; exact Hv|]. eapply IH. exact H.
  Qed.

  Lemma or_typable : forall G vs K t,
    infer false S G K (Or vs) = Some t -> Forall (typable G) vs.
  Proof.
    intros G vs. induction vs as [|v rest IH]; intros K t H; [constructor|].
    cbn in H. destruct (infer false S G K v) as [tv|] eqn:Hv; [|discriminate].
    destruct (is_opt tv); [discriminate|]. cbn in H.
    constructor; [exists K, tv; exact Hv|]. eapply IH. exact H.
  Qed.

  (** The argument loop of [infer], as a relation. *)
  Fixpoint infer_args (G : tenv) (K : list text) (args : list expr) : option (list ty) :=
    match args with
    | [] => Some []
    | a :: rest =>
        match infer false S G K a, infer_args G K rest with
        | Some t, Some ts => Some (t :: ts)
        | _, _ => None
        end
    end.

  Lemma infer_args_typable : forall G K args ts,
    infer_args G K args = Some ts -> Forall (typable G) args.
  Proof.
    intros G K args. induction args as [|a rest IH]; intros ts H; [constructor|].
    cbn in H. destruct (infer false S G K a) as [t|] eqn:Ha; [|discriminate].
    destruct (infer_args G K rest) as [ts'|] eqn:Hr; [|discriminate].
    constructor; [exists K, t; exact Ha|]. eapply IH; reflexivity.
  Qed.

  Lemma joined_typable : forall G K ps t,
    infer false S G K (JoinedStr ps) = Some t ->
    Forall (fun p => match p with JLit _ => True | JFmt a => typable G a end) ps.
  Proof.
    intros G K ps. induction ps as [|p rest IH]; intros t H; [constructor|].
    cbn in H. destruct p as [s|a].
    - constructor; [exact I|]. eapply IH. exact H.
    - destruct (infer false S G K a) as [ta|] eqn:Ha; [|discriminate].
      destruct (is_opt ta); [discriminate|].
      constructor; [exists K, ta; exact Ha|]. eapply IH. exact H.
  Qed.

  Lemma map_eval_ext : forall G r r' vs,
    Forall (fun e => forall G0, typable G0 e -> stable G0 e) vs ->
    Forall (typable G) vs -> agree G r r' ->
    map (fun v => eval r v fuel) vs = map (fun v => eval r' v fuel) vs.
  Proof.
    intros G r r' vs HP HT Hag. induction vs as [|v rest IH]; [reflexivity|].
    inversion HP; subst. inversion HT; subst. cbn. f_equal; [|apply IH; auto].
    match goal with H : forall G0, typable G0 v -> stable G0 v |- _ => apply (H G); auto end.
  Qed.

  Lemma agree_bind : forall G r r' x tv it,
    agree G r r' -> agree ((x, tv) :: G) (bind_var x it r) (bind_var x it r').
  Proof.
    intros G r r' x tv it (Hv & Hf & Hm & Hl). repeat split; cbn; auto.
    intros y Hy. destruct (text_eqb y x) eqn:E; [reflexivity|]. apply Hv. exact Hy.
  Qed.

  Lemma map_eval_bind_ext : forall G r r' x tv c items,
    stable ((x, tv) :: G) c -> agree G r r' ->
    map (fun it => eval (bind_var x it r) c fuel) items
    = map (fun it => eval (bind_var x it r') c fuel) items.
  Proof.
    intros G r r' x tv c items Hs Hag. apply map_ext. intros it. apply Hs.
    apply agree_bind. exact Hag.
  Qed.

  Ltac fold_infer_args0 G K H :=
    match type of H with
    | context [?F ?args] =>
        let EF := fresh "EF" in
        assert (EF : forall l, F l = infer_args G K l)
          by (let l := fresh "l" in let a := fresh "a" in let IHl := fresh "IHl" in
              induction l as [|a l IHl]; cbn; [reflexivity|rewrite IHl; reflexivity]);
        rewrite EF in H; clear EF
    end.

  Definition Pst (e : expr) : Prop := forall G, typable G e -> stable G e.

  Lemma Pst_use : forall e G K t r r',
    Pst e -> infer false S G K e = Some t -> agree G r r' -> eval r e fuel = eval r' e fuel.
  Proof. intros e G K t r r' H Hi Hag. apply (H G); [exists K, t; exact Hi|exact Hag]. Qed.

  Lemma infer_stable : forall e, Pst e.
  Proof.
    induction e using expr_ind'; intros G (K & t & Hi) r r' Hag;
      pose proof Hag as (Hv & Hfn & Hme & Hli); cbn in Hi.
    - (* Member *)
      destruct (infer false S G K e) as [ti|] eqn:Hti; [|discriminate].
      cbn. rewrite (Pst_use _ _ _ _ _ _ IHe Hti Hag). rewrite Hli. reflexivity.
    - (* Name *)
      cbn. destruct (lookup x G) eqn:Hl; [|discriminate]. rewrite (Hv x); [reflexivity|congruence].
    - reflexivity.
    - (* Index *)
      destruct (infer false S G K e1) as [t1|] eqn:H1; [|discriminate].
      destruct t1; try discriminate.
      destruct (infer false S G K e2) as [t2|] eqn:H2; [|discriminate].
      cbn. rewrite (Pst_use _ _ _ _ _ _ IHe1 H1 Hag), (Pst_use _ _ _ _ _ _ IHe2 H2 Hag).
      reflexivity.
    - (* Comparison *)
      destruct (infer false S G K e1) as [t1|] eqn:H1; [|discriminate].
      destruct (infer false S G K e2) as [t2|] eqn:H2; [|discriminate].
      cbn. rewrite (Pst_use _ _ _ _ _ _ IHe1 H1 Hag), (Pst_use _ _ _ _ _ _ IHe2 H2 Hag).
      reflexivity.
    - (* IsIn *)
      destruct (infer false S G K e1) as [t1|] eqn:H1; [|discriminate].
      destruct (infer false S G K e2) as [t2|] eqn:H2; [|discriminate].
      cbn. rewrite (Pst_use _ _ _ _ _ _ IHe1 H1 Hag), (Pst_use _ _ _ _ _ _ IHe2 H2 Hag).
      reflexivity.
    - destruct (infer false S G K e) as [t1|] eqn:H1; [|discriminate].
      cbn. rewrite (Pst_use _ _ _ _ _ _ IHe H1 Hag). reflexivity.
    - destruct (infer false S G K e) as [t1|] eqn:H1; [|discriminate].
      cbn. rewrite (Pst_use _ _ _ _ _ _ IHe H1 Hag). reflexivity.
    - destruct (infer false S G K e) as [t1|] eqn:H1; [|discriminate].
      cbn. rewrite (Pst_use _ _ _ _ _ _ IHe H1 Hag). reflexivity.
    - (* And *)
      cbn. erewrite map_eval_ext; eauto. eapply and_typable. exact Hi.
    - (* Or *)
      cbn. erewrite map_eval_ext; eauto. eapply or_typable. exact Hi.
    - (* Implication *)
      destruct (infer false S G K e1) as [t1|] eqn:H1; [|discriminate].
      destruct (is_opt t1); [discriminate|].
      destruct (infer false S G (antecedent_keys e1 ++ K) e2) as [t2|] eqn:H2; [|discriminate].
      cbn. rewrite (Pst_use _ _ _ _ _ _ IHe1 H1 Hag), (Pst_use _ _ _ _ _ _ IHe2 H2 Hag).
      reflexivity.
    - (* FunctionCall *)
      destruct (lookup f G) as [tf0|] eqn:Hl; [|discriminate].
      fold_infer_args0 G K Hi.
      assert (Hargs : exists ts, infer_args G K args = Some ts).
      { destruct (strip K (Name f) tf0); try discriminate;
          destruct (infer_args G K args); try discriminate; eauto. }
      destruct Hargs as [ts Hargs].
      cbn. rewrite (Hv f) by congruence.
      erewrite map_eval_ext; eauto; [|eapply infer_args_typable; eauto].
      rewrite Hfn. reflexivity.
    - (* MethodCall *)
      fold_infer_args0 G K Hi.
      destruct (infer_args G K args) as [ts|] eqn:Hargs; [|discriminate].
      destruct (infer false S G K e) as [t1|] eqn:H1; [|discriminate].
      cbn. rewrite (Pst_use _ _ _ _ _ _ IHe H1 Hag).
      erewrite map_eval_ext; eauto; [|eapply infer_args_typable; eauto].
      rewrite Hme. reflexivity.
    - (* Add *)
      destruct (infer false S G K e1) as [t1|] eqn:H1; [|discriminate].
      destruct t1; try discriminate.
      destruct (infer false S G K e2) as [t2|] eqn:H2; [|discriminate].
      cbn. rewrite (Pst_use _ _ _ _ _ _ IHe1 H1 Hag), (Pst_use _ _ _ _ _ _ IHe2 H2 Hag).
      reflexivity.
    - (* Sub *)
      destruct (infer false S G K e1) as [t1|] eqn:H1; [|discriminate].
      destruct t1; try discriminate.
      destruct (infer false S G K e2) as [t2|] eqn:H2; [|discriminate].
      cbn. rewrite (Pst_use _ _ _ _ _ _ IHe1 H1 Hag), (Pst_use _ _ _ _ _ _ IHe2 H2 Hag).
      reflexivity.
    - (* Any *)
      destruct (lookup x G) eqn:Hx; [discriminate|].
      destruct g as [i|a b]; cbn in H.
      + destruct (infer false S G K i) as [ti|] eqn:Hti; [|discriminate].
        destruct ti; try discriminate.
        destruct (infer false S ((x, ti) :: G) K e) as [tc|] eqn:Htc; [|discriminate].
        cbn -[gen_items]. rewrite (Pst_use _ _ _ _ _ _ H Hti Hag).
        destruct (gen_items fuel (ForEach (eval r' i fuel))); [|reflexivity].
        erewrite map_eval_bind_ext; eauto. apply IHe. exists K, tc. exact Htc.
      + destruct H as [Ha Hb].
        destruct (infer false S G K a) as [ta|] eqn:Hta; [|discriminate].
        destruct (infer false S G K b) as [tb|] eqn:Htb; [|discriminate].
        destruct (is_intlike ta && is_intlike tb); [|discriminate].
        match type of Hi with
        | match infer false S ((x, ?tv0) :: G) K e with _ => _ end = _ => set (tv := tv0) in *
        end.
        destruct (infer false S ((x, tv) :: G) K e) as [tc|] eqn:Htc; [|discriminate].
        cbn -[gen_items]. rewrite (Pst_use _ _ _ _ _ _ Ha Hta Hag), (Pst_use _ _ _ _ _ _ Hb Htb Hag).
        destruct (gen_items fuel (ForRange (eval r' a fuel) (eval r' b fuel))); [|reflexivity].
        erewrite map_eval_bind_ext; eauto. apply IHe. exists K, tc. exact Htc.
    - (* All *)
      destruct (lookup x G) eqn:Hx; [discriminate|].
      destruct g as [i|a b]; cbn in H.
      + destruct (infer false S G K i) as [ti|] eqn:Hti; [|discriminate].
        destruct ti; try discriminate.
        destruct (infer false S ((x, ti) :: G) K e) as [tc|] eqn:Htc; [|discriminate].
        cbn -[gen_items]. rewrite (Pst_use _ _ _ _ _ _ H Hti Hag).
        destruct (gen_items fuel (ForEach (eval r' i fuel))); [|reflexivity].
        erewrite map_eval_bind_ext; eauto. apply IHe. exists K, tc. exact Htc.
      + destruct H as [Ha Hb].
        destruct (infer false S G K a) as [ta|] eqn:Hta; [|discriminate].
        destruct (infer false S G K b) as [tb|] eqn:Htb; [|discriminate].
        destruct (is_intlike ta && is_intlike tb); [|discriminate].
        match type of Hi with
        | match infer false S ((x, ?tv0) :: G) K e with _ => _ end = _ => set (tv := tv0) in *
        end.
        destruct (infer false S ((x, tv) :: G) K e) as [tc|] eqn:Htc; [|discriminate].
        cbn -[gen_items]. rewrite (Pst_use _ _ _ _ _ _ Ha Hta Hag), (Pst_use _ _ _ _ _ _ Hb Htb Hag).
        destruct (gen_items fuel (ForRange (eval r' a fuel) (eval r' b fuel))); [|reflexivity].
        erewrite map_eval_bind_ext; eauto. apply IHe. exists K, tc. exact Htc.
    - (* JoinedStr *)
      cbn. f_equal. pose proof (joined_typable _ _ _ _ Hi) as Hty.
      induction ps as [|p rest IHr]; [reflexivity|].
      inversion H as [|? ? Pp Prest]; subst. inversion Hty; subst. cbn.
      f_equal.
      + destruct p as [s|a]; [reflexivity|]. cbn in Pp. apply (Pp G); auto.
      + apply IHr; auto.
        cbn in Hi. destruct p as [s|a]; [exact Hi|].
        destruct (infer false S G K a); [|discriminate]. destruct (is_opt t0); [discriminate|].
        exact Hi.
  Qed.

  (** ** The invariant of the non-null keys *)

  Variable root : expr.

  (** [tested a]: [a] is the operand of a None-test of the invariant — the only expressions
      whose canonical representation ever becomes a non-null key. *)
  Definition tested (a : expr) : Prop :=
    In (IsNone a) (subs root) \/ In (IsNotNone a) (subs root).

  Definition keys_inj : Prop :=
    forall a b, tested a -> In b (subs root) -> canon a = canon b -> a = b.

  Hypothesis Hinj : keys_inj.
  Hypothesis HS : symtab_ok.

  Definition KI (G : tenv) (K : list text) (r : env) : Prop :=
    forall k, In k K ->
      exists e0, canon e0 = k /\ tested e0 /\ stable G e0
                 /\ eval r e0 fuel <> Val VNone.

  Definition P (e : expr) : Prop :=
    forall G K r t,
      incl (subs e) (subs root) -> infer false S G K e = Some t ->
      env_ok G r -> fn_ok r -> meth_ok r -> KI G K r ->
      res_ok t (eval r e fuel).

  Lemma subs_self : forall e, In e (subs e).
  Proof. destruct e; cbn; auto. Qed.

  Lemma strip_conf : forall G K r e t0 v,
    In e (subs root) -> KI G K r -> eval r e fuel = Val v -> conf t0 v ->
    conf (strip K e t0) v.
  Proof.
    intros G K r e t0 v Hin HK Hev Hc. destruct t0; cbn; auto.
    destruct (mem_text (canon e) K) eqn:Hm; auto.
    apply mem_text_In in Hm. destruct (HK _ Hm) as (e0 & Hc0 & Hin0 & _ & Hnn).
    assert (e0 = e) by (apply Hinj; auto). subst e0.
    inversion Hc; subst; auto. congruence.
  Qed.

  Lemma KI_app : forall G K1 K2 r, KI G K1 r -> KI G K2 r -> KI G (K1 ++ K2) r.
  Proof. intros G K1 K2 r H1 H2 k Hk. apply in_app_or in Hk. destruct Hk; auto. Qed.

  Lemma KI_nil : forall G r, KI G [] r.
  Proof. intros G r k []. Qed.

  Lemma P_Name : forall x, P (Name x).
  Proof.
    intros x G K r t Hincl Hi He _ _ HK. cbn in Hi.
    destruct (lookup x G) as [t0|] eqn:Hl; [|discriminate]. inversion Hi; subst; clear Hi.
    destruct (He _ _ Hl) as (v & Hv & Hc). cbn. rewrite Hv. cbn.
    eapply strip_conf; eauto. apply Hincl. apply subs_self. cbn. rewrite Hv. reflexivity.
  Qed.

  Lemma P_Constant : forall c, P (Constant c).
  Proof.
    intros c G K r t _ Hi _ _ _ _. cbn in Hi. inversion Hi; subst; clear Hi.
    destruct c; cbn; constructor. congruence.
  Qed.

  Ltac sub_incl Hincl :=
    let x := fresh "x" in let Hx := fresh "Hx" in
    intros x Hx; apply Hincl; cbn; rewrite ?in_app_iff; auto.

  Lemma P_Member : forall i n, P i -> P (Member i n).
  Proof.
    intros i n IH G K r t Hincl Hi He Hf Hm HK.
    assert (Hin : In (Member i n) (subs root)) by (apply Hincl; apply subs_self).
    cbn in Hi. destruct (infer false S G K i) as [ti|] eqn:Hti; [|discriminate].
    assert (Hi0 : res_ok ti (eval r i fuel)).
    { eapply IH; eauto. sub_incl Hincl. }
    cbn. destruct (eval r i fuel) as [vi|x] eqn:Hev; [|exact Hi0]. cbn in Hi0.
    destruct ti; try discriminate.
    - (* class *)
      destruct (find_class S c) as [cd|] eqn:Hc; [|discriminate].
      inversion Hi0 as [| | | | | | |c0 cd0 oid cls cd' fs Hfc Hsub Hfc' Hprops Hnoextra| | | | | | | |];
        subst. rewrite Hc in Hfc. inversion Hfc; subst cd0; clear Hfc.
      destruct HS as (Hdesc & Hdisj & _).
      assert (Hinh : (forall p t, lookup p (c_props cd) = Some t -> lookup p (c_props cd') = Some t)
                     /\ (forall m sg, lookup m (c_methods cd) = Some sg ->
                                      lookup m (c_methods cd') = Some sg)).
      { destruct Hsub as [->|Hd].
        - rewrite Hc in Hfc'. inversion Hfc'; subst. split; auto.
        - eapply Hdesc; eauto. }
      destruct Hinh as [Hp Hmeth].
      destruct (lookup n (c_props cd)) as [t0|] eqn:Hn.
      + inversion Hi; subst; clear Hi.
        destruct (Hprops _ _ (Hp _ _ Hn)) as (v & Hv & Hcv). rewrite Hv. cbn.
        eapply strip_conf; eauto. cbn. rewrite Hev. rewrite Hv. reflexivity.
      + destruct (lookup n (c_methods cd)) as [sg|] eqn:Hmn; [|discriminate].
        assert (Hnone : lookup n fs = None).
        { apply Hnoextra. eapply Hdisj; eauto. }
        rewrite Hnone. cbn. congruence.
    - (* enumeration as type *)
      destruct (lookup e (enums S)) as [lits|]; [|discriminate].
      destruct (mem_text n lits); [|discriminate]. inversion Hi; subst; clear Hi.
      inversion Hi0; subst.
      destruct (mem_text n (enum_lits r e)); cbn; [constructor|congruence].
  Qed.

  Lemma nth_z_In : forall A (l : list A) i v, nth_z l i = Some v -> In v l.
  Proof.
    induction l as [|x l IH]; cbn; intros i v H; [discriminate|].
    destruct (i =? 0); [inversion H; auto|right; eauto].
  Qed.

  Lemma py_nth_In : forall A (l : list A) i v, py_nth l i = Some v -> In v l.
  Proof.
    unfold py_nth. intros A l i v H. destruct (i <? 0).
    - destruct (zlen l + i <? 0); [discriminate|eapply nth_z_In; eauto].
    - eapply nth_z_In; eauto.
  Qed.

  Lemma intlike_int : forall t v, is_intlike t = true -> conf t v -> exists z, v = VInt z.
  Proof.
    intros t v Ht Hc. destruct t; try discriminate. destruct p; try discriminate;
      inversion Hc; subst; eauto.
  Qed.

  Lemma P_Index : forall c i, P c -> P i -> P (Index c i).
  Proof.
    intros c i IHc IHi G K r t Hincl Hi He Hf Hm HK. cbn in Hi.
    destruct (infer false S G K c) as [tc|] eqn:Htc; [|discriminate].
    destruct tc; try discriminate.
    destruct (infer false S G K i) as [ti|] eqn:Hti; [|discriminate].
    destruct (is_intlike ti) eqn:Hil; [|discriminate]. inversion Hi; subst; clear Hi.
    assert (Hc0 : res_ok (TList t) (eval r c fuel)) by (eapply IHc; eauto; sub_incl Hincl).
    assert (Hi0 : res_ok ti (eval r i fuel)) by (eapply IHi; eauto; sub_incl Hincl).
    cbn. destruct (eval r c fuel) as [vc|x]; [|exact Hc0].
    destruct (eval r i fuel) as [vi|x]; [|exact Hi0]. cbn in Hc0, Hi0.
    destruct (intlike_int _ _ Hil Hi0) as [z ->]. inversion Hc0; subst. cbn.
    destruct (py_nth vs z) eqn:Hn; cbn; [|congruence].
    apply py_nth_In in Hn. rewrite Forall_forall in H0. auto.
  Qed.

  Lemma bool_or_ok_res : forall r, bool_or_ok r -> res_ok (TPrim PBool) r.
  Proof.
    intros [v|x]; cbn; auto. destruct v; try contradiction. intros _. constructor. congruence.
  Qed.

  Lemma P_Comparison : forall op l r, P l -> P r -> P (Comparison op l r).
  Proof.
    intros op l r0 IHl IHr G K r t Hincl Hi He Hf Hm HK. cbn in Hi.
    destruct (infer false S G K l) as [tl|] eqn:Htl; [|discriminate].
    destruct (infer false S G K r0) as [tr|] eqn:Htr; [|discriminate].
    destruct (is_opt tl) eqn:Hol; [discriminate|]. destruct (is_opt tr) eqn:Hor; [discriminate|].
    cbn in Hi. inversion Hi; subst; clear Hi.
    assert (Hl0 : res_ok tl (eval r l fuel)) by (eapply IHl; eauto; sub_incl Hincl).
    assert (Hr0 : res_ok tr (eval r r0 fuel)) by (eapply IHr; eauto; sub_incl Hincl).
    cbn. destruct (eval r l fuel) as [vl|x]; [|exact Hl0].
    destruct (eval r r0 fuel) as [vr|x]; [|exact Hr0]. cbn in Hl0, Hr0.
    apply bool_or_ok_res. apply py_compare_nn; eapply conf_nonopt; eauto.
  Qed.

  Lemma P_IsIn : forall m c, P m -> P c -> P (IsIn m c).
  Proof.
    intros l r0 IHl IHr G K r t Hincl Hi He Hf Hm HK. cbn in Hi.
    destruct (infer false S G K l) as [tl|] eqn:Htl; [|discriminate].
    destruct (infer false S G K r0) as [tr|] eqn:Htr; [|discriminate].
    destruct (is_opt tl) eqn:Hol; [discriminate|]. destruct (is_opt tr) eqn:Hor; [discriminate|].
    cbn in Hi. inversion Hi; subst; clear Hi.
    assert (Hl0 : res_ok tl (eval r l fuel)) by (eapply IHl; eauto; sub_incl Hincl).
    assert (Hr0 : res_ok tr (eval r r0 fuel)) by (eapply IHr; eauto; sub_incl Hincl).
    cbn. destruct (eval r l fuel) as [vl|x]; [|exact Hl0].
    destruct (eval r r0 fuel) as [vr|x]; [|exact Hr0]. cbn in Hl0, Hr0.
    apply bool_or_ok_res. apply py_in_nn; eapply conf_nonopt; eauto.
  Qed.

  Lemma P_IsNone : forall v, P v -> P (IsNone v).
  Proof.
    intros v IH G K r t Hincl Hi He Hf Hm HK. cbn in Hi.
    destruct (infer false S G K v) as [tv|] eqn:Htv; [|discriminate].
    destruct tv; try discriminate. inversion Hi; subst; clear Hi.
    assert (H0 : res_ok (TOpt tv) (eval r v fuel)) by (eapply IH; eauto; sub_incl Hincl).
    cbn. destruct (eval r v fuel) as [w|x]; [|exact H0]. cbn. constructor. congruence.
  Qed.

  Lemma P_IsNotNone : forall v, P v -> P (IsNotNone v).
  Proof.
    intros v IH G K r t Hincl Hi He Hf Hm HK. cbn in Hi.
    destruct (infer false S G K v) as [tv|] eqn:Htv; [|discriminate].
    destruct tv; try discriminate. inversion Hi; subst; clear Hi.
    assert (H0 : res_ok (TOpt tv) (eval r v fuel)) by (eapply IH; eauto; sub_incl Hincl).
    cbn. destruct (eval r v fuel) as [w|x]; [|exact H0]. cbn. constructor. congruence.
  Qed.

  Lemma P_Not : forall a, P a -> P (Not a).
  Proof.
    intros a IH G K r t Hincl Hi He Hf Hm HK. cbn in Hi.
    destruct (infer false S G K a) as [ta|] eqn:Hta; [|discriminate].
    destruct (is_opt ta); [discriminate|]. inversion Hi; subst; clear Hi.
    assert (H0 : res_ok ta (eval r a fuel)) by (eapply IH; eauto; sub_incl Hincl).
    cbn. destruct (eval r a fuel) as [w|x]; [|exact H0]. cbn. constructor. congruence.
  Qed.

  Lemma arith_ok : forall add p q tr va vb,
    match p, q with
    | PFloat, PFloat => Some (TPrim PFloat)
    | PInt, PInt => Some (TPrim PInt)
    | PLength, PInt | PInt, PLength | PLength, PLength => Some (TPrim PLength)
    | _, _ => None
    end = Some tr ->
    conf (TPrim p) va -> conf (TPrim q) vb -> res_ok tr (py_arith add va vb).
  Proof.
    intros add p q tr va vb H Ha Hb.
    destruct p, q; try discriminate; inversion H; subst; clear H;
      inversion Ha; subst; inversion Hb; subst; cbn; constructor.
  Qed.

  Lemma P_AddSub : forall (add : bool) l r, P l -> P r -> P (if add then Add l r else Sub l r).
  Proof.
    intros add l r0 IHl IHr G K r t Hincl Hi He Hf Hm HK.
    assert (Hi' : match infer false S G K l, infer false S G K r0 with
                  | Some (TPrim p), Some (TPrim q) =>
                      match p, q with
                      | PFloat, PFloat => Some (TPrim PFloat)
                      | PInt, PInt => Some (TPrim PInt)
                      | PLength, PInt | PInt, PLength | PLength, PLength => Some (TPrim PLength)
                      | _, _ => None
                      end
                  | _, _ => None
                  end = Some t) by (destruct add; exact Hi).
    clear Hi.
    assert (Hincl' : incl (subs l ++ subs r0) (subs root)).
    { intros x Hx. apply Hincl. destruct add; cbn; auto. }
    destruct (infer false S G K l) as [tl|] eqn:Htl; [|discriminate].
    destruct tl; try discriminate.
    destruct (infer false S G K r0) as [tr|] eqn:Htr; [|discriminate].
    destruct tr; try discriminate.
    assert (Hl0 : res_ok (TPrim p) (eval r l fuel)).
    { eapply IHl; eauto. intros x Hx. apply Hincl'. apply in_or_app; auto. }
    assert (Hr0 : res_ok (TPrim p0) (eval r r0 fuel)).
    { eapply IHr; eauto. intros x Hx. apply Hincl'. apply in_or_app; auto. }
    assert (G0 : res_ok t match eval r l fuel with
                          | Raise x => Raise x
                          | Val va => match eval r r0 fuel with
                                      | Raise x => Raise x
                                      | Val vb => py_arith add va vb
                                      end
                          end).
    { destruct (eval r l fuel) as [vl|x]; [|exact Hl0].
      destruct (eval r r0 fuel) as [vr|x]; [|exact Hr0]. eapply arith_ok; eauto. }
    destruct add; exact G0.
  Qed.

  Lemma infer_stable_hyp_use : forall G K v t,
    (forall G0, typable G0 v -> stable G0 v) -> infer false S G K v = Some t -> stable G v.
  Proof. intros G K v t H Hi. apply H. exists K, t. exact Hi. Qed.

  Lemma Hstable : forall e G, typable G e -> stable G e.
  Proof. intros e G. apply infer_stable. Qed.

  Lemma KI_not_none : forall G K r v tv,
    In (IsNotNone v) (subs root) -> incl (subs (IsNotNone v)) (subs root) ->
    infer false S G K (IsNotNone v) = Some tv ->
    (exists w, eval r (IsNotNone v) fuel = Val w /\ truthy w = true) ->
    KI G [canon v] r.
  Proof.
    intros G K r v tv Hin Hincl Hi (w & Hev & Htr) k [<-|[]].
    exists v. split; [reflexivity|]. split.
    { right. exact Hin. }
    split.
    { cbn in Hi. destruct (infer false S G K v) as [t0|] eqn:Hv; [|discriminate].
      apply Hstable. exists K, t0. exact Hv. }
    cbn in Hev. destruct (eval r v fuel) as [u|x]; [|discriminate].
    inversion Hev; subst. destruct u; cbn in Htr; congruence.
  Qed.

  Lemma KI_is_none : forall G K r v tv,
    incl (subs (IsNone v)) (subs root) ->
    infer false S G K (IsNone v) = Some tv ->
    (exists w, eval r (IsNone v) fuel = Val w /\ truthy w = false) ->
    KI G [canon v] r.
  Proof.
    intros G K r v tv Hincl Hi (w & Hev & Htr) k [<-|[]].
    exists v. split; [reflexivity|]. split.
    { left. apply Hincl. apply subs_self. }
    split.
    { cbn in Hi. destruct (infer false S G K v) as [t0|] eqn:Hv; [|discriminate].
      apply Hstable. exists K, t0. exact Hv. }
    cbn in Hev. destruct (eval r v fuel) as [u|x]; [|discriminate].
    inversion Hev; subst. destruct u; cbn in Htr; congruence.
  Qed.

  Lemma KI_key_if_not_none : forall G K r v tv w,
    incl (subs v) (subs root) -> infer false S G K v = Some tv ->
    eval r v fuel = Val w -> truthy w = true -> KI G (key_if_not_none v) r.
  Proof.
    intros G K r v tv w Hincl Hi Hev Htr. destruct v; try apply KI_nil.
    eapply KI_not_none; eauto. apply Hincl. apply subs_self.
  Qed.

  Lemma KI_key_if_none : forall G K r v tv w,
    incl (subs v) (subs root) -> infer false S G K v = Some tv ->
    eval r v fuel = Val w -> truthy w = false -> KI G (key_if_none v) r.
  Proof.
    intros G K r v tv w Hincl Hi Hev Htr. destruct v; try apply KI_nil.
    eapply KI_is_none; eauto.
  Qed.

  Lemma and_type : forall G vs K t, infer false S G K (And vs) = Some t -> t = TPrim PBool.
  Proof.
    intros G vs. induction vs as [|a l IHl]; intros K0 t H; cbn in H; [congruence|].
    destruct (infer false S G K0 a); [|discriminate]. destruct (is_opt t0); [discriminate|].
    cbn in H. eapply IHl. exact H.
  Qed.

  Lemma or_type : forall G vs K t, infer false S G K (Or vs) = Some t -> t = TPrim PBool.
  Proof.
    intros G vs. induction vs as [|a l IHl]; intros K0 t H; cbn in H; [congruence|].
    destruct (infer false S G K0 a); [|discriminate]. destruct (is_opt t0); [discriminate|].
    cbn in H. eapply IHl. exact H.
  Qed.

  Lemma P_And : forall vs, Forall P vs -> P (And vs).
  Proof.
    intros vs HP G K r t Hincl Hi He Hf Hm HK.
    assert (Hincl' : forall v, In v vs -> incl (subs v) (subs root)).
    { intros v Hv x Hx. apply Hincl. cbn. right. apply in_flat_map. eauto. }
    clear Hincl. revert K t Hi HK.
    induction vs as [|v rest IH]; intros K t Hi HK; [cbn; congruence|].
    inversion HP as [|? ? Pv Prest]; subst.
    assert (Ht : t = TPrim PBool) by (eapply and_type; eauto). subst t.
    cbn in Hi. destruct (infer false S G K v) as [tv|] eqn:Hv; [|discriminate].
    destruct (is_opt tv) eqn:Hov; [discriminate|]. cbn in Hi.
    change (infer false S G (key_if_not_none v ++ K) (And rest) = Some (TPrim PBool)) in Hi.
    assert (Hv0 : res_ok tv (eval r v fuel)).
    { eapply Pv; eauto. apply Hincl'. left; reflexivity. }
    cbn. destruct (eval r v fuel) as [w|x] eqn:Hev; [|exact Hv0]. cbn in Hv0.
    assert (Hw : w <> VNone) by (eapply conf_nonopt; eauto).
    destruct rest as [|v2 rest'].
    - constructor. exact Hw.
    - destruct (truthy w) eqn:Htr.
      + apply (IH Prest (fun v' Hv' => Hincl' v' (or_intror Hv')) _ _ Hi).
        apply KI_app; auto. eapply KI_key_if_not_none; eauto. apply Hincl'. left; reflexivity.
      + constructor. exact Hw.
  Qed.

  Lemma P_Or : forall vs, Forall P vs -> P (Or vs).
  Proof.
    intros vs HP G K r t Hincl Hi He Hf Hm HK.
    assert (Hincl' : forall v, In v vs -> incl (subs v) (subs root)).
    { intros v Hv x Hx. apply Hincl. cbn. right. apply in_flat_map. eauto. }
    clear Hincl. revert K t Hi HK.
    induction vs as [|v rest IH]; intros K t Hi HK; [cbn; congruence|].
    inversion HP as [|? ? Pv Prest]; subst.
    assert (Ht : t = TPrim PBool) by (eapply or_type; eauto). subst t.
    cbn in Hi. destruct (infer false S G K v) as [tv|] eqn:Hv; [|discriminate].
    destruct (is_opt tv) eqn:Hov; [discriminate|]. cbn in Hi.
    change (infer false S G (key_if_none v ++ K) (Or rest) = Some (TPrim PBool)) in Hi.
    assert (Hv0 : res_ok tv (eval r v fuel)).
    { eapply Pv; eauto. apply Hincl'. left; reflexivity. }
    cbn. destruct (eval r v fuel) as [w|x] eqn:Hev; [|exact Hv0]. cbn in Hv0.
    assert (Hw : w <> VNone) by (eapply conf_nonopt; eauto).
    destruct rest as [|v2 rest'].
    - constructor. exact Hw.
    - destruct (truthy w) eqn:Htr.
      + constructor. exact Hw.
      + apply (IH Prest (fun v' Hv' => Hincl' v' (or_intror Hv')) _ _ Hi).
        apply KI_app; auto. eapply KI_key_if_none; eauto. apply Hincl'. left; reflexivity.
  Qed.

  Lemma and_results_truthy : forall rs v,
    and_results rs = Val v -> truthy v = true ->
    Forall (fun r => exists w, r = Val w /\ truthy w = true) rs.
  Proof.
    induction rs as [|r rest IH]; intros v H Ht; [constructor|].
    cbn in H. destruct r as [w|x]; [|discriminate].
    destruct rest as [|r2 rest'].
    - inversion H; subst. constructor; eauto.
    - destruct (truthy w) eqn:Hw.
      + constructor; eauto.
      + inversion H; subst. congruence.
  Qed.

  Lemma KI_antecedent : forall G K r a ta va,
    incl (subs a) (subs root) -> infer false S G K a = Some ta ->
    eval r a fuel = Val va -> truthy va = true -> KI G (antecedent_keys a) r.
  Proof.
    intros G K r a ta va Hincl Hi Hev Htr. destruct a; try apply KI_nil.
    - eapply KI_not_none; eauto. apply Hincl. apply subs_self.
    - (* And *)
      cbn [antecedent_keys]. intros k Hk. apply in_flat_map in Hk. destruct Hk as (v' & Hv' & Hk).
      cbn in Hev. apply and_results_truthy in Hev; auto.
      rewrite Forall_forall in Hev.
      destruct (Hev (eval r v' fuel)) as (w & Hw & Hwt).
      { apply in_map_iff. eauto. }
      pose proof (and_typable _ _ _ _ Hi) as Hty. rewrite Forall_forall in Hty.
      destruct (Hty _ Hv') as (K' & t' & Hi').
      eapply (KI_key_if_not_none G K' r v' t' w); eauto.
      intros x Hx. apply Hincl. cbn. right. apply in_flat_map. eauto.
  Qed.

  Lemma P_Implication : forall a c, P a -> P c -> P (Implication a c).
  Proof.
    intros a c IHa IHc G K r t Hincl Hi He Hf Hm HK. cbn in Hi.
    destruct (infer false S G K a) as [ta|] eqn:Hta; [|discriminate].
    destruct (is_opt ta) eqn:Hoa; [discriminate|].
    destruct (infer false S G (antecedent_keys a ++ K) c) as [tc|] eqn:Htc; [|discriminate].
    destruct (is_opt tc) eqn:Hoc; [discriminate|]. cbn in Hi. inversion Hi; subst; clear Hi.
    assert (Hia : incl (subs a) (subs root)) by sub_incl Hincl.
    assert (Hic : incl (subs c) (subs root)) by sub_incl Hincl.
    assert (Ha0 : res_ok ta (eval r a fuel)) by (eapply IHa; eauto).
    cbn. destruct (eval r a fuel) as [va|x] eqn:Hev; [|exact Ha0].
    destruct (truthy va) eqn:Htr.
    - assert (Hc0 : res_ok tc (eval r c fuel)).
      { eapply IHc; eauto. apply KI_app; auto. eapply KI_antecedent; eauto. }
      destruct (eval r c fuel) as [vc|x]; [|exact Hc0]. cbn in Hc0. constructor.
      eapply conf_nonopt; eauto.
    - cbn. constructor. congruence.
  Qed.

  Lemma args_sound : forall args, Forall P args ->
    forall G K r ts,
      (forall a, In a args -> incl (subs a) (subs root)) ->
      infer_args G K args = Some ts -> env_ok G r -> fn_ok r -> meth_ok r -> KI G K r ->
      match args_results (map (fun a => eval r a fuel) args) with
      | LVal vs => Forall2 conf ts vs
      | LRaise x => x <> NoneDeref
      end.
  Proof.
    intros args HP G K r. induction args as [|a rest IH]; intros ts Hincl Hi He Hf Hm HK.
    - cbn in *. inversion Hi; subst. constructor.
    - inversion HP as [|? ? Pa Prest]; subst. cbn in Hi.
      destruct (infer false S G K a) as [t|] eqn:Ha; [|discriminate].
      destruct (infer_args G K rest) as [ts'|] eqn:Hr; [|discriminate].
      inversion Hi; subst; clear Hi.
      assert (Ha0 : res_ok t (eval r a fuel)).
      { eapply Pa; eauto. apply Hincl. left; reflexivity. }
      cbn. destruct (eval r a fuel) as [v|x]; [|exact Ha0].
      specialize (IH Prest ts' (fun a' Ha' => Hincl a' (or_intror Ha')) eq_refl He Hf Hm HK).
      destruct (args_results (map (fun a0 => eval r a0 fuel) rest)); [|exact IH].
      constructor; auto.
  Qed.

  Lemma args_nn_of : forall ps ts vs,
    args_none_ok ps ts = true -> Forall2 conf ts vs -> args_nn ps vs.
  Proof.
    induction ps as [|p ps IH]; intros ts vs H H2; [destruct vs; exact I|].
    destruct H2 as [|t v ts' vs' Hc H2']; [exact I|]. cbn in H.
    apply andb_true_iff in H. destruct H as [H1 H3]. cbn. split; [|eapply IH; eauto].
    intros ->. destruct (is_opt t) eqn:Ho; [cbn in H1; exact H1|].
    exfalso. eapply conf_nonopt; eauto.
  Qed.

  Lemma existsb_opt_nn : forall ts vs,
    existsb is_opt ts = false -> Forall2 conf ts vs -> Forall (fun v => v <> VNone) vs.
  Proof.
    intros ts vs H H2. induction H2 as [|t v ts' vs' Hc H2' IH]; [constructor|].
    cbn in H. apply orb_false_iff in H. destruct H as [H1 H3].
    constructor; [eapply conf_nonopt; eauto|auto].
  Qed.

  Lemma py_len_nn : forall vs, Forall (fun v => v <> VNone) vs ->
    res_ok (TPrim PLength) (py_len vs).
  Proof.
    intros vs H. destruct vs as [|v [|v2 rest]]; cbn; try congruence.
    - inversion H; subst. destruct v; cbn; try congruence; constructor.
    - destruct v; cbn; congruence.
  Qed.

  Ltac fold_infer_args G K H :=
    match type of H with
    | context [?F ?args] =>
        let EF := fresh "EF" in
        assert (EF : forall l, F l = infer_args G K l)
          by (let l := fresh "l" in let a := fresh "a" in let IHl := fresh "IHl" in
              induction l as [|a l IHl]; cbn; [reflexivity|rewrite IHl; reflexivity]);
        rewrite EF in H; clear EF
    end.

  Lemma P_FunctionCall : forall f args, Forall P args -> P (FunctionCall f args).
  Proof.
    intros f args HP G K r t Hincl Hi He Hf Hm HK.
    assert (Hin : In (FunctionCall f args) (subs root)) by (apply Hincl; apply subs_self).
    assert (HinN : In (Name f) (subs root)) by (apply Hincl; cbn; auto).
    assert (Hincl' : forall a, In a args -> incl (subs a) (subs root)).
    { intros a Ha x Hx. apply Hincl. cbn. right. right. apply in_flat_map. eauto. }
    cbn in Hi. destruct (lookup f G) as [tf0|] eqn:Hl; [|discriminate].
    fold_infer_args G K Hi.
    destruct (He _ _ Hl) as (fv & Hfv & Hcf).
    assert (Hcf' : conf (strip K (Name f) tf0) fv).
    { eapply strip_conf; eauto. cbn. rewrite Hfv. reflexivity. }
    cbn. rewrite Hfv.
    destruct (strip K (Name f) tf0) eqn:Hst; try discriminate.
    - (* verification function *)
      destruct (infer_args G K args) as [ts|] eqn:Hargs; [|discriminate].
      destruct (lookup f0 (verifs S)) as [sg|] eqn:Hsg; [|discriminate].
      destruct (args_none_ok (s_params sg) ts) eqn:Hnn; [|discriminate]. cbn in Hi.
      inversion Hi; subst; clear Hi. inversion Hcf'; subst.
      pose proof (args_sound args HP G K r ts Hincl' Hargs He Hf Hm HK) as Ha.
      destruct (args_results (map (fun a => eval r a fuel) args)) as [vs|x] eqn:Hev; [|exact Ha].
      destruct (text_eqb f0 (s2l "len")) eqn:Elen.
      { apply text_eqb_eq in Elen. subst f0. destruct HS as (_ & _ & Hno). congruence. }
      pose proof (Hf f0 sg vs Hsg (args_nn_of _ _ _ Hnn Ha)) as Hres.
      assert (Elen' : text_eqb f0 [108%N; 101%N; 110%N] = false) by exact Elen.
      rewrite Elen'.
      destruct (fn_impl r f0 vs) as [v|x] eqn:Hfn; [|exact Hres]. cbn in Hres |- *.
      eapply strip_conf; eauto. cbn. rewrite Hfv, Hev, Elen'. exact Hfn.
    - (* len *)
      destruct (infer_args G K args) as [ts|] eqn:Hargs; [|discriminate].
      destruct (Nat.eqb (length ts) 1); [|discriminate]. cbn in Hi.
      destruct (existsb is_opt ts) eqn:Hex; [discriminate|]. cbn in Hi.
      inversion Hi; subst; clear Hi. inversion Hcf'; subst.
      pose proof (args_sound args HP G K r ts Hincl' Hargs He Hf Hm HK) as Ha.
      destruct (args_results (map (fun a => eval r a fuel) args)) as [vs|x] eqn:Hev; [|exact Ha].
      change (res_ok (TPrim PLength)
                (if text_eqb (s2l "len") (s2l "len") then py_len vs else fn_impl r (s2l "len") vs)).
      rewrite text_eqb_refl. apply py_len_nn. eapply existsb_opt_nn; eauto.
  Qed.

  Lemma P_MethodCall : forall i m args, P i -> Forall P args -> P (MethodCall i m args).
  Proof.
    intros i m args IHi HP G K r t Hincl Hi He Hf Hm HK.
    assert (Hin : In (MethodCall i m args) (subs root)) by (apply Hincl; apply subs_self).
    assert (Hincl' : forall a, In a args -> incl (subs a) (subs root)).
    { intros a Ha x Hx. apply Hincl. cbn. right. apply in_or_app. right.
      apply in_flat_map. eauto. }
    assert (Hincli : incl (subs i) (subs root)) by sub_incl Hincl.
    cbn in Hi. fold_infer_args G K Hi.
    destruct (infer_args G K args) as [ts|] eqn:Hargs; [|discriminate].
    destruct (infer false S G K i) as [ti|] eqn:Hti; [|discriminate].
    destruct ti; try discriminate.
    destruct (find_class S c) as [cd|] eqn:Hc; [|discriminate].
    destruct (lookup m (c_props cd)) eqn:Hmp; [discriminate|].
    destruct (lookup m (c_methods cd)) as [sg|] eqn:Hmm; [|discriminate].
    destruct (args_none_ok (s_params sg) ts) eqn:Hnn; [|discriminate]. cbn in Hi.
    inversion Hi; subst; clear Hi.
    assert (Hi0 : res_ok (TClass c) (eval r i fuel)) by (eapply IHi; eauto).
    cbn. destruct (eval r i fuel) as [vi|x] eqn:Hevi; [|exact Hi0]. cbn in Hi0.
    inversion Hi0 as [| | | | | | |c0 cd0 oid cls cd' fs Hfc Hsub Hfc' Hprops Hnoextra| | | | | | | |];
      subst. rewrite Hc in Hfc. inversion Hfc; subst cd0; clear Hfc.
    pose proof (args_sound args HP G K r ts Hincl' Hargs He Hf Hm HK) as Ha.
    destruct (args_results (map (fun a => eval r a fuel) args)) as [vs|x] eqn:Hev; [|exact Ha].
    destruct HS as (Hdesc & Hdisj & _).
    assert (Hmeth' : lookup m (c_methods cd') = Some sg).
    { destruct Hsub as [->|Hd].
      - rewrite Hc in Hfc'. inversion Hfc'; subst. exact Hmm.
      - destruct (Hdesc _ _ _ _ Hc Hd Hfc') as [_ Hmeths]. auto. }
    assert (Hnone : lookup m fs = None).
    { apply Hnoextra. eapply Hdisj; eauto. }
    rewrite Hnone.
    pose proof (Hm c cd m sg oid cls fs vs Hc Hmm Hi0 (args_nn_of _ _ _ Hnn Ha)) as Hres.
    destruct (meth_impl r cls fs m vs) as [v|x] eqn:Hmi; [|exact Hres]. cbn in Hres |- *.
    eapply strip_conf; eauto. cbn. rewrite Hevi, Hev, Hnone. exact Hmi.
  Qed.

  Lemma range_items_int : forall n a b l, range_items n a b = Some l ->
    Forall (fun v => exists z, v = VInt z) l.
  Proof.
    induction n as [|n IH]; intros a b l H; cbn in H.
    - destruct (b <=? a); inversion H; constructor.
    - destruct (b <=? a); [inversion H; constructor|].
      destruct (range_items n (a + 1) b) as [l'|] eqn:Hr; [|discriminate].
      inversion H; subst. constructor; eauto.
  Qed.

  Lemma env_ok_bind : forall G r x tv it,
    env_ok G r -> conf tv it -> env_ok ((x, tv) :: G) (bind_var x it r).
  Proof.
    intros G r x tv it He Hc y t Hy. cbn in Hy |- *.
    destruct (text_eqb y x); [inversion Hy; subst; eauto|auto].
  Qed.

  Lemma KI_bind : forall G K r x tv it,
    lookup x G = None -> KI G K r -> KI ((x, tv) :: G) K (bind_var x it r).
  Proof.
    intros G K r x tv it Hx HK k Hk. destruct (HK k Hk) as (e0 & Hc & Hin & Hst & Hnn).
    exists e0. split; [exact Hc|]. split; [exact Hin|]. split.
    - intros r1 r2 (Hv & Hrest). apply Hst. split; [|exact Hrest].
      intros y Hy. apply Hv. cbn. destruct (text_eqb y x); [discriminate|exact Hy].
    - assert (E : eval (bind_var x it r) e0 fuel = eval r e0 fuel).
      { apply Hst. split; [|cbn; auto]. intros y Hy. cbn.
        destruct (text_eqb y x) eqn:E; [|reflexivity].
        apply text_eqb_eq in E. subst y. congruence. }
      rewrite E. exact Hnn.
  Qed.

  Lemma quant_sound : forall (is_all : bool) x g c, gen_all P g -> P c ->
    forall G K r t,
      incl (Name x :: match g with ForEach i => subs i | ForRange a b => subs a ++ subs b end
                  ++ subs c) (subs root) ->
      infer false S G K (if is_all then All x g c else Any x g c) = Some t ->
      env_ok G r -> fn_ok r -> meth_ok r -> KI G K r ->
      res_ok t (eval r (if is_all then All x g c else Any x g c) fuel).
  Proof.
    intros is_all x g c Hg Hc G K r t Hincl Hi He Hf Hm HK.
    assert (Hi' : match lookup x G with
                  | Some _ => None
                  | None =>
                      match
                        match g with
                        | ForEach i => match infer false S G K i with
                                       | Some (TList t) => Some t | _ => None end
                        | ForRange a b =>
                            match infer false S G K a, infer false S G K b with
                            | Some ta, Some tb =>
                                if is_intlike ta && is_intlike tb then
                                  Some (TPrim (match ta, tb with
                                               | TPrim PInt, TPrim PInt => PInt
                                               | _, _ => PLength end))
                                else None
                            | _, _ => None
                            end
                        end
                      with
                      | Some tv => match infer false S ((x, tv) :: G) K c with
                                   | Some (TPrim PBool) => Some (TPrim PBool)
                                   | _ => None end
                      | None => None
                      end
                  end = Some t) by (destruct is_all; exact Hi).
    clear Hi.
    destruct (lookup x G) eqn:Hx; [discriminate|].
    set (items := gen_items fuel (match g with
                                  | ForEach i => ForEach (eval r i fuel)
                                  | ForRange a b => ForRange (eval r a fuel) (eval r b fuel)
                                  end)).
    assert (Hitems : exists tv, infer false S ((x, tv) :: G) K c = Some (TPrim PBool)
                               /\ t = TPrim PBool
                               /\ match items with
                                  | inl l => Forall (conf tv) l
                                  | inr ex => ex <> NoneDeref
                                  end).
    { subst items. destruct g as [i|a b]; cbn in Hg.
      - destruct (infer false S G K i) as [ti|] eqn:Hti; [|discriminate].
        destruct ti; try discriminate.
        destruct (infer false S ((x, ti) :: G) K c) as [tc|] eqn:Htc; [|discriminate].
        destruct tc; try discriminate. destruct p; try discriminate.
        inversion Hi'; subst. exists ti. split; [exact Htc|]. split; [reflexivity|].
        assert (H0 : res_ok (TList ti) (eval r i fuel)).
        { eapply Hg; eauto. intros y Hy. apply Hincl. right. apply in_or_app. auto. }
        cbn. destruct (eval r i fuel) as [vi|ex]; [|exact H0]. cbn in H0.
        inversion H0; subst. cbn. assumption.
      - destruct Hg as [Hga Hgb].
        destruct (infer false S G K a) as [ta|] eqn:Hta; [|discriminate].
        destruct (infer false S G K b) as [tb|] eqn:Htb; [|discriminate].
        destruct (is_intlike ta) eqn:Hia; [|discriminate].
        destruct (is_intlike tb) eqn:Hib; [|discriminate]. cbn in Hi'.
        match type of Hi' with
        | match infer false S ((x, ?tv0) :: G) K c with _ => _ end = _ => set (tv := tv0) in *
        end.
        destruct (infer false S ((x, tv) :: G) K c) as [tc|] eqn:Htc; [|discriminate].
        destruct tc; try discriminate. destruct p; try discriminate.
        inversion Hi'; subst t. exists tv. split; [exact Htc|]. split; [reflexivity|].
        assert (Ha0 : res_ok ta (eval r a fuel)).
        { eapply Hga; eauto. intros y Hy. apply Hincl. right. apply in_or_app. left.
          apply in_or_app. auto. }
        assert (Hb0 : res_ok tb (eval r b fuel)).
        { eapply Hgb; eauto. intros y Hy. apply Hincl. right. apply in_or_app. left.
          apply in_or_app. auto. }
        cbn. destruct (eval r a fuel) as [va|ex]; [|exact Ha0].
        destruct (eval r b fuel) as [vb|ex]; [|exact Hb0]. cbn in Ha0, Hb0.
        destruct (intlike_int _ _ Hia Ha0) as [za ->].
        destruct (intlike_int _ _ Hib Hb0) as [zb ->]. cbn.
        destruct (range_items fuel za zb) as [l|] eqn:Hr; [|congruence].
        apply range_items_int in Hr. rewrite Forall_forall in Hr |- *.
        intros v Hv. destruct (Hr v Hv) as [z ->].
        subst tv. destruct ta; try discriminate. destruct p; try discriminate;
          destruct tb; try discriminate; destruct p; try discriminate; constructor. }
    destruct Hitems as (tv & Htc & -> & Hit).
    assert (Hbody : forall it, conf tv it ->
                      res_ok (TPrim PBool) (eval (bind_var x it r) c fuel)).
    { intros it Hcit. eapply Hc; eauto.
      - intros y Hy. apply Hincl. right. apply in_or_app. auto.
      - apply env_ok_bind; auto.
      - apply KI_bind; auto. }
    assert (Hgoal : res_ok (TPrim PBool)
              match items with
              | inr ex => Raise ex
              | inl l => (if is_all then all_results else any_results)
                           (map (fun it => eval (bind_var x it r) c fuel) l)
              end).
    { destruct items as [l|ex]; [|exact Hit].
      induction l as [|it l IHl]; cbn.
      - destruct is_all; cbn; constructor; congruence.
      - inversion Hit; subst. specialize (Hbody it H1).
        destruct (eval (bind_var x it r) c fuel) as [v|ex].
        + destruct is_all; cbn; destruct (truthy v); auto; constructor; congruence.
        + destruct is_all; exact Hbody. }
    destruct is_all; exact Hgoal.
  Qed.

  Lemma P_JoinedStr : forall ps, Forall (jpart_all P) ps -> P (JoinedStr ps).
  Proof.
    intros ps HP G K r t Hincl Hi He Hf Hm HK.
    assert (Ht : t = TPrim PStr).
    { clear - Hi. induction ps as [|p rest IH]; cbn in Hi; [congruence|].
      destruct p; [auto|]. destruct (infer false S G K e); [|discriminate].
      destruct (is_opt t0); [discriminate|auto]. }
    subst t. cbn. unfold join_results.
    assert (Hres : match args_results
                           (map (fun p => match p with
                                          | JLit s => Val (VStr s)
                                          | JFmt a => eval r a fuel end) ps) with
                   | LVal _ => True | LRaise x => x <> NoneDeref end).
    { assert (Hincl' : forall a, In (JFmt a) ps -> incl (subs a) (subs root)).
      { intros a Ha x Hx. apply Hincl. cbn. right. apply in_flat_map. exists (JFmt a). auto. }
      clear Hincl. induction ps as [|p rest IH]; cbn; [exact I|].
      inversion HP as [|? ? Pp Prest]; subst. cbn in Hi. destruct p as [s|a].
      - specialize (IH Prest Hi (fun a Ha => Hincl' a (or_intror Ha))).
        destruct (args_results _); auto.
      - destruct (infer false S G K a) as [ta|] eqn:Hta; [|discriminate].
        destruct (is_opt ta); [discriminate|]. cbn in Pp.
        assert (H0 : res_ok ta (eval r a fuel)).
        { eapply Pp; eauto. apply Hincl'. left; reflexivity. }
        destruct (eval r a fuel) as [v|x]; [|exact H0].
        specialize (IH Prest Hi (fun a' Ha' => Hincl' a' (or_intror Ha'))).
        destruct (args_results _); auto. }
    destruct (args_results _); [constructor|exact Hres].
  Qed.

  Theorem infer_sound : forall e, P e.
  Proof.
    induction e using expr_ind'.
    - apply P_Member; auto.
    - apply P_Name.
    - apply P_Constant.
    - apply P_Index; auto.
    - apply P_Comparison; auto.
    - apply P_IsIn; auto.
    - apply P_IsNone; auto.
    - apply P_IsNotNone; auto.
    - apply P_Not; auto.
    - apply P_And; auto.
    - apply P_Or; auto.
    - apply P_Implication; auto.
    - apply P_FunctionCall; auto.
    - apply P_MethodCall; auto.
    - apply (P_AddSub true); auto.
    - apply (P_AddSub false); auto.
    - intros G K r t Hincl. apply (quant_sound false x g e); auto.
      intros y Hy. apply Hincl. right. exact Hy.
    - intros G K r t Hincl. apply (quant_sound true x g e); auto.
      intros y Hy. apply Hincl. right. exact Hy.
    - apply P_JoinedStr; auto.
  Qed.
End Sound.

(** ** The main theorem, closed form *)

Theorem infer_none_safe : forall (S : symtab) (fuel : nat) (root : expr) (G : tenv) (r : env) (t : ty),
  symtab_ok S -> keys_inj root ->
  infer false S G [] root = Some t ->
  env_ok S G r -> fn_ok S r -> meth_ok S r ->
  res_ok S t (eval r root fuel).
Proof.
  intros S fuel root G r t HS Hinj Hi He Hf Hm.
  apply (infer_sound S fuel root Hinj HS root G [] r t); auto.
  - apply incl_refl.
  - intros k [].
Qed.

Corollary infer_no_none_deref : forall S fuel root G r t,
  symtab_ok S -> keys_inj root -> infer false S G [] root = Some t ->
  env_ok S G r -> fn_ok S r -> meth_ok S r ->
  eval r root fuel <> Raise NoneDeref.
Proof.
  intros S fuel root G r t HS Hinj Hi He Hf Hm.
  pose proof (infer_none_safe S fuel root G r t HS Hinj Hi He Hf Hm) as H.
  intros E. rewrite E in H. cbn in H. congruence.
Qed.
