#!/bin/bash
# usage: intake_seeded.sh Cnn "<pytest targets>"  -- verifies /tmp/mut-out2/Cnn/{1,2} in /tmp/wt2-Cnn, installs into /verif/seeded/Cnn-k
p=$1; tests=$2
for n in 1 2 3; do
  d=/tmp/mut-out2/$p/$n; [ -f $d/patch.diff ] || continue
  cd /tmp/wt2-$p && git checkout -q -- . 
  PYTHONPATH=/tmp/wt2-$p /venv/bin/python $d/demo.py /tmp/wt2-$p >/dev/null 2>&1; c=$?
  git apply $d/patch.diff 2>/dev/null || { echo "$p-$n: PATCH FAILS"; continue; }
  t=$(PYTHONPATH=/tmp/wt2-$p timeout 1500 /venv/bin/python -m pytest -q -p no:cacheprovider -n 4 $tests 2>&1 | tail -1)
  PYTHONPATH=/tmp/wt2-$p /venv/bin/python $d/demo.py /tmp/wt2-$p >/dev/null 2>&1; m=$?
  git checkout -q -- .
  echo "$p-$n: demo clean rc=$c, patched rc=$m, tests: $t"
  if [ $c -eq 0 ] && [ $m -ne 0 ] && echo "$t" | grep -q passed && ! echo "$t" | grep -q failed; then
    k=$((n+2)); mkdir -p /verif/seeded/$p-$k && cp $d/patch.diff $d/demo.py $d/meta.json /verif/seeded/$p-$k/
    python3 - <<PY
import json
f='/verif/seeded/$p-$((n+2))/meta.json'
m=json.load(open(f)); m['confirmed_by_coordinator']="demo rc 0 on clean HEAD, rc $m with patch; pytest $tests with patch: $t"
json.dump(m,open(f,'w'),indent=1)
PY
    echo "  installed seeded/$p-$((n+2))"
  else
    echo "  NOT installed"
  fi
done
if [ -d /verif/seeded/$p-3 ] || [ "$KEEP" != "" ]; then git -C /repo worktree remove --force /tmp/wt2-$p 2>/dev/null; rm -rf /tmp/mut-out2/$p; else echo "  (kept /tmp/wt2-$p and /tmp/mut-out2/$p)"; fi
