(** Specification model of the generated Python SDK's [verification.verify(instance)]
    (C08). Executable definitions only, no proofs (see [Proofs/VerifySpecFacts.v]).

    [verify] is a generator walking an instance in pre-order. For an object [that] of runtime
    class C it first yields one [Error(description)] (empty path) for each stacked invariant
    of C whose expression is falsy on [that]; then, for each stacked property of C in order,
    with [v = that.prop]: if [v is None] nothing; otherwise by the DECLARED type of the
    property
      constrained primitive T      errors of T's invariants on [v], path [.prop]
      class                        recursive [verify(v)] (dispatch on the runtime class of
                                   [v]), every path prefixed with [.prop]
      list of constr. primitive T  for index i, item: errors of T on item, path [.prop][i]
      list of class                recursive on every item, prefix [.prop][i]
      anything else                nothing.
    If evaluating an invariant raises, [list(verify(x))] raises it (the first one in walk
    order; everything yielded before is lost).

    The model: [ev id v] is the Python evaluation of invariant number [id] on [v]. Paths are
    built by appending to the prefix carried by the recursive call. Recursion is on [fuel],
    one unit per object level; lists are handled by structural recursion on the list.

    Type-nonconforming instances (cannot be built through the SDK's typed constructors):
      - a property missing from the field list,
      - a non-object, non-None value of a class-typed property,
      - a non-object item in a list-of-class property,
      - a non-list value of a list-typed property
    are treated as contributing nothing (no error, no exception). Items that are [None]
    inside a list of constrained primitives are NOT skipped (the real code calls
    [verify_T(item)] for every item). *)
From Coq Require Import List NArith ZArith Bool.
From Acg Require Import Base.Str Model.Tree Model.PyEval.
Import ListNotations.
Local Open Scope nat_scope.

Inductive seg : Type := SPName (name : text) | SIdx (i : nat).
Definition path := list seg.

Inductive vty : Type :=
| VtOther
| VtCPrim (t : text)
| VtClass
| VtListCPrim (t : text)
| VtListClass.

Record vmm : Type := mkVmm {
  class_invs : text -> list (nat * text);   (* stacked invariants (id, description) of a class, in order *)
  class_props : text -> list (text * vty);  (* stacked properties (python name, declared kind) of a class, in order *)
  cprim_invs : text -> list (nat * text)    (* stacked invariants of a constrained primitive *)
}.

Inductive vres : Type :=
| VErrors (l : list (text * path))
| VRaise (x : exn)
| VOutOfFuel.

Definition seg_eqb (a b : seg) : bool :=
  match a, b with
  | SPName x, SPName y => text_eqb x y
  | SIdx i, SIdx j => Nat.eqb i j
  | _, _ => false
  end.

Definition path_eqb (a b : path) : bool := list_eqb seg_eqb a b.

Definition error_eqb (a b : text * path) : bool :=
  text_eqb (fst a) (fst b) && path_eqb (snd a) (snd b).

Definition vres_eqb (a b : vres) : bool :=
  match a, b with
  | VErrors x, VErrors y => list_eqb error_eqb x y
  | VRaise x, VRaise y => exn_eqb x y
  | VOutOfFuel, VOutOfFuel => true
  | _, _ => false
  end.

(** [a] then [b], as in consuming a generator into a list: the first result that is not a
    list of errors (an exception) wins. *)
Definition vseq (a b : vres) : vres :=
  match a with
  | VErrors l1 => match b with VErrors l2 => VErrors (l1 ++ l2) | _ => b end
  | _ => a
  end.

Definition vseq_all (rs : list vres) : vres := fold_right vseq (VErrors []) rs.

(** [enumerate(l, start=k)]. *)
Fixpoint indexed {A : Type} (k : nat) (l : list A) : list (nat * A) :=
  match l with
  | [] => []
  | x :: r => (k, x) :: indexed (S k) r
  end.

(** One invariant [(id, description)] on [v], reported at path [p]. *)
Definition check_inv (ev : nat -> value -> pyresult) (v : value) (p : path)
    (inv : nat * text) : vres :=
  match ev (fst inv) v with
  | Raise x => VRaise x
  | Val w => if truthy w then VErrors [] else VErrors [(snd inv, p)]
  end.

Definition check_invs (ev : nat -> value -> pyresult) (invs : list (nat * text))
    (v : value) (p : path) : vres :=
  vseq_all (map (check_inv ev v p) invs).

(** The recursive call is made on objects only (see the header for non-objects). *)
Definition rec_obj (rec : path -> value -> vres) (p : path) (v : value) : vres :=
  match v with
  | VObj _ _ _ => rec p v
  | _ => VErrors []
  end.

(** One property [(name, declared kind)] of an object with fields [fs] located at [p]. *)
Definition verify_prop (m : vmm) (ev : nat -> value -> pyresult)
    (rec : path -> value -> vres) (p : path) (fs : list (text * value))
    (pr : text * vty) : vres :=
  match lookup (fst pr) fs with
  | None => VErrors []
  | Some v =>
      if is_none v then VErrors []
      else
        match snd pr with
        | VtOther => VErrors []
        | VtCPrim t => check_invs ev (cprim_invs m t) v (p ++ [SPName (fst pr)])
        | VtClass => rec_obj rec (p ++ [SPName (fst pr)]) v
        | VtListCPrim t =>
            match v with
            | VList items =>
                vseq_all
                  (map (fun ix => check_invs ev (cprim_invs m t) (snd ix)
                                    (p ++ [SPName (fst pr); SIdx (fst ix)]))
                     (indexed 0 items))
            | _ => VErrors []
            end
        | VtListClass =>
            match v with
            | VList items =>
                vseq_all
                  (map (fun ix => rec_obj rec (p ++ [SPName (fst pr); SIdx (fst ix)]) (snd ix))
                     (indexed 0 items))
            | _ => VErrors []
            end
        end
  end.

(** One object level: own invariants, then the properties in order. *)
Definition verify_step (m : vmm) (ev : nat -> value -> pyresult)
    (rec : path -> value -> vres) (p : path) (v : value) : vres :=
  match v with
  | VObj _ c fs =>
      vseq (check_invs ev (class_invs m c) v p)
           (vseq_all (map (verify_prop m ev rec p fs) (class_props m c)))
  | _ => VErrors []
  end.

Fixpoint verify_at (m : vmm) (ev : nat -> value -> pyresult) (fuel : nat)
    (p : path) (v : value) {struct fuel} : vres :=
  match fuel with
  | O => match v with VObj _ _ _ => VOutOfFuel | _ => VErrors [] end
  | S f => verify_step m ev (verify_at m ev f) p v
  end.

(** [list(verification.verify(v))]. *)
Definition verify_spec (m : vmm) (ev : nat -> value -> pyresult) (fuel : nat)
    (v : value) : vres :=
  verify_at m ev fuel [] v.

(** Nesting depth of objects/lists; [S (value_depth v)] is enough fuel for [v]. *)
Fixpoint value_depth (v : value) : nat :=
  match v with
  | VList vs | VSet vs => S (fold_right Nat.max 0 (map value_depth vs))
  | VObj _ _ fs => S (fold_right Nat.max 0 (map (fun kv => value_depth (snd kv)) fs))
  | _ => 0
  end.
