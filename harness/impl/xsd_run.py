"""Adapter for C13 / C14 (XSD generator). JSON stdin -> JSON stdout.

Run with the interpreter of the repository under test (``lib.impl_call``): it imports the
code under test (``aas_core_codegen.xsd.main``, the real front end, the real CLI through
``cli.run_job``), the *generated* Python SDK of the meta-model, and ``xmlschema`` as the
independent XSD validator.

Modes (``payload["mode"]``):

``patterns``  ``{"patterns": [...], "seed": s, "n_strings": k}`` -> per pattern the outputs of
              ``_undo_escaping_backslash_x_in_pattern``, ``parse_retree.parse`` (before and
              after the undo), ``_translate_pattern`` and sampled verdicts
              (Python ``re.match`` on the original vs. the XSD pattern facet).
``model``     one meta-model: real CLI for ``xsd`` and ``python``; the schema is loaded with
              XMLSchema10/11; instances are built with the generated SDK, verified, written
              with its xmlization and validated; single-constraint mutants must be rejected.
"""
import base64
import importlib
import io
import json
import os
import pathlib
import random
import re
import shutil
import sys
import tempfile
import traceback
import xml.etree.ElementTree as ET

HERE = pathlib.Path(__file__).resolve().parent
sys.path.insert(0, str(HERE))

XML_GENERAL_PATTERN = (
    "^[\\x09\\x0A\\x0D\\x20-\\uD7FF\\uE000-\\uFFFD" "\\U00010000-\\U0010FFFF]*$"
)


# --------------------------------------------------------------------------------------
# helpers on characters / names
# --------------------------------------------------------------------------------------
def xml_char_no_break(cp: int) -> bool:
    """XML 1.0 Char without the line breaks (and without NEL / LS which some writers fold)."""
    if cp in (0x0A, 0x0D, 0x85, 0x2028):
        return False
    return (cp == 0x09 or 0x20 <= cp <= 0xD7FF or 0xE000 <= cp <= 0xFFFD
            or 0x10000 <= cp <= 0x10FFFF)


def lcc(identifier: str) -> str:
    """Independent mirror of naming.lower_camel_case (xml_class_name / xml_property)."""
    parts = identifier.split("_")
    if len(parts) == 1:
        return parts[0].lower()
    return parts[0].lower() + "".join(p.capitalize() for p in parts[1:])


# --------------------------------------------------------------------------------------
# retree -> JSON
# --------------------------------------------------------------------------------------
def tree_json(node):
    from aas_core_codegen.parse import retree
    from aas_core_codegen.parse.tree import FormattedValue

    if isinstance(node, retree.Regex):
        return tree_json(node.union)
    if isinstance(node, retree.UnionExpr):
        return {"k": "union", "cs": [tree_json(c) for c in node.uniates]}
    if isinstance(node, retree.Concatenation):
        return {"k": "concat", "ts": [tree_json(t) for t in node.concatenants]}
    if isinstance(node, retree.Term):
        v = node.value
        if isinstance(v, FormattedValue):
            raise ValueError("formatted value in a string pattern")
        inner = tree_json(v)
        if node.quantifier is None:
            return inner
        q = node.quantifier
        return {"k": "quant", "v": inner, "min": q.minimum, "max": q.maximum,
                "ng": bool(q.non_greedy)}
    if isinstance(node, retree.Group):
        return {"k": "group", "u": tree_json(node.union)}
    if isinstance(node, retree.Char):
        return {"k": "char", "c": ord(node.character), "enc": bool(node.explicitly_encoded)}
    if isinstance(node, retree.CharSet):
        return {"k": "set", "neg": bool(node.complementing),
                "rs": [[ord(r.start.character), bool(r.start.explicitly_encoded),
                        None if r.end is None else ord(r.end.character),
                        False if r.end is None else bool(r.end.explicitly_encoded)]
                       for r in node.ranges]}
    if isinstance(node, retree.Symbol):
        return {"k": {"^": "start", "$": "end", ".": "dot"}[node.kind.value]}
    raise ValueError(f"unexpected node {type(node).__name__}")


def parse_pattern(pattern):
    from aas_core_codegen.parse import retree
    try:
        parsed, error = retree.parse(values=[pattern])
    except BaseException as exc:  # noqa
        return {"exc": type(exc).__name__}
    if error is not None:
        return {"err": error.message[:200]}
    try:
        return {"ok": tree_json(parsed)}
    except ValueError as exc:
        return {"err": f"untranslatable: {exc}"}


# --------------------------------------------------------------------------------------
# string sampling for a pattern
# --------------------------------------------------------------------------------------
def tree_alphabet(tj, acc):
    k = tj["k"]
    if k == "union":
        for c in tj["cs"]:
            tree_alphabet(c, acc)
    elif k == "concat":
        for t in tj["ts"]:
            tree_alphabet(t, acc)
    elif k == "quant":
        tree_alphabet(tj["v"], acc)
    elif k == "group":
        tree_alphabet(tj["u"], acc)
    elif k == "char":
        acc.update((tj["c"] - 1, tj["c"], tj["c"] + 1))
    elif k == "set":
        for s, _, e, _ in tj["rs"]:
            acc.update((s - 1, s, s + 1))
            if e is not None:
                acc.update((e - 1, e, e + 1, (s + e) // 2))


GENERIC = [ord(c) for c in "a0 $^*|\\x.-A_z9"] + [0x09, 0xE4, 0x20AC, 0x1F600]


def alphabet_of(tj):
    acc = set()
    tree_alphabet(tj, acc)
    acc.update(GENERIC)
    return sorted(cp for cp in acc if cp >= 0 and xml_char_no_break(cp))


def in_set(tj, cp):
    hit = any((cp == s) if e is None else (s <= cp <= e) for s, _, e, _ in tj["rs"])
    return hit != tj["neg"]


def gen_from(tj, rng, alpha, budget=None):
    """A string in (or near) the language of the tree; anchors contribute nothing."""
    k = tj["k"]
    if k == "union":
        return gen_from(rng.choice(tj["cs"]), rng, alpha) if tj["cs"] else ""
    if k == "concat":
        return "".join(gen_from(t, rng, alpha) for t in tj["ts"])
    if k == "group":
        return gen_from(tj["u"], rng, alpha)
    if k == "quant":
        lo = tj["min"]
        hi = tj["max"] if tj["max"] is not None else lo + 3
        hi = min(hi, lo + 3)
        n = rng.choice([lo, hi, rng.randint(lo, hi)])
        return "".join(gen_from(tj["v"], rng, alpha) for _ in range(n))
    if k == "char":
        return chr(tj["c"])
    if k == "dot":
        return chr(rng.choice(alpha))
    if k == "set":
        cands = [cp for cp in alpha if in_set(tj, cp)]
        if not tj["neg"]:
            for s, _, e, _ in tj["rs"]:
                e2 = s if e is None else e
                for cp in (s, e2, rng.randint(s, e2) if e2 >= s else s):
                    if xml_char_no_break(cp):
                        cands.append(cp)
        if not cands:
            return ""
        # prefer printable ASCII when available
        asc = [cp for cp in cands if 0x21 <= cp <= 0x7E]
        pool = asc if asc and rng.random() < 0.8 else cands
        return chr(rng.choice(pool))
    return ""  # start / end


def mutate_string(s, rng, alpha):
    ops = rng.choice(["ins", "del", "rep", "dup", "swap"])
    if not s:
        return chr(rng.choice(alpha))
    i = rng.randrange(len(s))
    if ops == "ins":
        return s[:i] + chr(rng.choice(alpha)) + s[i:]
    if ops == "del":
        return s[:i] + s[i + 1:]
    if ops == "rep":
        return s[:i] + chr(rng.choice(alpha)) + s[i + 1:]
    if ops == "dup":
        return s[:i] + s[i] + s[i:]
    j = rng.randrange(len(s))
    lst = list(s)
    lst[i], lst[j] = lst[j], lst[i]
    return "".join(lst)


def sample_strings(tj, rng, n):
    alpha = alphabet_of(tj)
    out = [""]
    seen = {""}
    tries = 0
    while len(out) < n and tries < 6 * n:
        tries += 1
        r = rng.random()
        if r < 0.45:
            s = gen_from(tj, rng, alpha)
        elif r < 0.85:
            s = mutate_string(gen_from(tj, rng, alpha), rng, alpha)
        else:
            s = "".join(chr(rng.choice(alpha)) for _ in range(rng.randint(1, 4)))
        if len(s) > 30 or s in seen or not all(xml_char_no_break(ord(c)) for c in s):
            continue
        seen.add(s)
        out.append(s)
    return out


# --------------------------------------------------------------------------------------
# XSD pattern facet through xmlschema
# --------------------------------------------------------------------------------------
def facet_validators(xsd_pattern):
    """(validator10, validator11, error) for a single pattern facet."""
    import xmlschema
    from xml.sax.saxutils import quoteattr

    text = ('<xs:schema xmlns:xs="http://www.w3.org/2001/XMLSchema">'
            '<xs:simpleType name="t"><xs:restriction base="xs:string">'
            f'<xs:pattern value={quoteattr(xsd_pattern)}/>'
            '</xs:restriction></xs:simpleType></xs:schema>')
    out = []
    for cls in (xmlschema.XMLSchema10, xmlschema.XMLSchema11):
        try:
            out.append(cls(text).types["t"])
        except Exception as exc:  # noqa
            return None, None, f"{cls.__name__}: {type(exc).__name__}: {str(exc).strip().splitlines()[0][:200]}"
    return out[0], out[1], None


def run_patterns(payload):
    from aas_core_codegen.xsd import main as xsd_main

    rng = random.Random(payload.get("seed", 0))
    n_strings = payload.get("n_strings", 40)
    results = []
    for pattern in payload["patterns"]:
        res = {"pattern": pattern}
        try:
            undone = xsd_main._undo_escaping_backslash_x_in_pattern(pattern)
            res["undo"] = {"ok": undone}
        except BaseException as exc:  # noqa
            undone = None
            res["undo"] = {"exc": type(exc).__name__}
        res["parse_orig"] = parse_pattern(pattern)
        res["parse_undone"] = parse_pattern(undone) if undone is not None else None
        try:
            translated, error = xsd_main._translate_pattern(pattern)
            res["translate"] = {"ok": translated} if error is None else {"err": error[:300]}
        except BaseException as exc:  # noqa
            res["translate"] = {"exc": type(exc).__name__, "msg": str(exc)[:200]}
        # language comparison on sampled strings
        res["verdicts"] = None
        if "ok" in res["translate"] and "ok" in res["parse_orig"]:
            try:
                py = re.compile(pattern)
            except re.error as exc:
                res["py_error"] = str(exc)
                results.append(res)
                continue
            if re.search(r"\\\\[A-Za-z]", res["translate"]["ok"]):
                # xmlschema/elementpath mis-reads an escaped backslash followed by a letter
                # inside the pattern (e.g. ``[^y\\\\c]`` is taken as the class escape ``\\c``):
                # a quirk of the third-party validator, not of the generated pattern, so no
                # verdicts are sampled for such patterns (counted as validator_quirk).
                res["validator_quirk"] = True
                res["verdicts"] = []
                results.append(res)
                continue
            v10, v11, err = facet_validators(res["translate"]["ok"])
            if err is not None:
                res["facet_error"] = err
            else:
                strings = sample_strings(res["parse_orig"]["ok"], rng, n_strings)
                verdicts = []
                for s in strings:
                    verdicts.append([s, py.match(s) is not None, bool(v10.is_valid(s)),
                                     bool(v11.is_valid(s))])
                res["verdicts"] = verdicts
        results.append(res)
    return results


# --------------------------------------------------------------------------------------
# one meta-model: schema, SDK, documents, mutants
# --------------------------------------------------------------------------------------
class Sdk:
    def __init__(self, files, root: pathlib.Path):
        pkg = None
        for rel, content in files.items():
            pth = root / rel
            pth.parent.mkdir(parents=True, exist_ok=True)
            pth.write_text(content, encoding="utf-8")
            if rel.endswith("/types.py") and not rel.startswith("dev/"):
                pkg = rel[: -len("/types.py")].replace("/", ".")
        if pkg is None:
            raise RuntimeError("no types.py in the generated SDK")
        sys.path.insert(0, str(root))
        self.types = importlib.import_module(pkg + ".types")
        self.verification = importlib.import_module(pkg + ".verification")
        self.xmlization = importlib.import_module(pkg + ".xmlization")


class BudgetExceeded(Exception):
    pass


class Builder:
    """Builds instances of the meta-model classes with the generated SDK."""

    def __init__(self, symbol_table, constraints_by_class, sdk, rng):
        from aas_core_codegen import intermediate
        from aas_core_codegen.python import naming as pyn

        self.I = intermediate
        self.pyn = pyn
        self.st = symbol_table
        self.cbc = constraints_by_class
        self.sdk = sdk
        self.rng = rng
        self.tree_cache = {}
        self.p_optional = 0.5
        self.max_depth = 4
        self.nodes = 0
        self.node_budget = 400
        self.const_str = []
        self.const_num = []
        self.forced_class = None
        self.pool = {}
        self.hopeless = set()
        self.in_progress = set()
        self.last_errors = None

    # -- primitive values -------------------------------------------------------------
    def pattern_tree(self, pattern):
        if pattern not in self.tree_cache:
            r = parse_pattern(pattern)
            self.tree_cache[pattern] = r.get("ok")
        return self.tree_cache[pattern]

    def len_bounds(self, cons):
        lo, hi = 0, None
        if cons is not None and cons.len_constraint is not None:
            if cons.len_constraint.min_value is not None:
                lo = cons.len_constraint.min_value
            hi = cons.len_constraint.max_value
        return lo, hi

    def relevant_patterns(self, cons):
        if cons is None or cons.patterns is None:
            return []
        return [p.pattern for p in cons.patterns]

    def str_ok(self, s, cons):
        lo, hi = self.len_bounds(cons)
        if len(s) < lo or (hi is not None and len(s) > hi):
            return False
        for p in self.relevant_patterns(cons):
            if re.match(p, s) is None:
                return False
        if cons is not None and cons.set_of_primitives is not None:
            if s not in [l.value for l in cons.set_of_primitives.literals]:
                return False
        return all(xml_char_no_break(ord(c)) for c in s)

    def gen_str(self, cons, want_len=None):
        rng = self.rng
        lo, hi = self.len_bounds(cons)
        if cons is not None and cons.set_of_primitives is not None:
            lits = [l.value for l in cons.set_of_primitives.literals]
            ok = [v for v in lits if isinstance(v, str) and self.str_ok(v, cons)]
            return rng.choice(ok) if ok else None
        pats = [p for p in self.relevant_patterns(cons) if p != XML_GENERAL_PATTERN]
        if not pats:
            if want_len is not None:
                n = want_len
            else:
                k = rng.random()      # boundary lengths are the interesting ones
                if k < 0.3:
                    n = lo
                elif k < 0.6:
                    n = hi if hi is not None else lo + rng.randint(6, 9)
                else:
                    n = rng.randint(lo, (hi if hi is not None else lo + 6))
            alpha = "abcXYZ019 _-./:&<>'\"ä€"
            return "".join(rng.choice(alpha) for _ in range(n))
        tj = self.pattern_tree(rng.choice(pats))
        if tj is None:
            return None
        alpha = alphabet_of(tj)
        for _ in range(200):
            s = gen_from(tj, rng, alpha)
            if want_len is not None and len(s) != want_len:
                continue
            if self.str_ok(s, cons) or (want_len is not None and self.str_ok_but_len(s, cons)):
                return s
        return None

    def str_ok_but_len(self, s, cons):
        for p in self.relevant_patterns(cons):
            if re.match(p, s) is None:
                return False
        return all(xml_char_no_break(ord(c)) for c in s)

    def harvest(self, text):
        """Literals that the invariants compare against (raises the share of valid instances)."""
        for m_ in re.finditer(r"constant_set\(\s*values=\[(.*?)\]", text, re.S):
            self.const_str += re.findall(r'"([^"\\]*)"', m_.group(1))
        for line in text.splitlines():
            if "lambda self" not in line:
                continue
            self.const_str += re.findall(r'"([^"\\]*)"', line)
            self.const_num += [float(x) for x in re.findall(r"-?\d+(?:\.\d+)?", line)]

    def gen_prim(self, prim, cons):
        P = self.I.PrimitiveType
        rng = self.rng
        if prim is P.STR and self.const_str and rng.random() < (0.5 if len(self.const_str) < 8 else 0.35):
            s = rng.choice(self.const_str)
            if self.str_ok(s, cons):
                return s
        if prim in (P.INT, P.FLOAT) and self.const_num and rng.random() < 0.5 and (
                cons is None or cons.set_of_primitives is None):
            x = rng.choice(self.const_num) + rng.choice([-1, 0, 0, 1])
            return int(x) if prim is P.INT else float(x)
        if cons is not None and cons.set_of_primitives is not None and prim is not P.STR:
            vals = [l.value for l in cons.set_of_primitives.literals]
            return rng.choice(vals) if vals else None
        if prim is P.BOOL:
            return rng.random() < 0.5
        if prim is P.INT:
            return rng.choice([0, 1, 2, 3, 5, 7, 10, 42, -1, -7, 1000, 2 ** 40])
        if prim is P.FLOAT:
            return rng.choice([0.0, 1.0, 1.5, -2.25, 3.0, 10.0, 1e10, 0.001, 42.0])
        if prim is P.STR:
            return self.gen_str(cons)
        if prim is P.BYTEARRAY:
            lo, hi = self.len_bounds(cons)
            n = rng.randint(lo, hi if hi is not None else lo + 5)
            return bytes(rng.randrange(256) for _ in range(n))
        raise AssertionError(prim)

    # -- structured values ------------------------------------------------------------
    def concrete_candidates(self, cls):
        I = self.I
        out = []
        if isinstance(cls, I.ConcreteClass):
            out.append(cls)
        seen = {id(cls)}
        for d in cls.concrete_descendants:
            if id(d) not in seen:
                seen.add(id(d))
                out.append(d)
        return [c for c in out if not c.is_implementation_specific]

    def gen_value(self, anno, cons_map, depth):
        I = self.I
        cons = cons_map.get(anno, None)
        prim = I.try_primitive_type(anno)
        if prim is not None:
            return self.gen_prim(prim, cons)
        if isinstance(anno, I.OurTypeAnnotation):
            ot = anno.our_type
            if isinstance(ot, I.Enumeration):
                lits = list(ot.literals)
                if cons is not None and cons.set_of_enumeration_literals is not None:
                    lits = list(cons.set_of_enumeration_literals.literals)
                if not lits:
                    return None
                lit = self.rng.choice(lits)
                enum_cls = getattr(self.sdk.types, self.pyn.enum_name(ot.name))
                return getattr(enum_cls, self.pyn.enum_literal_name(lit.name))
            cands = self.concrete_candidates(ot)
            if not cands:
                return None
            if self.forced_class is not None:
                want = [c for c in cands if c is self.forced_class]
                self.forced_class = None
                if want:
                    v = self.nested_instance(want[0], depth + 1)
                    if v is not None:
                        return v
            self.rng.shuffle(cands)
            for cand in cands[:3]:
                v = self.nested_instance(cand, depth + 1)
                if v is not None:
                    return v
            return None
        if isinstance(anno, I.ListTypeAnnotation):
            lo, hi = self.len_bounds(cons)
            if depth >= self.max_depth:
                n = lo
            else:
                n = self.rng.randint(lo, hi if hi is not None else lo + 2)
            cover = []
            if (depth == 0 and isinstance(anno.items, I.OurTypeAnnotation)
                    and isinstance(anno.items.our_type, (I.AbstractClass, I.ConcreteClass))
                    and self.rng.random() < 0.6):
                # a list at the top level holds one item of every concrete class it may hold
                cover = self.concrete_candidates(anno.items.our_type)
                self.rng.shuffle(cover)
                if hi is not None:
                    cover = cover[:hi]
                n = max(n, len(cover))
            items = []
            for k_ in range(n):
                self.forced_class = cover[k_] if k_ < len(cover) else None
                v = self.gen_value(anno.items, cons_map, depth + 1)
                self.forced_class = None
                if v is None:
                    return None
                items.append(v)
            return items
        raise AssertionError(type(anno))

    def gen_instance(self, cls, depth=0):
        I = self.I
        self.nodes += 1
        if self.nodes > self.node_budget or depth > 12:
            raise BudgetExceeded()
        cons_map = self.cbc[cls]
        kwargs = {}
        if cls.constructor is None:
            return None
        for arg in cls.constructor.arguments:
            prop = cls.properties_by_name.get(arg.name, None)
            if prop is None:
                return None
            anno = prop.type_annotation
            optional = isinstance(anno, I.OptionalTypeAnnotation)
            if optional:
                p = self.p_optional if depth < self.max_depth else 0.0
                if self.rng.random() >= p:
                    kwargs[self.pyn.argument_name(arg.name)] = None
                    continue
                anno = anno.value
            v = self.gen_value(anno, cons_map, depth)
            if v is None and not optional:
                return None
            kwargs[self.pyn.argument_name(arg.name)] = v
        klass = getattr(self.sdk.types, self.pyn.class_name(cls.name))
        return klass(**kwargs)

    def valid_instance(self, cls, attempts, depth=0):
        """An instance without verification errors (sub-instances come from a pool of
        instances that were verified on their own), or None."""
        import copy
        n_tried = 0
        for k in range(attempts):
            self.p_optional = [0.5, 0.0, 1.0, 0.25, 0.75][k % 5]
            if depth == 0:
                self.nodes = 0
            nodes_before = self.nodes
            try:
                inst = self.gen_instance(cls, depth)
            except (RecursionError, BudgetExceeded):
                if depth > 0:
                    raise       # the instance under construction at the top is too big
                inst = None
            if inst is None:
                continue
            n_tried += 1
            errors = list(self.sdk.verification.verify(inst))
            if not errors:
                size = max(1, self.nodes - nodes_before)
                self.pool.setdefault(cls.name, []).append((inst, size))
                return copy.deepcopy(inst), n_tried
            self.last_errors = [f"{e.path}: {e.cause}"[:160] for e in errors[:3]]
        return None, n_tried

    def nested_instance(self, cls, depth):
        import copy
        if cls.name in self.hopeless:
            return None
        pool = self.pool.get(cls.name, [])

        def from_pool():
            # copies count towards the node budget of the instance under construction
            inst_, size_ = self.rng.choice(pool)
            self.nodes += size_
            if self.nodes > self.node_budget:
                raise BudgetExceeded()
            return copy.deepcopy(inst_)

        if pool and (len(pool) >= 4 or self.rng.random() < 0.5 or depth >= self.max_depth):
            return from_pool()
        if cls.name in self.in_progress:
            return from_pool() if pool else None
        self.in_progress.add(cls.name)
        saved = self.p_optional
        try:
            inst, _ = self.valid_instance(cls, attempts=8, depth=depth)
        finally:
            self.in_progress.discard(cls.name)
            self.p_optional = saved
        if inst is None and depth <= 1:
            self.hopeless.add(cls.name)
        return inst


def find_class_of(symbol_table, sdk, pyn, obj):
    name = type(obj).__name__
    for c in symbol_table.classes:
        if pyn.class_name(c.name) == name:
            return c
    return None


def collect_sites(builder, root_obj):
    """Mutation sites: (object, python attribute, kind, new value, description)."""
    I = builder.I
    pyn = builder.pyn
    sites = []

    def prim_sites(owner_cons_map, anno, value, setter, where):
        cons = owner_cons_map.get(anno, None)
        if cons is None:
            return
        prim = I.try_primitive_type(anno)
        if prim is None:
            return
        P = I.PrimitiveType
        lo, hi = builder.len_bounds(cons)
        if prim is P.STR and isinstance(value, str):
            pats = [p for p in builder.relevant_patterns(cons)]
            if cons.len_constraint is not None:
                if hi is not None:
                    s = builder.gen_str(cons, want_len=hi + 1)
                    if s is None:
                        s = (value + "a" * (hi + 1))[: hi + 1] if not pats else None
                    if s is not None and len(s) == hi + 1:
                        sites.append((setter, "len-max", s, where))
                if lo >= 1:
                    s = builder.gen_str(cons, want_len=lo - 1)
                    if s is None and not pats:
                        s = value[: lo - 1]
                    if s is not None and len(s) == lo - 1:
                        sites.append((setter, "len-min", s, where))
            real_pats = [p for p in pats if p != XML_GENERAL_PATTERN]
            if real_pats:
                tj = builder.pattern_tree(real_pats[0])
                if tj is not None:
                    alpha = alphabet_of(tj)
                    for _ in range(60):
                        s = mutate_string(value, builder.rng, alpha)
                        if not all(xml_char_no_break(ord(c)) for c in s):
                            continue
                        if len(s) < lo or (hi is not None and len(s) > hi):
                            continue
                        if any(re.match(p, s) is None for p in real_pats):
                            sites.append((setter, "pattern", s, where))
                            break
        elif prim is P.BYTEARRAY and isinstance(value, (bytes, bytearray)):
            if cons.len_constraint is not None:
                if hi is not None:
                    sites.append((setter, "len-max", bytes(value) + b"\x00" * (hi + 1 - len(value)), where))
                if lo >= 1:
                    sites.append((setter, "len-min", bytes(value)[: lo - 1], where))

    def walk(obj, path):
        cls = find_class_of(builder.st, builder.sdk, pyn, obj)
        if cls is None:
            return
        for prop in cls.properties:
            owner = prop.specified_for
            owner_map = builder.cbc[owner]
            anno = I.beneath_optional(prop.type_annotation)
            attr = pyn.property_name(prop.name)
            value = getattr(obj, attr)
            if value is None:
                continue
            where = f"{path}/{cls.name}.{prop.name}(specified for {owner.name})"

            def setter(new, obj=obj, attr=attr):
                old = getattr(obj, attr)
                setattr(obj, attr, new)
                return lambda: setattr(obj, attr, old)

            if isinstance(anno, I.ListTypeAnnotation):
                cons = owner_map.get(anno, None)
                if cons is not None and cons.len_constraint is not None:
                    lo, hi = builder.len_bounds(cons)
                    if hi is not None and len(value) >= 1:
                        new = list(value) + [value[-1]] * (hi + 1 - len(value))
                        sites.append((setter, "list-max", new, where))
                    if lo >= 1:
                        sites.append((setter, "list-min", list(value)[: lo - 1], where))
                for idx, item in enumerate(value[:2]):
                    def item_setter(new, value=value, idx=idx):
                        old = value[idx]
                        value[idx] = new
                        return lambda: value.__setitem__(idx, old)

                    if I.try_primitive_type(anno.items) is not None:
                        prim_sites(owner_map, anno.items, item, item_setter, where + f"[{idx}]")
                    elif hasattr(item, "__dict__") and not isinstance(item, (str, bytes)):
                        if type(item).__module__ == builder.sdk.types.__name__ and not hasattr(item, "value"):
                            walk(item, where + f"[{idx}]")
            elif I.try_primitive_type(anno) is not None:
                prim_sites(owner_map, anno, value, setter, where)
            elif isinstance(anno, I.OurTypeAnnotation) and isinstance(
                    anno.our_type, (I.AbstractClass, I.ConcreteClass)):
                walk(value, where)

    walk(root_obj, "")
    return sites


def xml_mutants(doc_text, cls, I, rng):
    """Unknown / misplaced / missing required element at the level of the root instance."""
    out = []
    root = ET.fromstring(doc_text)
    ns = root.tag[: root.tag.index("}") + 1] if root.tag.startswith("{") else ""
    children = list(root)
    required = {lcc(p.name) for p in cls.properties
                if not isinstance(p.type_annotation, I.OptionalTypeAnnotation)}

    def ser(r):
        ET.register_namespace("", ns[1:-1])
        return ET.tostring(r, encoding="unicode")

    # unknown element
    r = ET.fromstring(doc_text)
    pos = rng.randint(0, len(children))
    r.insert(pos, ET.Element(ns + "zzUnknownElement"))
    out.append(("unknown-element", ser(r), f"inserted at {pos}"))
    # misplaced: swap two adjacent children with different tags
    cands = [i for i in range(len(children) - 1) if children[i].tag != children[i + 1].tag]
    if cands:
        i = rng.choice(cands)
        r = ET.fromstring(doc_text)
        ch = list(r)
        a, b = ch[i], ch[i + 1]
        r.remove(a)
        r.remove(b)
        r.insert(i, b)
        r.insert(i + 1, a)
        out.append(("misplaced-element", ser(r), f"swapped {i} and {i + 1}"))
    # missing required
    cands = [i for i, c in enumerate(children) if c.tag[len(ns):] in required]
    if cands:
        i = rng.choice(cands)
        r = ET.fromstring(doc_text)
        r.remove(list(r)[i])
        out.append(("missing-required", ser(r), f"removed child {i} <{children[i].tag[len(ns):]}>"))
    # a property element moved below a nested element = misplaced at another level
    return out


def extract_facets(schema_text, symbol_table, cbc, I):
    """What the schema says for each property at the place it is specified, next to the
    inferred constraints (input of the value-level model)."""
    XS = "{http://www.w3.org/2001/XMLSchema}"
    root = ET.fromstring(schema_text)
    groups = {g.attrib["name"]: g for g in root.findall(XS + "group")}
    out = []
    for cls in symbol_table.classes:
        if cls.is_implementation_specific:
            continue
        g = groups.get(lcc(cls.name))
        if g is None:
            out.append({"cls": cls.name, "missing_group": True})
            continue
        seq = g.find(XS + "sequence")
        elems = {e.attrib.get("name"): e for e in seq.findall(XS + "element")}
        for prop in cls.properties:
            if prop.specified_for is not cls:
                continue
            anno = I.beneath_optional(prop.type_annotation)
            optional = isinstance(prop.type_annotation, I.OptionalTypeAnnotation)
            e = elems.get(lcc(prop.name))
            rec = {"cls": cls.name, "prop": prop.name, "optional": optional}
            if e is None:
                rec["missing_element"] = True
                out.append(rec)
                continue
            rec["occurs"] = [e.attrib.get("minOccurs"), e.attrib.get("maxOccurs")]

            def describe(anno, e):
                d = {}
                cons = cbc[cls].get(anno, None)
                lenc = None
                pats = []
                if cons is not None:
                    if cons.len_constraint is not None:
                        lenc = [cons.len_constraint.min_value, cons.len_constraint.max_value]
                    if cons.patterns is not None:
                        pats = [p.pattern for p in cons.patterns]
                d["len"] = lenc
                d["patterns"] = pats
                prim = I.try_primitive_type(anno)
                if prim is not None:
                    d["kind"] = prim.value
                    st = e.find(XS + "simpleType")
                    if st is None:
                        d["xsd"] = {"type": e.attrib.get("type"), "minLength": None,
                                    "maxLength": None, "pattern": None}
                    else:
                        rs = st.find(XS + "restriction")
                        mn = rs.find(XS + "minLength")
                        mx = rs.find(XS + "maxLength")
                        pt = rs.findall(XS + "pattern")
                        d["xsd"] = {"type": rs.attrib.get("base"),
                                    "minLength": None if mn is None else mn.attrib["value"],
                                    "maxLength": None if mx is None else mx.attrib["value"],
                                    "pattern": None if not pt else pt[0].attrib["value"],
                                    "n_pattern_facets": len(pt)}
                elif isinstance(anno, I.ListTypeAnnotation):
                    d["kind"] = "list"
                    ct = e.find(XS + "complexType")
                    item = None
                    if ct is not None:
                        sq = ct.find(XS + "sequence")
                        if sq is not None and len(list(sq)) == 1:
                            item = list(sq)[0]
                    if item is None:
                        d["xsd"] = None
                    else:
                        d["xsd"] = {"item_tag": item.tag[len(XS):],
                                    "minOccurs": item.attrib.get("minOccurs"),
                                    "maxOccurs": item.attrib.get("maxOccurs")}
                        if item.tag == XS + "element" and item.attrib.get("name") == "v":
                            d["item"] = describe(anno.items, item)
                else:
                    d["kind"] = "our"
                    d["xsd"] = {"type": e.attrib.get("type")}
                return d

            rec.update(describe(anno, e))
            out.append(rec)
    return out


def run_model(payload):
    import cli
    import frontend
    import xmlschema
    from aas_core_codegen import intermediate as I, infer_for_schema
    from aas_core_codegen.python import naming as pyn

    rng = random.Random(payload.get("seed", 0))
    text = payload["model_text"]
    n_docs = payload.get("n_docs", 40)
    n_mut = payload.get("mutants_per_doc", 4)
    res = {"stage": "frontend", "docs": 0, "valid_fail": [], "mutant_fail": [], "stats": {}}

    st, _atok, rejection = frontend.load(text)
    if rejection is not None:
        res["frontend"] = rejection
        return res
    concrete = [c for c in st.classes
                if isinstance(c, I.ConcreteClass) and not c.is_implementation_specific]

    # root element snippet: one global element per concrete class
    ns = st.meta_model.xml_namespace
    snippets_xsd = dict(payload["snippets_xsd"])
    decls = "\n".join(f'    <xs:element name="{lcc(c.name)}" type="{lcc(c.name)}_t" />'
                      for c in concrete)
    snippets_xsd["root_element.xml"] = (
        '<xs:schema xmlns:xs="http://www.w3.org/2001/XMLSchema" '
        f'xmlns="{ns}" elementFormDefault="qualified" targetNamespace="{ns}">\n{decls}\n</xs:schema>\n')

    base = pathlib.Path(tempfile.mkdtemp(prefix="xsdrun-", dir=os.getcwd()))
    original_tmp = tempfile.gettempdir()

    def job(target, snippets, k):
        jt = base / f"tmp{k}"
        jt.mkdir()
        tempfile.tempdir = str(jt)
        try:
            return cli.run_job({"model_text": text, "target": target, "snippets": snippets},
                               base / f"job{k}", "text")
        finally:
            tempfile.tempdir = original_tmp

    res["stage"] = "xsd"
    rx = job("xsd", snippets_xsd, 0)
    res["xsd"] = {"rc": rx["rc"], "exception": rx["exception"], "stderr": rx["stderr"][:1500]}
    if rx["rc"] != 0 or rx["exception"] is not None:
        return res
    schema_text = rx["files"]["schema.xsd"]
    res["schema_sha"] = __import__("hashlib").sha256(schema_text.encode()).hexdigest()[:16]
    if payload.get("return_schema"):
        res["schema_text"] = schema_text

    # every pattern facet value (for the strict XSD-grammar check on the harness side)
    XS = "{http://www.w3.org/2001/XMLSchema}"
    sroot = ET.fromstring(schema_text)
    res["pattern_facets"] = sorted({p.attrib.get("value", "") for p in sroot.iter(XS + "pattern")})

    res["stage"] = "load-schema"
    schemas = []
    res["schema_errors"] = []
    for cls_ in (xmlschema.XMLSchema10, xmlschema.XMLSchema11):
        try:
            schemas.append(cls_(schema_text))
        except Exception as exc:  # noqa
            res["schema_errors"].append(
                f"{cls_.__name__}: {type(exc).__name__}: " + " ".join(str(exc).split())[:400])
    # second validator: libxml2
    xmllint = "/root/miniconda/bin/xmllint"
    if os.path.exists(xmllint):
        import subprocess
        (base / "schema.xsd").write_text(schema_text, encoding="utf-8")
        (base / "empty.xml").write_text("<zz/>", encoding="utf-8")
        pr = subprocess.run([xmllint, "--noout", "--schema", str(base / "schema.xsd"),
                             str(base / "empty.xml")], capture_output=True, text=True)
        if "failed to compile" in pr.stderr or "Schemas parser error" in pr.stderr:
            res["schema_errors"].append("xmllint: " + " ".join(pr.stderr.split())[:400])

    try:
        cbc, errors = infer_for_schema.infer_constraints_by_class(symbol_table=st)
    except BaseException as exc:  # noqa
        res["infer_exception"] = type(exc).__name__
        return res
    if errors is not None:
        res["infer_errors"] = [str(e)[:200] for e in errors]
        return res
    try:
        res["facets"] = extract_facets(schema_text, st, cbc, I)
    except Exception as exc:  # noqa
        res["facets_error"] = traceback.format_exc()[-1500:]
    if res["schema_errors"]:
        return res

    res["stage"] = "python"
    rp = job("python", payload["snippets_python"], 1)
    res["python"] = {"rc": rp["rc"], "exception": rp["exception"], "stderr": rp["stderr"][:800]}
    if rp["rc"] != 0 or rp["exception"] is not None:
        return res
    res["stage"] = "sdk-import"
    try:
        sdk = Sdk(rp["files"], base / "sdk")
    except BaseException as exc:  # noqa
        res["sdk_error"] = traceback.format_exc()[-1500:]
        return res

    res["stage"] = "documents"
    builder = Builder(st, cbc, sdk, rng)
    builder.harvest(text)
    stats = {"classes": len(concrete), "no_valid_instance": [], "attempts": 0,
             "mutants": {}, "docs_per_class": {}}
    plan = []
    if concrete:
        per = max(1, n_docs // len(concrete))
        for c in concrete:
            plan += [c] * per
        while len(plan) < n_docs:
            plan.append(rng.choice(concrete))
    no_valid = set()
    import time as _time
    t_start = _time.time()
    budget_s = payload.get("time_budget_s", 120)
    for cls in plan:
        if cls.name in no_valid:
            continue
        if _time.time() - t_start > budget_s:
            stats["time_budget_hit"] = True
            break
        inst, tried = builder.valid_instance(cls, attempts=25)
        stats["attempts"] += tried
        if inst is None:
            no_valid.add(cls.name)
            stats["no_valid_instance"].append([cls.name, getattr(builder, "last_errors", None)])
            builder.last_errors = None
            continue
        try:
            doc = sdk.xmlization.to_str(inst)
        except BaseException as exc:  # noqa
            res["valid_fail"].append({"kind": "sdk-write-exception", "cls": cls.name,
                                      "error": type(exc).__name__ + ": " + str(exc)[:200]})
            continue
        if len(doc) > 300000:
            stats["oversized_documents"] = stats.get("oversized_documents", 0) + 1
            continue
        res["docs"] += 1
        stats["docs_per_class"][cls.name] = stats["docs_per_class"].get(cls.name, 0) + 1
        bad = []
        validator_broke = False
        for sch in schemas:
            try:
                errs = [" ".join(str(e.reason or e.message).split())[:300] + " @ " + str(e.path)
                        for e in sch.iter_errors(doc)]
            except Exception as exc:  # noqa  (a limit of the validator is no verdict)
                validator_broke = True
                stats["validator_exceptions"] = stats.get("validator_exceptions", 0) + 1
                stats["validator_exception_sample"] = f"{type(exc).__name__}: {str(exc)[:160]}"
                break
            if errs:
                bad.append({"validator": type(sch).__name__, "errors": errs[:3]})
        if validator_broke:
            continue
        if bad:
            res["valid_fail"].append({"kind": "valid-document-rejected", "cls": cls.name,
                                      "document": doc[:4000], "verdicts": bad})
            continue
        if res.get("sample_doc") is None:
            res["sample_doc"] = doc[:1500]

        # ---- C14: single-constraint mutants ------------------------------------
        def accepted(text_):
            acc = []
            for sch in schemas:
                try:
                    if sch.is_valid(text_):
                        acc.append(type(sch).__name__)
                except Exception:  # noqa
                    pass
            return acc

        sites = collect_sites(builder, inst)
        rng.shuffle(sites)
        # prefer variety of kinds
        chosen, seen_kinds = [], set()
        for s_ in sites:
            if s_[1] not in seen_kinds:
                chosen.append(s_)
                seen_kinds.add(s_[1])
        for s_ in sites:
            if len(chosen) >= n_mut:
                break
            if s_ not in chosen:
                chosen.append(s_)
        for setter, kind, new, where in chosen[:max(n_mut, len(seen_kinds))]:
            undo = setter(new)
            try:
                mdoc = sdk.xmlization.to_str(inst)
            except BaseException as exc:  # noqa
                undo()
                continue
            undo()
            stats["mutants"][kind] = stats["mutants"].get(kind, 0) + 1
            acc = accepted(mdoc)
            if acc:
                res["mutant_fail"].append({
                    "kind": kind, "where": where, "cls": cls.name,
                    "new_value": new if isinstance(new, str) else repr(new)[:200],
                    "accepted_by": acc, "document": mdoc[:4000]})
        for kind, mdoc, note in xml_mutants(doc, cls, I, rng):
            stats["mutants"][kind] = stats["mutants"].get(kind, 0) + 1
            acc = accepted(mdoc)
            if acc:
                res["mutant_fail"].append({"kind": kind, "where": note, "cls": cls.name,
                                           "accepted_by": acc, "document": mdoc[:4000]})
    res["stats"] = stats
    res["stage"] = "done"
    shutil.rmtree(base, ignore_errors=True)
    return res


def run_chain(payload):
    """One hand-built meta-model in which one value carries several patterns and length
    bounds from different levels of a chain of constrained primitives. The expected
    constraints come from the harness (``spec``), not from ``infer_for_schema``."""
    import cli
    import frontend
    import xmlschema
    from aas_core_codegen import intermediate as I
    from aas_core_codegen.python import naming as pyn

    rng = random.Random(payload.get("seed", 0))
    text = payload["model_text"]
    spec = payload["spec"]
    res = {"stage": "frontend", "valid_fail": [], "mutant_fail": [], "stats": {}}
    st, _atok, rejection = frontend.load(text)
    if rejection is not None:
        res["frontend"] = rejection
        return res
    ns = st.meta_model.xml_namespace
    tag = lcc(spec["cls"])
    snippets_xsd = {"root_element.xml": (
        '<xs:schema xmlns:xs="http://www.w3.org/2001/XMLSchema" '
        f'xmlns="{ns}" elementFormDefault="qualified" targetNamespace="{ns}">\n'
        f'    <xs:element name="{tag}" type="{tag}_t" />\n</xs:schema>\n')}
    base = pathlib.Path(tempfile.mkdtemp(prefix="xsdchain-", dir=os.getcwd()))
    original_tmp = tempfile.gettempdir()

    def job(target, snippets, k):
        jt = base / f"tmp{k}"
        jt.mkdir()
        tempfile.tempdir = str(jt)
        try:
            return cli.run_job({"model_text": text, "target": target, "snippets": snippets},
                               base / f"job{k}", "text")
        finally:
            tempfile.tempdir = original_tmp

    res["stage"] = "xsd"
    rx = job("xsd", snippets_xsd, 0)
    res["xsd"] = {"rc": rx["rc"], "exception": rx["exception"], "stderr": rx["stderr"][:1500]}
    if rx["rc"] != 0 or rx["exception"] is not None:
        return res
    schema_text = rx["files"]["schema.xsd"]
    XS = "{http://www.w3.org/2001/XMLSchema}"
    sroot = ET.fromstring(schema_text)
    res["pattern_facets"] = [p_.attrib.get("value", "") for p_ in sroot.iter(XS + "pattern")]
    res["length_facets"] = [[e.tag[len(XS):], e.attrib.get("value")] for e in sroot.iter()
                            if e.tag in (XS + "minLength", XS + "maxLength")]
    res["stage"] = "load-schema"
    schemas = []
    res["schema_errors"] = []
    for cls_ in (xmlschema.XMLSchema10, xmlschema.XMLSchema11):
        try:
            schemas.append(cls_(schema_text))
        except Exception as exc:  # noqa
            res["schema_errors"].append(
                f"{cls_.__name__}: {type(exc).__name__}: " + " ".join(str(exc).split())[:400])
    if res["schema_errors"]:
        return res
    res["stage"] = "python"
    rp = job("python", payload["snippets_python"], 1)
    res["python"] = {"rc": rp["rc"], "exception": rp["exception"], "stderr": rp["stderr"][:800]}
    if rp["rc"] != 0 or rp["exception"] is not None:
        return res
    res["stage"] = "sdk-import"
    try:
        sdk = Sdk(rp["files"], base / "sdk")
    except BaseException:  # noqa
        res["sdk_error"] = traceback.format_exc()[-1500:]
        return res
    res["stage"] = "values"

    pats = spec["patterns"]
    lo, hi = spec["min"], spec["max"]
    trees = [parse_pattern(p_).get("ok") for p_ in pats]
    alpha = sorted(set(a for t in trees if t for a in alphabet_of(t)) | {ord(c) for c in "abxyABXYZNnm_"})

    def fails(s):
        """Indices of the violated constraints: patterns by index, 'min', 'max'."""
        out = [i for i, p_ in enumerate(pats) if re.match(p_, s) is None]
        if len(s) < lo:
            out.append("min")
        if hi is not None and len(s) > hi:
            out.append("max")
        return out

    def candidates(n):
        out = set()
        tries = 0
        while len(out) < n and tries < 40 * n:
            tries += 1
            t = rng.choice([t for t in trees if t])
            s = gen_from(t, rng, alpha)
            k = rng.random()
            if k < 0.5:
                s = mutate_string(s, rng, alpha)
            if k < 0.2:
                s = mutate_string(s, rng, alpha)
            if len(s) <= 40 and all(xml_char_no_break(ord(c)) and c not in "&<>" for c in s):
                out.add(s)
        return sorted(out)

    cands = candidates(payload.get("n_candidates", 2000))
    by_fail = {}
    for s in cands:
        by_fail.setdefault(tuple(map(str, fails(s))), []).append(s)
    valid = by_fail.get((), [])
    rng.shuffle(valid)
    klass = getattr(sdk.types, pyn.class_name(spec["cls"]))

    def document(code):
        inst = klass(marker="m", code=code)
        return inst, sdk.xmlization.to_str(inst)

    def accepted(doc):
        return [type(sch).__name__ for sch in schemas if sch.is_valid(doc)]

    stats = {"candidates": len(cands), "valid_values": 0, "sdk_disagrees": 0, "mutants": {},
             "no_single_violation_for": []}
    for s in valid[: payload.get("n_values", 12)]:
        inst, doc = document(s)
        errs = list(sdk.verification.verify(inst))
        if errs:
            stats["sdk_disagrees"] += 1
            res["valid_fail"].append({"kind": "sdk-rejects-spec-valid-value", "value": s,
                                      "errors": [str(e.cause)[:120] for e in errs[:2]]})
            continue
        stats["valid_values"] += 1
        acc = accepted(doc)
        if len(acc) < len(schemas):
            res["valid_fail"].append({"kind": "valid-value-rejected", "value": s, "document": doc,
                                      "accepted_by": acc})
    if spec["optional"]:
        inst, doc = document(None)
        if not list(sdk.verification.verify(inst)) and len(accepted(doc)) < len(schemas):
            res["valid_fail"].append({"kind": "valid-value-rejected", "value": None, "document": doc})
    kinds = [str(i) for i in range(len(pats))] + (["min"] if lo > 0 else []) + (["max"] if hi is not None else [])
    for k in kinds:
        pool = by_fail.get((k,), [])
        if not pool:
            stats["no_single_violation_for"].append(k)
            continue
        rng.shuffle(pool)
        label = f"pattern[{k}]={pats[int(k)]}" if k.isdigit() else k + "-length"
        for s in pool[:4]:
            inst, doc = document(s)
            sdk_errs = list(sdk.verification.verify(inst))
            if not sdk_errs:
                stats["sdk_disagrees"] += 1
                continue
            kk = "pattern" if k.isdigit() else "len-" + k
            stats["mutants"][kk] = stats["mutants"].get(kk, 0) + 1
            acc = accepted(doc)
            if acc:
                res["mutant_fail"].append({"kind": kk, "violates": label, "value": s,
                                           "accepted_by": acc, "document": doc})
    res["stats"] = stats
    res["stage"] = "done"
    shutil.rmtree(base, ignore_errors=True)
    return res


def main():
    payload = json.load(sys.stdin)
    mode = payload.get("mode")
    if mode == "patterns":
        out = run_patterns(payload)
    elif mode == "model":
        try:
            out = run_model(payload)
        except BaseException as exc:  # noqa
            if isinstance(exc, KeyboardInterrupt):
                raise
            out = {"stage": "adapter-exception", "traceback": traceback.format_exc()[-3000:]}
    elif mode == "chain":
        try:
            out = run_chain(payload)
        except BaseException as exc:  # noqa
            if isinstance(exc, KeyboardInterrupt):
                raise
            out = {"stage": "adapter-exception", "traceback": traceback.format_exc()[-3000:]}
    else:
        raise SystemExit(f"unknown mode {mode!r}")
    json.dump(out, sys.stdout)


if __name__ == "__main__":
    main()
