"""C08 adapter for the correspondence streams (run with the repository's interpreter).

mode "rules":     {"mode": "rules", "exprs": [source text of a Python expression]}
    -> per expression {"pyast": Coq term, "cls": 0|1|2 (Ok/Err/Crash), "tree": Coq term | null,
                       "exc": name | null}
    (``parse._rules.ast_node_to_our_node`` on ``ast.parse(text, mode="eval").body``).

mode "transpile": {"mode": "transpile", "models": [meta-model text]}
    -> per model {"status": ..., "cases": [{"owner":, "description":, "tree": Coq expr term,
                  "tyenv": Coq term, "cls": 0|1|2, "text": real output, "pyast": Coq term of
                  ast.parse(text), "toks": Coq term of its token list}]}
    (``_InvariantTranspiler.transform`` on the body of every invariant of the intermediate
    symbol table, after the real type inference).
All Coq terms are rendered here so that the harness never re-interprets Python ASTs.
"""
import ast
import io
import json
import pathlib
import sys
import tokenize

HERE = pathlib.Path(__file__).resolve().parent
sys.path.insert(0, str(HERE))

import frontend  # noqa: E402


def ctext(s):
    return "[" + ";".join(str(ord(c)) for c in s) + "]%N"


def cz(n):
    return f"({int(n)})%Z"


def clist(items):
    return "[" + "; ".join(items) + "]"


class Unsupported(Exception):
    pass


def float8(v):
    q = v * 8
    if q != int(q) or abs(q) > 10 ** 9:
        raise Unsupported(f"float {v!r} is not a small dyadic")
    return int(q)


# ---------------------------------------------------------------------------------------
# Python ast -> Coq pyast
# ---------------------------------------------------------------------------------------
CMP = {ast.Lt: "CLt", ast.LtE: "CLe", ast.Gt: "CGt", ast.GtE: "CGe", ast.Eq: "CEq", ast.NotEq: "CNe",
       ast.Is: "CIs", ast.IsNot: "CIsNot", ast.In: "CIn", ast.NotIn: "CNotIn"}
UN = {ast.Not: "UNot", ast.USub: "USub", ast.UAdd: "UAdd", ast.Invert: "UInvert"}


def pyast(n):
    if isinstance(n, ast.BoolOp):
        return f"(PBoolOp {'BAnd' if isinstance(n.op, ast.And) else 'BOr'} {clist(pyast(v) for v in n.values)})"
    if isinstance(n, ast.UnaryOp):
        return f"(PUnaryOp {UN[type(n.op)]} {pyast(n.operand)})"
    if isinstance(n, ast.Compare):
        rest = clist(f"({CMP[type(o)]}, {pyast(c)})" for o, c in zip(n.ops, n.comparators))
        return f"(PCompare {pyast(n.left)} {rest})"
    if isinstance(n, ast.Call):
        return f"(PCall {pyast(n.func)} {clist(pyast(a) for a in n.args)} {len(n.keywords)}%nat)"
    if isinstance(n, ast.GeneratorExp):
        gens = clist(f"({pyast(g.target)}, {pyast(g.iter)}, {clist(pyast(c) for c in g.ifs)})" for g in n.generators)
        return f"(PGeneratorExp {pyast(n.elt)} {gens})"
    if isinstance(n, ast.Attribute):
        return f"(PAttribute {pyast(n.value)} {ctext(n.attr)})"
    if isinstance(n, ast.Subscript):
        return f"(PSubscript {pyast(n.value)} {pyast(n.slice)})"
    if isinstance(n, ast.Name):
        return f"(PName {ctext(n.id)})"
    if isinstance(n, ast.Constant):
        v = n.value
        if v is None:
            return "(PConstant KNone)"
        if isinstance(v, bool):
            return f"(PConstant (KBool {'true' if v else 'false'}))"
        if isinstance(v, int):
            return f"(PConstant (KInt {cz(v)}))"
        if isinstance(v, float):
            return f"(PConstant (KFloat {cz(float8(v))}))"
        if isinstance(v, str):
            return f"(PConstant (KStr {ctext(v)}))"
        return "(PConstant KOther)"
    if isinstance(n, ast.JoinedStr):
        parts = []
        for p in n.values:
            if isinstance(p, ast.Constant):
                parts.append(f"(PJLit {ctext(p.value)})" if isinstance(p.value, str) else "PJLitNonStr")
            elif isinstance(p, ast.FormattedValue):
                spec = "false" if p.format_spec is None else "true"
                parts.append(f"(PJFmt {pyast(p.value)} {cz(p.conversion)} {spec})")
            else:
                parts.append("PJOtherExpr")
        return f"(PJoinedStr {clist(parts)})"
    if isinstance(n, ast.BinOp):
        op = "OAdd" if isinstance(n.op, ast.Add) else ("OSub" if isinstance(n.op, ast.Sub) else "OOther")
        return f"(PBinOp {op} {pyast(n.left)} {pyast(n.right)})"
    return "POther"


# ---------------------------------------------------------------------------------------
# parse.tree -> Coq expr
# ---------------------------------------------------------------------------------------
def tree_expr(n):
    from aas_core_codegen.parse import tree
    T = tree
    if isinstance(n, T.Member):
        return f"(Member {tree_expr(n.instance)} {ctext(n.name)})"
    if isinstance(n, T.Name):
        return f"(Name {ctext(n.identifier)})"
    if isinstance(n, T.Constant):
        v = n.value
        if isinstance(v, bool):
            return f"(Constant (CBool {'true' if v else 'false'}))"
        if isinstance(v, int):
            return f"(Constant (CInt {cz(v)}))"
        if isinstance(v, float):
            return f"(Constant (CFloat {cz(float8(v))}))"
        if isinstance(v, str):
            return f"(Constant (CStr {ctext(v)}))"
        raise Unsupported(f"constant {v!r}")
    if isinstance(n, T.Index):
        return f"(Index {tree_expr(n.collection)} {tree_expr(n.index)})"
    if isinstance(n, T.Comparison):
        op = {"LT": "Lt", "LE": "Le", "GT": "Gt", "GE": "Ge", "EQ": "Eq", "NE": "Ne"}[n.op.name]
        return f"(Comparison {op} {tree_expr(n.left)} {tree_expr(n.right)})"
    if isinstance(n, T.IsIn):
        return f"(IsIn {tree_expr(n.member)} {tree_expr(n.container)})"
    if isinstance(n, T.IsNone):
        return f"(IsNone {tree_expr(n.value)})"
    if isinstance(n, T.IsNotNone):
        return f"(IsNotNone {tree_expr(n.value)})"
    if isinstance(n, T.Not):
        return f"(Not {tree_expr(n.operand)})"
    if isinstance(n, T.And):
        return f"(And {clist(tree_expr(v) for v in n.values)})"
    if isinstance(n, T.Or):
        return f"(Or {clist(tree_expr(v) for v in n.values)})"
    if isinstance(n, T.Implication):
        return f"(Implication {tree_expr(n.antecedent)} {tree_expr(n.consequent)})"
    if isinstance(n, T.FunctionCall):
        return f"(FunctionCall {ctext(n.name.identifier)} {clist(tree_expr(a) for a in n.args)})"
    if isinstance(n, T.MethodCall):
        return (f"(MethodCall {tree_expr(n.member.instance)} {ctext(n.member.name)} "
                f"{clist(tree_expr(a) for a in n.args)})")
    if isinstance(n, T.Add):
        return f"(Add {tree_expr(n.left)} {tree_expr(n.right)})"
    if isinstance(n, T.Sub):
        return f"(Sub {tree_expr(n.left)} {tree_expr(n.right)})"
    if isinstance(n, (T.Any, T.All)):
        g = n.generator
        if isinstance(g, T.ForEach):
            gen = f"(ForEach {tree_expr(g.iteration)})"
        else:
            gen = f"(ForRange {tree_expr(g.start)} {tree_expr(g.end)})"
        k = "Any" if isinstance(n, T.Any) else "All"
        return f"({k} {ctext(g.variable.identifier)} {gen} {tree_expr(n.condition)})"
    if isinstance(n, T.JoinedStr):
        parts = [f"(JLit {ctext(v)})" if isinstance(v, str) else f"(JFmt {tree_expr(v.value)})" for v in n.values]
        return f"(JoinedStr {clist(parts)})"
    raise Unsupported(f"tree node {type(n).__name__}")


def run_rules(exprs):
    from aas_core_codegen.parse import _rules
    out = []
    for src in exprs:
        node = ast.parse(src, mode="eval").body
        rec = {"pyast": None, "cls": None, "tree": None, "exc": None}
        try:
            rec["pyast"] = pyast(node)
        except Unsupported as e:
            rec["exc"] = f"unsupported: {e}"
            out.append(rec)
            continue
        try:
            res, err = _rules.ast_node_to_our_node(node)
            if err is not None:
                rec["cls"] = 1
            else:
                rec["cls"] = 0
                rec["tree"] = tree_expr(res)
        except Unsupported as e:
            rec["exc"] = f"unsupported: {e}"
            rec["cls"] = None
        except BaseException as e:  # noqa
            if isinstance(e, KeyboardInterrupt):
                raise
            rec["cls"] = 2
            rec["exc"] = type(e).__name__
        out.append(rec)
    return out


# ---------------------------------------------------------------------------------------
# transpiler
# ---------------------------------------------------------------------------------------
def toks_of(text):
    out = []
    depth_f = 0
    for t in tokenize.generate_tokens(io.StringIO(text + "\n").readline):
        name = tokenize.tok_name[t.type]
        if name == "FSTRING_START":
            depth_f += 1
            if depth_f == 1:
                out.append("TkFStr")
            continue
        if name == "FSTRING_END":
            depth_f -= 1
            continue
        if depth_f > 0:
            continue
        if name in ("NL", "NEWLINE", "ENDMARKER", "INDENT", "DEDENT", "COMMENT"):
            continue
        if name == "OP":
            out.append(f"(TkOp {ctext(t.string)})")
        elif name == "NAME":
            out.append(f"(TkName {ctext(t.string)})")
        elif name == "NUMBER":
            v = ast.literal_eval(t.string)
            if isinstance(v, int):
                out.append(f"(TkInt {cz(v)})")
            else:
                out.append(f"(TkFloat {cz(float8(v))})")
        elif name == "STRING":
            if t.string[0] in "fF" or t.string[:2].lower() in ("rf", "fr"):
                out.append("TkFStr")
            else:
                out.append(f"(TkStr {ctext(ast.literal_eval(t.string))})")
        else:
            raise Unsupported(f"token {name} {t.string!r}")
    return clist(out)


def cty(anno, intermediate):
    I = intermediate
    if isinstance(anno, I.OptionalTypeAnnotation):
        return cty(anno.value, I)
    if isinstance(anno, I.ListTypeAnnotation):
        return f"(TyList {cty(anno.items, I)})"
    if isinstance(anno, I.OurTypeAnnotation):
        if isinstance(anno.our_type, I.Enumeration):
            return f"(TyEnum {ctext(anno.our_type.name)})"
        if isinstance(anno.our_type, (I.AbstractClass, I.ConcreteClass)):
            return f"(TyClass {ctext(anno.our_type.name)})"
    return "TyOther"


def tyenv_term(symbol_table, self_type, intermediate, pn, Identifier):
    I = intermediate
    naming = []
    classes = []
    for cls in symbol_table.classes:
        props = clist(f"({ctext(p.name)}, {cty(p.type_annotation, I)})" for p in cls.properties)
        meths = clist(f"({ctext(m.name)}, {cty(m.returns, I) if m.returns is not None else 'TyOther'})"
                      for m in cls.methods)
        classes.append(f"({ctext(cls.name)}, ({props}, {meths}))")
        for p in cls.properties:
            naming.append(("NProp", p.name, pn.property_name(Identifier(p.name))))
        for m in cls.methods:
            naming.append(("NMethod", m.name, pn.method_name(Identifier(m.name))))
    enums = []
    for en in symbol_table.enumerations:
        enums.append(f"({ctext(en.name)}, {clist(ctext(l.name) for l in en.literals)})")
        naming.append(("NEnum", en.name, pn.enum_name(Identifier(en.name))))
        for l in en.literals:
            naming.append(("NEnumLit", l.name, pn.enum_literal_name(Identifier(l.name))))
    consts = []
    for c in symbol_table.constants:
        consts.append(ctext(c.name))
        naming.append(("NConst", c.name, pn.constant_name(Identifier(c.name))))
    fns = []
    for f in symbol_table.verification_functions:
        ret = cty(f.returns, I) if f.returns is not None else "TyOther"
        fns.append(f"({ctext(f.name)}, {ret})")
        naming.append(("NFn", f.name, pn.function_name(Identifier(f.name))))
    for v in ("item", "i", "x", "that", "text", "value", "j", "an_item"):
        naming.append(("NVar", v, pn.variable_name(Identifier(v))))
    seen = set()
    rows = []
    for k, n, p in naming:
        if (k, n) in seen:
            continue
        seen.add((k, n))
        rows.append(f"({k}, {ctext(n)}, {ctext(p)})")
    return (f"(fun (ls : list (text * ty)) (lv : list text) (ar : list (text * text)) (chk : bool) => "
            f"mkTyenv ls lv {clist(consts)} {clist(fns)} {clist(enums)} {clist(classes)} "
            f"({clist(rows)} ++ map (fun x => (NVar, x, x)) lv) ar chk)")


def run_transpile(models):
    from aas_core_codegen import intermediate
    from aas_core_codegen.common import Identifier
    from aas_core_codegen.intermediate import type_inference as ti
    from aas_core_codegen.python import naming as pn
    from aas_core_codegen.python.lib import _generate_verification as gv
    out = []
    for text in models:
        ir, _atok, failure = frontend.load(text)
        if failure is not None:
            out.append({"status": failure["status"], "detail": str(failure)[-1500:], "cases": []})
            continue
        base_env = ti.populate_base_environment(symbol_table=ir)
        cases = []
        for our_type in ir.our_types:
            if isinstance(our_type, intermediate.Enumeration):
                continue
            if isinstance(our_type, intermediate.Class) and our_type.is_implementation_specific:
                continue
            env = ti.MutableEnvironment(parent=base_env)
            env.set(identifier=Identifier("self"), type_annotation=ti.OurTypeAnnotation(our_type=our_type))
            if isinstance(our_type, intermediate.ConstrainedPrimitive):
                self_type = "TyOther"
            else:
                self_type = f"(TyClass {ctext(our_type.name)})"
            tyenv = None
            for inv in our_type.invariants:
                if inv.specified_for is not our_type:
                    continue
                rec = {"owner": our_type.name, "description": inv.description, "cls": None, "text": None}
                try:
                    type_map, err = ti.infer_for_invariant(invariant=inv, environment=env)
                    if err is not None:
                        rec["skip"] = "type inference failed"
                        cases.append(rec)
                        continue
                    rec["tree"] = tree_expr(inv.body)
                    rec["ctx"] = (f"([({ctext('self')}, {self_type})], [], "
                                  f"[({ctext('self')}, {ctext('that')})], true)")
                    tr = gv._InvariantTranspiler(type_map=type_map, environment=env, symbol_table=ir)
                    try:
                        code, err = tr.transform(inv.body)
                    except BaseException as e:  # noqa
                        if isinstance(e, KeyboardInterrupt):
                            raise
                        rec["cls"] = 2
                        rec["exc"] = type(e).__name__
                        cases.append(rec)
                        continue
                    if err is not None:
                        rec["cls"] = 1
                    else:
                        rec["cls"] = 0
                        rec["text"] = str(code)
                        try:
                            parsed = ast.parse("(" + str(code) + "\n)", mode="eval").body
                            rec["pyast"] = pyast(parsed)
                            rec["toks"] = toks_of(str(code))
                        except SyntaxError as e:
                            rec["syntax_error"] = str(e)
                except Unsupported as e:
                    rec["skip"] = f"unsupported: {e}"
                cases.append(rec)
        # bodies of the transpilable verification functions (statement by statement)
        for fn in ir.verification_functions:
            if not isinstance(fn, intermediate.TranspilableVerification):
                continue
            try:
                inference, err = ti.infer_for_verification(verification=fn, base_environment=base_env)
                if err is not None:
                    cases.append({"owner": fn.name, "description": "<body>", "skip": "type inference failed",
                                  "cls": None})
                    continue
                tr = gv._TranspilableVerificationTranspiler(
                    type_map=inference.type_map, environment=inference.environment_with_args,
                    symbol_table=ir, verification=fn)
                args = clist(f"({ctext(a.name)}, {ctext(pn.argument_name(Identifier(a.name)))})"
                             for a in fn.arguments)
                arg_tys = [f"({ctext(a.name)}, {cty(a.type_annotation, intermediate)})" for a in fn.arguments]
                from aas_core_codegen.parse import tree as ptree
                for k, stmt in enumerate(fn.parsed.body):
                    value = getattr(stmt, "value", None)
                    if isinstance(stmt, (ptree.Return, ptree.Assignment)) and value is not None:
                        locals_now = sorted(tr._variable_name_set)
                        for v in locals_now:
                            assert pn.variable_name(Identifier(v)) == v or True
                        rec = {"owner": fn.name, "description": f"<statement {k}>", "cls": None, "text": None}
                        try:
                            rec["tree"] = tree_expr(value)
                            rec["ctx"] = (f"({clist(arg_tys + [f'({ctext(v)}, TyOther)' for v in locals_now])}, "
                                          f"{clist(ctext(v) for v in locals_now)}, {args}, false)")
                            rec["local_names"] = [[v, pn.variable_name(Identifier(v))] for v in locals_now]
                            try:
                                code, err = tr.transform(value)
                            except BaseException as e:  # noqa
                                if isinstance(e, KeyboardInterrupt):
                                    raise
                                rec["cls"], rec["exc"] = 2, type(e).__name__
                                cases.append(rec)
                                continue
                            if err is not None:
                                rec["cls"] = 1
                            else:
                                rec["cls"], rec["text"] = 0, str(code)
                                try:
                                    parsed = ast.parse("(" + str(code) + "\n)", mode="eval").body
                                    rec["pyast"] = pyast(parsed)
                                    rec["toks"] = toks_of(str(code))
                                except SyntaxError as e:
                                    rec["syntax_error"] = str(e)
                        except Unsupported as e:
                            rec["skip"] = f"unsupported: {e}"
                        if any(v != p for v, p in rec.get("local_names", [])):
                            rec["skip"] = "local variable renamed by variable_name"
                        cases.append(rec)
                    # the statement itself updates the set of local variables
                    try:
                        tr.transform(stmt)
                    except BaseException as e:  # noqa
                        if isinstance(e, KeyboardInterrupt):
                            raise
                        break
            except Unsupported:
                continue
        out.append({"status": "ok", "cases": cases,
                    "tyenv_fn": tyenv_term(ir, None, intermediate, pn, Identifier)})
    return out


def main():
    payload = json.load(sys.stdin)
    if payload["mode"] == "rules":
        json.dump(run_rules(payload["exprs"]), sys.stdout)
    elif payload["mode"] == "transpile":
        json.dump(run_transpile(payload["models"]), sys.stdout)
    else:
        raise ValueError(payload["mode"])


if __name__ == "__main__":
    main()
