"""C08 — Generated Python verification implements the invariants exactly."""
from __future__ import annotations

import ast
import collections
import json
import random

from harness import lib
from harness.gen import metamodel as mmg
from harness.gen import verify as vg
from harness.lib import coq_list, coq_nat, coq_option, coq_pair, coq_text, coq_z

META = {
    "title": "Generated Python verification implements the invariants exactly",
    "design_ref": "§4 C08",
    "level_text": (
        "Coq theorems for all expressions and environments over Gallina models of the two translation "
        "steps and of the SDK's verify: ast_rules_sound (parse/_rules.py: the tree has the Python value of "
        "the lambda; the rules as found are refuted by a dropped comprehension filter), verify_spec_exact "
        "(an error (description, path) iff an invariant of the owner at that path is false; raises only where "
        "an invariant raises), wrap_preserves_description, and side conditions over the tables re-translated "
        "from the source on every run (comparison map, no-parentheses tuples, rule order), transpile_sound "
        "(the written Python expression has, in the SDK environment, the renamed value / the same exception as the "
        "invariant). The transpiler model is tied to python/transpilation.py structurally: its target AST equals Python's own parse of "
        "the real output and its token list equals the real tokens. The property statement itself is run on "
        "the real generated SDK against eval of the source lambdas."
    ),
    "level_note": (
        "transpile_sound is proved for all expressions (values and exceptions, up to an injective renaming of "
        "identifiers; side conditions: naming injective, loop variables capture neither `that`, the modules, "
        "functions nor `range`/`len`). Partial: the text generator _generate_verification.py and the path "
        "rendering are only corresponded; members of objects and enumerations are renamed by one function. Trusted: "
        "Python's ast/tokenize, the hand-written models beyond the sampled inputs."
    ),
    "technique": "Coq proof (structural induction; simulation of the walk) + translated tables + in-Coq "
                 "correspondence + direct oracle on the generated SDK",
}
GEN = ["GenPyTranspile", "GenWrap"]
MODEL = ["Model/AstRules", "Model/PyTranspile", "Model/PyTranspileRename", "Model/VerifySpec", "Gen/GenPyTranspile"]
TRUSTED = [
    "Model/AstRules.v, Model/PyTranspile.v, Model/VerifySpec.v are hand-written models (correspondence-checked "
    "against parse._rules.ast_node_to_our_node, _InvariantTranspiler.transform and the generated verify)",
    "Model/PyEval.v is Python's semantics of the invariant dialect (owned and corresponded by C07)",
    "harness/translate/pytranspile.py (tables of transpilation.py / _rules.py) via Python's ast",
    "Python's ast.parse / tokenize read the transpiler's output the way the interpreter does",
    "harness/gen/metamodel.py renders the abstract meta-model to the source text the front end reads",
]
RULE = ("oracle case = (meta-model, instance): meta-models of the shared generator enriched with invariants for "
        "every parenthesisation context; instances valid / violating exactly one invariant / unconstrained, with "
        "boundary values (constants of the invariants +-1) and None where Optional; non-trivial = at least one "
        "invariant is false or raises; distinct by (model, instance). rules case = a Python expression (accepted "
        "forms and near misses); transpile case = an invariant of a generated model")


# ---------------------------------------------------------------------------------------
# Coq side
# ---------------------------------------------------------------------------------------
HDR = """From Coq Require Import List NArith ZArith Bool.
From Acg Require Import Base.Str Base.Outcome Model.Tree Model.PyEval Model.AstRules
  Model.PyTranspileKinds Model.PyTranspile Model.VerifySpec Gen.GenPyTranspile.
Import ListNotations.
Local Open Scope nat_scope.
"""

HDR_RULES = HDR + """
Definition case_ok (c : pyast * nat * option expr) : bool :=
  match c with
  | (a, cls, t) =>
      let m := ast_to_tree true a in
      Nat.eqb (outcome_class m) cls &&
      match m, t with
      | Ok e, Some e' => expr_eqb e e'
      | Ok _, None => false
      | _, _ => true
      end
  end.
Fixpoint bad_from (i : nat) (cs : list (pyast * nat * option expr)) : list nat :=
  match cs with [] => [] | c :: r => if case_ok c then bad_from (S i) r else i :: bad_from (S i) r end.
Definition bad := bad_from 0.
Open Scope N_scope.
"""

HDR_TR = """
Definition ctx_t : Type := (list (text * ty) * list text * list (text * text) * bool)%type.
Definition case_ok (c : nat * ctx_t * expr * nat * option (pyast * list tok)) : bool :=
  match c with
  | (mi, (ls, lv, ar, chk), e, cls, impl) =>
      let m := transpile gen_ptables
                 (nth mi the_Gs (fun _ _ _ _ => mkTyenv [] [] [] [] [] [] [] [] false) ls lv ar chk) e in
      Nat.eqb (outcome_class m) cls &&
      match m, impl with
      | Ok e', Some (a, ts) => pyast_eqb (strip_parens e') a && list_eqb tok_eqb (print_toks e') ts
      | Ok _, None => false
      | _, _ => true
      end
  end.
Fixpoint bad_from (i : nat) (cs : list (nat * ctx_t * expr * nat * option (pyast * list tok))) : list nat :=
  match cs with [] => [] | c :: r => if case_ok c then bad_from (S i) r else i :: bad_from (S i) r end.
Definition bad := bad_from 0.
Open Scope N_scope.
"""

HDR_SPEC = HDR + """
Definition tbl := list (text * list (nat * text)).
Fixpoint look {A} (k : text) (l : list (text * A)) (d : A) : A :=
  match l with [] => d | (k', a) :: r => if text_eqb k k' then a else look k r d end.
Definition mk_vmm (ci : tbl) (cp : list (text * list (text * vty))) (pi : tbl) : vmm :=
  mkVmm (fun c => look c ci []) (fun c => look c cp []) (fun t => look t pi []).
(* the truth of the invariants as observed by evaluating the source lambdas; objects are
   identified by their oid (the table lists them without their fields) *)
Definition same_subject (w v : value) : bool :=
  match w, v with
  | VObj i _ _, VObj j _ _ => Nat.eqb i j
  | _, _ => value_eqb w v
  end.
Fixpoint ev_of (tb : list (nat * value * pyresult)) (id : nat) (v : value) : pyresult :=
  match tb with
  | [] => Raise Malformed
  | (i, w, r) :: rest => if Nat.eqb i id && same_subject w v then r else ev_of rest id v
  end.
Fixpoint count_in (x : text * path) (l : list (text * path)) : nat :=
  match l with [] => 0 | y :: r => (if text_eqb (fst x) (fst y) && path_eqb (snd x) (snd y) then 1 else 0) + count_in x r end.
Definition same_multiset (a b : list (text * path)) : bool :=
  Nat.eqb (length a) (length b) && forallb (fun x => Nat.eqb (count_in x a) (count_in x b)) a.
"""

HDR_SPEC_TAIL = """
Definition case_ok (c : nat * value * list (nat * value * pyresult) * vres) : bool :=
  match c with
  | (mi, v, tb, impl) =>
      match verify_spec (nth mi the_models (mk_vmm [] [] [])) (ev_of tb) (S (value_depth v)) v, impl with
      | VErrors a, VErrors b => same_multiset a b
      | VRaise _, VRaise _ => true
      | _, _ => false
      end
  end.
Fixpoint bad_from (i : nat) (cs : list (nat * value * list (nat * value * pyresult) * vres)) : list nat :=
  match cs with [] => [] | c :: r => if case_ok c then bad_from (S i) r else i :: bad_from (S i) r end.
Definition bad := bad_from 0%nat.
Open Scope N_scope.
"""


def cvalue(v, shallow: bool = False) -> str:
    if v is None:
        return "VNone"
    if isinstance(v, bool):
        return f"(VBool {'true' if v else 'false'})"
    if isinstance(v, int):
        return f"(VInt {coq_z(v)})"
    if isinstance(v, str):
        return f"(VStr {coq_text(v)})"
    if isinstance(v, list):
        return f"(VList {coq_list(cvalue(x) for x in v)})"
    if "f" in v:
        q = v["f"] * 8
        assert q == int(q)
        return f"(VFloat {coq_z(int(q))})"
    if "b" in v:
        return f"(VBytes {coq_list(str(b) + '%N' for b in bytes.fromhex(v['b']))})"
    if "enum" in v:
        return f"(VEnum {coq_text(v['enum'])} {coq_text(v['lit'])})"
    if "cls" in v:
        fields = "[]" if shallow else coq_list(f"({coq_text(k)}, {cvalue(x)})" for k, x in v["fields"])
        return f"(VObj {coq_nat(v['oid'] % 4000)} {coq_text(v['cls'])} {fields})"
    raise ValueError(v)


EXN = {"IndexError": "IndexErr", "TypeError": "TypeErr", "AttributeError": "AttrErr", "NameError": "NameErr",
       "ValueError": "ValueErr", "TypeError:None": "NoneDeref", "AttributeError:None": "NoneDeref"}


def cpath(p: str) -> str:
    """'.a[3].b' -> [SPName a; SIdx 3; SPName b]"""
    segs = []
    i = 0
    while i < len(p):
        if p[i] == ".":
            j = i + 1
            while j < len(p) and p[j] not in ".[":
                j += 1
            segs.append(f"SPName {coq_text(p[i + 1:j])}")
            i = j
        elif p[i] == "[":
            j = p.index("]", i)
            segs.append(f"SIdx {coq_nat(int(p[i + 1:j]))}")
            i = j + 1
        else:
            raise ValueError(p)
    return coq_list(segs)


def cvres(r) -> str:
    if "raise" in r:
        name = r["raise"] if isinstance(r["raise"], str) else r["raise"][0]
        return f"(VRaise {EXN.get(name, 'Malformed')})"
    return "(VErrors " + coq_list(f"({coq_text(d)}, {cpath(p)})" for d, p in r["errors"]) + ")"


def cvty(kind, cp) -> str:
    return {"other": "VtOther", "class": "VtClass", "list_class": "VtListClass"}.get(kind) or (
        f"(VtCPrim {coq_text(cp)})" if kind == "cprim" else f"(VtListCPrim {coq_text(cp)})")


# ---------------------------------------------------------------------------------------
# the probe for the dropped comprehension filter (hand-built meta-model, always run first)
# ---------------------------------------------------------------------------------------
def filter_probe() -> dict:
    doc = mmg.Doc("Provide a probe for the filters of comprehensions.")
    cls = mmg.Class(
        "Probe", properties=[mmg.Property("numbers", mmg.TList(mmg.TPrim("int")), mmg.Doc("Hold the numbers."))],
        doc=mmg.Doc("Represent a probe."))
    body = mmg.All(mmg.ForEach("x", mmg.Member(mmg.Name("self"), "numbers")), mmg.Cmp(">", mmg.Name("x"), mmg.Const(0)))
    cls.invariants.append(mmg.Invariant(
        "Probe-1: the numbers other than 5 shall be positive", body, form="c08:filter",
        source_override="all(x > 0 for x in self.numbers if x != -5)"))
    mm = mmg.MetaModel(doc, "dummy", "https://example.com/mm", classes=[cls], decl_order=["Probe"])
    insts = [{"cls": "Probe", "oid": k + 1, "fields": {"numbers": ns}}
             for k, ns in enumerate([[-5], [1, -5, 2], [1, 2], [-1], [], [-5, -5, 0]])]
    return {"mm": mmg.dumps(mm), "instances": insts, "pattern_cases": {}, "fn_cases": {}, "spec_cases": 0}


def that_probe() -> dict:
    """A quantifier whose variable is called ``that``: in the generated code it would capture the
    instance under verification (the side condition [var_ok] of transpile_sound)."""
    doc = mmg.Doc("Provide a probe for the capture of the instance by a loop variable.")
    cls = mmg.Class(
        "Probe", properties=[mmg.Property("numbers", mmg.TList(mmg.TPrim("int")), mmg.Doc("Hold the numbers.")),
                             mmg.Property("bound", mmg.TPrim("int"), mmg.Doc("Hold the bound."))],
        doc=mmg.Doc("Represent a probe."))
    body = mmg.All(mmg.ForEach("that", mmg.Member(mmg.Name("self"), "numbers")),
                   mmg.Cmp(">", mmg.Member(mmg.Name("self"), "bound"), mmg.Name("that")))
    cls.invariants.append(mmg.Invariant("Probe-2: the bound shall exceed the numbers", body, form="c08:that"))
    mm = mmg.MetaModel(doc, "dummy", "https://example.com/mm", classes=[cls], decl_order=["Probe"])
    insts = [{"cls": "Probe", "oid": k + 1, "fields": {"numbers": ns, "bound": b}}
             for k, (ns, b) in enumerate([([1, 2], 5), ([7], 5), ([], 0)])]
    return {"mm": mmg.dumps(mm), "instances": insts, "pattern_cases": {}, "fn_cases": {}, "spec_cases": 0}


def module_probe() -> dict:
    """A quantifier whose variable is called ``aas_types`` while its body mentions an enumeration:
    in the generated code the variable would capture the module ``aas_types``."""
    doc = mmg.Doc("Provide a probe for the capture of a module by a loop variable.")
    en = mmg.Enumeration("Color", [mmg.EnumLiteral("Red", "Red"), mmg.EnumLiteral("Blue", "Blue")],
                         mmg.Doc("Enumerate the colors."))
    cls = mmg.Class(
        "Probe", properties=[mmg.Property("numbers", mmg.TList(mmg.TPrim("int")), mmg.Doc("Hold the numbers.")),
                             mmg.Property("kind", mmg.TOur("Color"), mmg.Doc("Hold the kind."))],
        doc=mmg.Doc("Represent a probe."))
    body = mmg.All(mmg.ForEach("aas_types", mmg.Member(mmg.Name("self"), "numbers")),
                   mmg.Or((mmg.Cmp("==", mmg.Member(mmg.Name("self"), "kind"), mmg.Member(mmg.Name("Color"), "Red")),
                           mmg.Cmp(">", mmg.Name("aas_types"), mmg.Const(0)))))
    cls.invariants.append(mmg.Invariant("Probe-3: the kind shall be red or the numbers positive", body, form="c08:module"))
    mm = mmg.MetaModel(doc, "dummy", "https://example.com/mm", enumerations=[en], classes=[cls],
                       decl_order=["Color", "Probe"])
    insts = [{"cls": "Probe", "oid": k + 1, "fields": {"numbers": ns, "kind": {"enum": "Color", "lit": lit}}}
             for k, (ns, lit) in enumerate([([1, 2], "Blue"), ([0], "Blue"), ([0], "Red"), ([], "Blue")])]
    return {"mm": mmg.dumps(mm), "instances": insts, "pattern_cases": {}, "fn_cases": {}, "spec_cases": 0}


def shadow_probe() -> dict:
    """Transpilable verification functions whose arguments are called like a constant, a constant
    set, an enumeration, another verification function and a class; one that legitimately reads a
    constant; one with local variables. In Python arguments and locals shadow the globals."""
    N, C = mmg.Name, mmg.Const
    doc = mmg.Doc("Provide a probe for the name resolution in verification functions.")
    en = mmg.Enumeration("Color", [mmg.EnumLiteral("Red", "Red"), mmg.EnumLiteral("Blue", "Blue")],
                         mmg.Doc("Enumerate the colors."))
    consts = [mmg.ConstantPrimitive("limit", "int", 3, mmg.Doc("Define the default limit.")),
              mmg.ConstantSet("Allowed_numbers", "int", [1, 2, 3], doc=mmg.Doc("Define the allowed numbers."))]
    i = mmg.TPrim("int")

    def fn(name, arg, body):
        return mmg.VerificationFunction(name, "transpilable", [(arg, i)], body=body)
    fns = [
        fn("is_small", "value", mmg.Cmp("<", N("value"), C(5))),
        fn("is_acceptable_limit", "limit", mmg.And((mmg.Cmp("<=", C(0), N("limit")), mmg.Cmp("<=", N("limit"), C(10))))),
        fn("is_allowed", "Allowed_numbers", mmg.Cmp(">", N("Allowed_numbers"), C(1))),
        fn("is_colorful", "Color", mmg.Cmp("!=", N("Color"), C(2))),
        fn("is_tiny", "is_small", mmg.Cmp("<", N("is_small"), C(2))),
        fn("is_probing", "Probe", mmg.Cmp(">=", N("Probe"), C(0))),
        fn("is_above_default", "value", mmg.Cmp(">=", N("value"), N("limit"))),
        fn("is_big_in_total", "value", mmg.Cmp(">", mmg.Add(N("value"), N("limit")), C(7))),
    ]
    cls = mmg.Class(
        "Probe", properties=[mmg.Property("amount", i, mmg.Doc("Hold the amount."))], doc=mmg.Doc("Represent a probe."))
    me = mmg.Member(N("self"), "amount")
    for k, f in enumerate(fns):
        cls.invariants.append(mmg.Invariant(f"Probe-4.{k}: the amount shall satisfy {f.name}",
                                            mmg.Call(f.name, (me,)), form="c08:shadow_probe"))
    cls.invariants.append(mmg.Invariant("Probe-4.9: the amount shall not be below the limit",
                                        mmg.Cmp(">=", me, N("limit")), form="c08:shadow_probe"))
    mm = mmg.MetaModel(doc, "dummy", "https://example.com/mm", enumerations=[en], classes=[cls], constants=consts,
                       verification_functions=fns, decl_order=["Color", "Probe"])
    text = mmg.render_source(mm)
    old = "    return (value + limit) > 7"
    assert old in text, "rendering of the probe changed"
    text = text.replace(old, "    doubled = value + value\n    total = doubled + limit\n    return total > 7")
    values = [-2, -1, 0, 1, 2, 3, 4, 5, 7, 9, 10, 11, 50]
    insts = [{"cls": "Probe", "oid": k + 1, "fields": {"amount": v}} for k, v in enumerate(values)]
    return {"mm": mmg.dumps(mm), "model_text": text, "instances": insts, "pattern_cases": {},
            "fn_cases": {f.name: values for f in fns}, "spec_cases": 0}


def paren_probe() -> dict:
    """Every parenthesisation context of the transpiler with simple / compound operands on either
    side, on an exhaustive small set of instances (deterministic; the generated models add variety)."""
    import itertools
    N, C, M = mmg.Name, mmg.Const, mmg.Member
    Cmp, And, Or, Not, Imp, Call = mmg.Cmp, mmg.And, mmg.Or, mmg.Not, mmg.Implies, mmg.Call
    s = N("self")
    flag, other, value, count, name, items = (M(s, n) for n in ("flag", "other", "value", "count", "name", "items"))
    pos, cpos = Cmp(">", value, C(0)), Cmp(">", count, C(0))
    allowed = N("Allowed_numbers")
    item, i = N("item"), N("i")
    bodies = [
        Cmp("==", flag, pos), Cmp("==", pos, flag), Cmp("==", flag, mmg.IsNone(name)), Cmp("!=", flag, Not(other)),
        Cmp("==", pos, cpos), Cmp("!=", flag, mmg.IsNotNone(name)), Cmp("==", flag, mmg.IsIn(value, allowed)),
        Cmp("==", Or((flag, other)), flag), Cmp("==", flag, Or((flag, other))), Cmp("==", flag, And((other, pos))),
        Cmp(">", mmg.Sub(value, mmg.Sub(count, C(1))), C(0)), Cmp(">=", mmg.Sub(value, mmg.Add(count, C(1))), C(0)),
        Cmp("!=", mmg.Sub(mmg.Sub(value, count), C(1)), C(0)), Cmp("<", mmg.Add(value, mmg.Sub(count, C(2))), C(1)),
        Cmp("<=", C(1), mmg.Sub(C(3), mmg.Sub(value, count))),
        Not(Or((flag, other))), Not(Imp(flag, other)), Not(And((flag, other))), Not(pos), Not(Not(flag)),
        Imp(And((flag, other)), pos), Imp(Or((flag, other)), pos), Imp(Imp(flag, other), pos),
        Imp(flag, Imp(other, pos)), Imp(flag, Or((other, pos))), Imp(flag, And((other, pos))), Imp(pos, flag),
        Imp(Not(flag), other), Imp(Cmp("==", flag, other), pos),
        And((Or((flag, other)), pos)), Or((And((flag, other)), pos, Not(other))), Or((Not(flag), other, pos)),
        And((Imp(flag, other), pos)), Or((Imp(flag, pos), other, cpos)), And((Not(flag), Not(other))),
        Imp(mmg.IsNotNone(name), Cmp("==", flag, Cmp(">", Call("len", (name,)), C(1)))),
        Or((mmg.IsNone(name), Cmp("!=", Call("len", (name,)), mmg.Sub(value, C(1))))),
        mmg.IsIn(mmg.Add(value, C(1)), allowed), Not(mmg.IsIn(value, allowed)),
        Imp(mmg.IsIn(value, allowed), flag), Or((mmg.IsIn(count, allowed), flag, other)),
        mmg.All(mmg.ForEach("item", items), Imp(Cmp(">", item, C(0)), Cmp(">", item, count))),
        mmg.AnyOf(mmg.ForEach("item", items), Not(Or((Cmp(">", item, C(0)), flag)))),
        mmg.All(mmg.ForRange("i", C(1), Call("len", (items,))),
                Cmp("<=", mmg.Index(items, mmg.Sub(i, C(1))), mmg.Index(items, i))),
        mmg.AnyOf(mmg.ForRange("i", C(0), mmg.Sub(Call("len", (items,)), C(1))),
                  Cmp("==", mmg.Index(items, i), mmg.Sub(value, mmg.Sub(count, C(1))))),
        Cmp("==", flag, mmg.All(mmg.ForEach("item", items), Cmp(">", item, C(0)))),
        Not(mmg.AnyOf(mmg.ForEach("item", items), Cmp("==", item, value))),
    ]
    doc = mmg.Doc("Provide a probe for the parentheses of the transpiler.")
    t_int, t_bool = mmg.TPrim("int"), mmg.TPrim("bool")
    cls = mmg.Class("Probe", properties=[
        mmg.Property("flag", t_bool, mmg.Doc("Hold the flag.")), mmg.Property("other", t_bool, mmg.Doc("Hold the other flag.")),
        mmg.Property("value", t_int, mmg.Doc("Hold the value.")), mmg.Property("count", t_int, mmg.Doc("Hold the count.")),
        mmg.Property("name", mmg.TOpt(mmg.TPrim("str")), mmg.Doc("Hold the name.")),
        mmg.Property("items", mmg.TList(t_int), mmg.Doc("Hold the items."))], doc=mmg.Doc("Represent a probe."))
    for k, b in enumerate(bodies):
        cls.invariants.append(mmg.Invariant(f"Probe-5.{k}: the values shall be consistent", b, form="c08:paren_probe"))
    consts = [mmg.ConstantSet("Allowed_numbers", "int", [1, 2, 3], doc=mmg.Doc("Define the allowed numbers."))]
    mm = mmg.MetaModel(doc, "dummy", "https://example.com/mm", classes=[cls], constants=consts, decl_order=["Probe"])
    insts = []
    for k, (f, o, v, c, n, it) in enumerate(itertools.product(
            [True, False], [True, False], [-1, 0, 1, 2], [0, 1, 2], [None, "", "ab"], [[], [1], [0, 2], [2, 1]])):
        insts.append({"cls": "Probe", "oid": k + 1,
                      "fields": {"flag": f, "other": o, "value": v, "count": c, "name": n, "items": it}})
    return {"mm": mmg.dumps(mm), "instances": insts, "pattern_cases": {}, "fn_cases": {}, "spec_cases": 0}


def same_errors(impl, exp) -> bool:
    if "raise" in exp:
        return "raise" in impl and impl["raise"] in exp["raise"]
    return "errors" in impl and sorted(map(tuple, impl["errors"])) == sorted(map(tuple, exp["errors"]))


def streams(ctx: lib.Ctx) -> None:
    import sys, time
    t0 = time.time()

    def lap(what):
        print(f"[C08] {what}: {time.time() - t0:.0f}s", file=sys.stderr)
    rng = random.Random(ctx.rng.getrandbits(64))
    n_models = ctx.n(6, 40)
    n_inst = ctx.n(50, 200)

    # ---------------------------------------------------------------- direct oracle
    jobs = [filter_probe(), that_probe(), module_probe(), paren_probe(), shadow_probe()]
    metas = [("filter_probe", {}, {}), ("that_probe", {}, {}), ("module_probe", {}, {}), ("paren_probe", {}, {}),
             ("shadow_probe", {}, {})]
    n_probes = len(jobs)
    for k in range(n_models):
        base = "small" if (k % 3 or not ctx.thorough) else "medium"
        mm, hist = vg.make_metamodel(rng, base)
        inst, ih = vg.balanced_instances(mm, rng, n_inst)
        pats = {f.name: vg.pattern_strings(rng, f.pattern, ctx.n(40, 120))
                for f in mm.verification_functions if f.kind == "pattern"}
        jobs.append({"mm": mmg.dumps(mm), "instances": inst, "pattern_cases": pats,
                     "fn_cases": vg.fn_cases(mm, rng, ctx.n(25, 80)), "spec_cases": ctx.n(6, 20)})
        metas.append((f"model{k}", hist, ih))
    lap('generated')
    results = []
    B = 10
    for k in range(0, len(jobs), B):
        results += lib.impl_call("pyverify.py", {"jobs": jobs[k:k + B]}, timeout=3000)

    lap('oracle run')
    n_eval = n_mismatch = n_pat = n_fn = 0
    shapes = collections.Counter()
    forms = collections.Counter()
    both_ways = total_invs = 0
    nontrivial = []
    spec_models, spec_cases, spec_inputs = [], [], []
    for (name, hist, ih), job, res in zip(metas, jobs, results):
        forms.update(hist)
        if res["status"] == "rejected" and name in ("filter_probe", "that_probe", "module_probe"):
            shapes["probe_rejected_by_repaired_code"] += 1     # the repaired code refuses the construct
            continue
        if res["status"] != "ok":
            if res["status"] in ("crash", "import_error"):
                ctx.impl_failure(f"sdk-{res['status']}-{lib.stable_key(job['mm'])}",
                                 f"the Python generator / generated SDK fails ({res['status']})",
                                 {"mm": json.loads(job["mm"])}, str(res.get("detail"))[-2000:], "oracle")
            else:
                raise lib.HarnessError(f"C08: generated meta-model {name} not accepted: {str(res.get('detail'))[-1500:]}")
            continue
        mmj = None
        for idx, (desc, r) in enumerate(zip(job["instances"], res["instances"])):
            n_eval += 1
            exp, impl = r["expected"], r["impl"]
            if "raise" in exp:
                shapes["raise"] += 1
            else:
                shapes["valid" if r["n_false"] == 0 else ("single" if r["n_false"] == 1 else "multi")] += 1
            if r["n_false"] or r["n_raise"]:
                nontrivial.append((name, idx))
            if not same_errors(impl, exp):
                n_mismatch += 1
                if n_mismatch <= 5:
                    mmj = mmj or mmg.loads(job["mm"])
                    key = {"filter_probe": "comprehension-filter-dropped",
                           "that_probe": "loop-variable-captures-that",
                           "module_probe": "loop-variable-captures-module",
                           "paren_probe": "parenthesisation-probe",
                           "shadow_probe": "argument-does-not-shadow-global"}.get(name) or (
                        f"verify-differs-{lib.stable_key(job['mm'], idx)}")
                    ctx.impl_failure(
                        key, "verification.verify(instance) differs from eval of the invariant lambdas",
                        {"meta_model_source": mmg.render_source(mmj), "instance": desc},
                        {"verify": impl, "lambdas": exp}, "oracle",
                        "generate the python SDK for meta_model_source, build the instance, compare "
                        "[(e.cause, str(e.path)) for e in verification.verify(instance)] with the lambdas")
        n_pat += res["n_patterns"]
        n_fn += res["n_fns"]
        for p in res["patterns"][:3]:
            ctx.impl_failure(f"pattern-fn-differs-{lib.stable_key(p['pattern'], p['arg'])}",
                             "generated pattern verification function differs from the original function",
                             p, None, "oracle")
        for p in res["fns"][:3]:
            ctx.impl_failure(f"transpiled-fn-differs-{lib.stable_key(p['fn'], p['arg'])}",
                             "generated verification function differs from the original function", p, None, "oracle")
        for st in res.get("inv_stats", []):
            total_invs += 1
            both_ways += 1 if st[0] and st[1] else 0
        # VerifySpec correspondence cases
        sp = res.get("spec")
        if sp:
            ci = coq_list(f"({coq_text(c)}, {coq_list(f'({coq_nat(i)}, {coq_text(d)})' for i, d in t['invs'])})"
                          for c, t in sp["tables"]["classes"].items())
            cp = coq_list(f"({coq_text(c)}, {coq_list(f'({coq_text(n)}, {cvty(k, q)})' for n, k, q in t['props'])})"
                          for c, t in sp["tables"]["classes"].items())
            pi = coq_list(f"({coq_text(c)}, {coq_list(f'({coq_nat(i)}, {coq_text(d)})' for i, d in invs)})"
                          for c, invs in sp["tables"]["cprims"].items())
            spec_models.append(f"mk_vmm {ci} {cp} {pi}")
            mi = len(spec_models) - 1
            mcases, minputs = [], []
            for case in sp["cases"]:
                try:
                    tb = coq_list(
                        f"({coq_nat(i)}, {cvalue(v, shallow=True)}, "
                        + (f"Val (VBool {'true' if r['val'] else 'false'})" if "val" in r
                           else f"Raise {EXN.get(r['raise'], 'Malformed')}") + ")"
                        for i, v, r in case["truth"])
                    mcases.append(coq_pair(coq_nat(mi), cvalue(case["value"]), tb, cvres(case["impl"])))
                    minputs.append({"model": name, "value": case["value"], "impl": case["impl"]})
                except (AssertionError, ValueError):
                    continue
            spec_cases += mcases
            spec_inputs += minputs
    ctx.count("oracle", n_eval + n_pat + n_fn, nontrivial_keys=nontrivial, validated=n_eval,
              models=len(jobs), instances=n_eval, instance_shapes=dict(shapes), extra_invariant_forms=dict(forms),
              invariants_seen_true_and_false=f"{both_ways}/{total_invs}", pattern_calls=n_pat,
              function_calls=n_fn, mismatches=n_mismatch)
    ctx.sample({"oracle_instance": jobs[-1]["instances"][0] if jobs[-1]["instances"] else None})

    hdr = (HDR_SPEC + "Open Scope N_scope.\nDefinition the_models : list vmm := [\n" + ";\n".join(spec_models)
           + "].\n" + HDR_SPEC_TAIL)
    bad, _ = lib.run_cases(ctx.work, "spec", hdr, "nat * value * list (nat * value * pyresult) * vres",
                           "bad", spec_cases, shard=max(8, len(spec_cases) // 6 + 1))
    for i in bad[:5]:
        ctx.corr_break("verify_spec", spec_inputs[i], "verify_spec differs (see Model/VerifySpec.v)",
                       spec_inputs[i]["impl"])
    ctx.count("verify_spec", len(spec_cases), validated=len(spec_cases))

    lap('spec')
    # ---------------------------------------------------------------- rules (a0)
    exprs = list(vg.RULE_CORPUS)
    for _ in range(ctx.n(400, 4000)):
        exprs.append(vg.random_py_expr(rng, rng.choice([2, 3, 3, 4])))
    ok_exprs = []
    for e in exprs:
        try:
            ast.parse(e, mode="eval")
            ok_exprs.append(e)
        except SyntaxError:
            pass
    rres = lib.impl_call("pyverify_corr.py", {"mode": "rules", "exprs": ok_exprs}, timeout=1200)
    cases, inputs = [], []
    dist = collections.Counter()
    for e, r in zip(ok_exprs, rres):
        if r["pyast"] is None or r["cls"] is None:
            dist["unsupported"] += 1
            continue
        dist[("ok", "err", "crash")[r["cls"]]] += 1
        cases.append(coq_pair(r["pyast"], coq_nat(r["cls"]), coq_option(r["tree"])))
        inputs.append((e, r))
    bad, _ = lib.run_cases(ctx.work, "rules", HDR_RULES, "pyast * nat * option expr", "bad", cases, shard=150)
    for i in bad[:8]:
        e, r = inputs[i]
        ctx.corr_break("rules", {"expression": e}, "ast_to_tree true (see Model/AstRules.v)",
                       {"class": r["cls"], "exc": r["exc"]})
    ctx.count("rules", len(cases), nontrivial_keys=[e for e, r in inputs if r["cls"] == 0], validated=len(cases),
              outcome_shares=dict(dist))
    ctx.sample({"rule_expression": ok_exprs[0]})

    lap('rules')
    # ---------------------------------------------------------------- transpiler (a)
    texts = [j.get("model_text") or mmg.render_source(mmg.loads(j["mm"]))
             for j in jobs[n_probes - 2:n_probes + ctx.n(6, 40)]]   # the paren and shadow probes, the generated models
    tres = lib.impl_call("pyverify_corr.py", {"mode": "transpile", "models": texts}, timeout=2400)
    inputs, cases, gs = [], [], []
    dist = collections.Counter()
    for res in tres:
        if res["status"] != "ok":
            dist["model_" + res["status"]] += 1
            continue
        gs.append(res["tyenv_fn"])
        mi = len(gs) - 1
        for c in res["cases"]:
            if c.get("skip") or c.get("cls") is None:
                dist["skipped"] += 1
                continue
            if c.get("syntax_error"):
                ctx.impl_failure(f"transpiled-syntax-error-{lib.stable_key(c['text'])}",
                                 "the transpiled invariant is not a Python expression", c, None, "transpile")
                continue
            dist[("ok", "err", "crash")[c["cls"]]] += 1
            impl = coq_option(coq_pair(c["pyast"], c["toks"])) if c["cls"] == 0 else "None"
            cases.append(coq_pair(coq_nat(mi), c["ctx"], c["tree"], coq_nat(c["cls"]), impl))
            inputs.append(c)
    hdr = HDR + "Definition the_Gs : list (list (text * ty) -> list text -> list (text * text) -> bool -> tyenv) := [\n" + ";\n".join(gs) + "].\n" + HDR_TR
    bad, _ = lib.run_cases(ctx.work, "transpile", hdr, "nat * ctx_t * expr * nat * option (pyast * list tok)",
                           "bad", cases, shard=max(20, len(cases) // 8 + 1))
    for i in bad[:8]:
        c = inputs[i]
        ctx.corr_break("transpile", {"owner": c["owner"], "description": c["description"]},
                       "transpile gen_ptables (see Model/PyTranspile.v)", {"class": c["cls"], "text": c["text"]},
                       note="the target AST or the token list of the model differs from the real output")
    ctx.count("transpile", len(cases), nontrivial_keys=[c["description"] for c in inputs], validated=len(cases),
              outcome_shares=dict(dist))
    if inputs:
        ctx.sample({"transpiled": inputs[0]["text"], "of": inputs[0]["description"]})
    lap('transpile')
