"""C11 — JSON Schema is valid and never rejects valid data."""
from __future__ import annotations

from harness import lib
from harness.gen import jsonschema_check

META = {
    "title": "JSON Schema is valid and never rejects valid data",
    "design_ref": "§4 C11 / C12",
    "level_text": (
        "Coq theorems over a Gallina semantics of the emitted JSON-Schema subset and a Gallina model "
        "of the generator core (constraint translation, type definitions, inheritable / choice / "
        "concrete definitions): for all values and constraints an admitted value validates; all "
        "$ref of the generated definition shapes resolve (with the exact side condition); flat "
        "classes accept every valid instance. The primitive table is re-translated from the source "
        "on every run; the generator model is compared inside Coq with the whole real `definitions` "
        "object of generated meta-models; the semantics is compared inside Coq with the verdicts of "
        "the independent `jsonschema` validator. The property itself is run on the real artefacts: "
        "real schema.json checked against its declared draft, every $ref resolved, documents "
        "serialised by the real generated Python SDK from instances whose verify() is empty must "
        "validate."
    ),
    "level_note": (
        "Partial: class-level acceptance is proved for classes whose properties are primitives / "
        "lists (inheritance chains are covered by the correspondence and the oracle only). Trusted: "
        "jsonschema package, Python re on the UTF-16 image as the pattern oracle, the SDK's verify as "
        "the definition of 'satisfies all invariants'."
    ),
    "technique": "Coq proof (schema semantics + generator model) + in-Coq correspondence + oracle on real artefacts",
}
GEN = ["GenJsonSchema"]
MODEL = ["Model/JsonSchemaSem", "Model/JsonSchemaGen", "Gen/GenJsonSchema"]
TRUSTED = [
    "Model/JsonSchemaGen.v is a hand-written model of jsonschema/main.py (correspondence-checked on whole definitions objects)",
    "Model/JsonSchemaSem.v vs the JSON Schema specification: corresponded with the `jsonschema` package (Draft 2019-09)",
    "pattern matching: Python re.search on the UTF-16 code-unit image of a string (table oracle inside Coq)",
    "inferred constraints (infer_for_schema, C15), JSON names (naming.py) and fix_pattern_for_utf16 (C17) are inputs of the generator model",
    "harness/translate/jsonschema.py (_PRIMITIVE_MAP, fix_pattern plumbing) via Python's ast",
    "meta-model generator harness/gen/metamodel.py and instance generator harness/gen/jsonschema.py",
]
RULE = ("case = (meta-model, instance document); meta-models: 5 hand-built witnesses + seeded random "
        "(hierarchies incl. diamonds, byte arrays with length bounds, lists of constrained primitives, "
        "patterns; every 4th model with astral characters in strings); a document counts when the SDK's "
        "verify() reports no error for the instance; distinct by (model, document)")


def streams(ctx: lib.Ctx) -> None:
    jsonschema_check.run(ctx, "C11")
