(** Stage skeleton of [smoke/main.py: execute] (C28): a sequence of checks
    [if <error of stage i>: report; return ret_i] followed by [return final]. The list
    of stages is regenerated from the source ([Gen/GenSmoke.v]). Executable only. *)
From Coq Require Import List NArith ZArith Bool.
From Acg Require Import Base.Str.
Import ListNotations.
Open Scope Z_scope.

Definition stage : Type := (text * text * bool * Z)%type.
Definition st_callee (s : stage) : text := fst (fst (fst s)).
Definition st_reports (s : stage) : bool := snd (fst s).
Definition st_ret (s : stage) : Z := snd s.

(** [fails i] = the i-th stage returned an error. Result: (exit status, stderr written). *)
Fixpoint run (stages : list stage) (final : Z) (i : nat) (fails : nat -> bool) : Z * bool :=
  match stages with
  | [] => (final, false)
  | s :: r => if fails i then (st_ret s, st_reports s) else run r final (S i) fails
  end.

Definition skel_ok (stages : list stage) (final : Z) : bool :=
  (final =? 0) && forallb (fun s => negb (st_ret s =? 0) && st_reports s) stages.

(** [req] occurs as a subsequence of [l]. *)
Fixpoint subseq (req l : list text) : bool :=
  match req, l with
  | [], _ => true
  | _ :: _, [] => false
  | x :: req', y :: l' => if text_eqb x y then subseq req' l' else subseq req l'
  end.

Definition all_in (req l : list text) : bool := forallb (fun x => mem_text x l) req.
