(** C17 — arithmetic of surrogate pairs and of the range splitting. *)
From Coq Require Import List NArith ZArith Bool Lia ZifyBool.
From Acg Require Import Base.Outcome Model.Utf16Tree Model.Utf16Fix.
Import ListNotations.
Open Scope N_scope.

Ltac Zify.zify_post_hook ::= Z.to_euclidean_division_equations.

Ltac unfold_u16 :=
  unfold to_surrogates, hi_of, lo_of, decode, is_hi, is_lo, astral, scalar, bmp_scalar,
    PLANE_START, PLANE_END in *.

(** [_convert_to_surrogates] never violates its post-condition, and returns the halves. *)
Lemma to_surrogates_ok : forall c,
  astral c = true -> to_surrogates c = Ok (hi_of c, lo_of c).
Proof.
  intros c Ha. unfold to_surrogates.
  unfold astral in Ha. rewrite Ha.
  assert (Hr : (0xD800 <=? hi_of c) && (hi_of c <=? 0xDBFF) && (0xDC00 <=? lo_of c)
               && (lo_of c <=? 0xDFFF) = true).
  { unfold hi_of, lo_of, PLANE_START, PLANE_END in *. lia. }
  rewrite Hr. reflexivity.
Qed.

Lemma to_surrogates_crash : forall c,
  astral c = false -> to_surrogates c = Crash Violation.
Proof.
  intros c Ha. unfold to_surrogates. unfold astral in Ha. rewrite Ha. reflexivity.
Qed.

Lemma to_surrogates_inv : forall c h l,
  to_surrogates c = Ok (h, l) -> astral c = true /\ h = hi_of c /\ l = lo_of c.
Proof.
  intros c h l H. destruct (astral c) eqn:Ha.
  - rewrite (to_surrogates_ok c Ha) in H. inversion H. auto.
  - rewrite (to_surrogates_crash c Ha) in H. discriminate.
Qed.

Lemma hi_lo_range : forall c, astral c = true ->
  is_hi (hi_of c) = true /\ is_lo (lo_of c) = true.
Proof. intros c H. unfold_u16. lia. Qed.

Lemma decode_hi_lo : forall c, astral c = true -> decode (hi_of c) (lo_of c) = c.
Proof. intros c H. unfold_u16. lia. Qed.

Lemma hi_lo_decode : forall h l, is_hi h = true -> is_lo l = true ->
  astral (decode h l) = true /\ hi_of (decode h l) = h /\ lo_of (decode h l) = l.
Proof. intros h l Hh Hl. unfold_u16. lia. Qed.

(** Bijection between the supplementary code points and
    [D800..DBFF] x [DC00..DFFF]. *)
Theorem surrogates_spec :
  (forall c, astral c = true ->
     exists h l, to_surrogates c = Ok (h, l) /\ is_hi h = true /\ is_lo l = true
                 /\ decode h l = c)
  /\ (forall h l, is_hi h = true -> is_lo l = true ->
        astral (decode h l) = true /\ to_surrogates (decode h l) = Ok (h, l))
  /\ (forall c, astral c = false -> to_surrogates c = Crash Violation).
Proof.
  split; [|split].
  - intros c Ha. exists (hi_of c), (lo_of c).
    destruct (hi_lo_range c Ha) as [H1 H2].
    repeat split; auto using to_surrogates_ok, decode_hi_lo.
  - intros h l Hh Hl. destruct (hi_lo_decode h l Hh Hl) as (Ha & H1 & H2).
    split; auto. rewrite (to_surrogates_ok _ Ha). congruence.
  - exact to_surrogates_crash.
Qed.

(** The case analysis on the surrogates of both ends matches exactly the pairs between
    them (lexicographic order on (high, low) = order on code points). *)
Lemma split_hl_exact : forall a b h l,
  astral a = true -> astral b = true -> a < b ->
  is_hi h = true -> is_lo l = true ->
  (matches_pairs (split_hl (hi_of a) (lo_of a) (hi_of b) (lo_of b)) h l = true
   <-> a <= decode h l <= b).
Proof.
  intros a b h l Ha Hb Hab Hh Hl.
  unfold split_hl.
  destruct (hi_of a =? hi_of b) eqn:E1.
  - cbn [matches_pairs existsb pp_match]. unfold_u16. lia.
  - destruct (1 <? hi_of b - hi_of a) eqn:E2.
    + destruct (hi_of a + 1 =? hi_of b - 1) eqn:E3;
        cbn [matches_pairs existsb pp_match app]; unfold_u16; lia.
    + cbn [matches_pairs existsb pp_match app]. unfold_u16. lia.
Qed.

Lemma split_range_exact : forall r ps h l,
  split_range r = Ok ps -> is_hi h = true -> is_lo l = true ->
  (matches_pairs ps h l = true <-> in_rng (decode h l) r = true).
Proof.
  intros r ps h l Hs Hh Hl. unfold split_range in Hs.
  destruct (to_surrogates (ccode (rstart r))) as [[hs ls]| |] eqn:E1; cbn [bind] in Hs;
    try discriminate.
  apply to_surrogates_inv in E1. destruct E1 as (Ha & -> & ->).
  unfold in_rng. destruct (rend r) as [e|].
  - destruct (ccode (rstart r) =? ccode e) eqn:E2.
    + inversion Hs; subst ps. cbn [matches_pairs existsb pp_match].
      apply N.eqb_eq in E2. unfold_u16. lia.
    + destruct (ccode (rstart r) <? ccode e) eqn:E3; cbn [negb] in Hs; try discriminate.
      destruct (to_surrogates (ccode e)) as [[he le]| |] eqn:E4; cbn [bind] in Hs;
        try discriminate.
      apply to_surrogates_inv in E4. destruct E4 as (Hb & -> & ->).
      inversion Hs; subst ps.
      rewrite (split_hl_exact _ _ h l Ha Hb) by (auto; lia). lia.
  - inversion Hs; subst ps. cbn [matches_pairs existsb pp_match]. unfold_u16. lia.
Qed.

(** Statement of the design: for an ordered astral range the produced shapes match
    exactly the pairs that decode into the range. *)
Definition split (a b : N) : res (list pairpat) :=
  split_range (mkrng (ech a) (Some (ech b))).

Theorem range_split_exact : forall a b,
  astral a = true -> astral b = true -> a <= b ->
  exists ps, split a b = Ok ps /\
    forall h l, is_hi h = true -> is_lo l = true ->
      (matches_pairs ps h l = true <-> a <= decode h l <= b).
Proof.
  intros a b Ha Hb Hab. unfold split.
  destruct (split_range (mkrng (ech a) (Some (ech b)))) as [ps| |k] eqn:E.
  - exists ps. split; auto. intros h l Hh Hl.
    rewrite (split_range_exact _ _ h l E Hh Hl). unfold in_rng. cbn. lia.
  - exfalso. unfold split_range in E. cbn in E.
    rewrite (to_surrogates_ok a Ha) in E. cbn in E.
    destruct (a =? b); try discriminate. destruct (a <? b); cbn in E; try discriminate.
    rewrite (to_surrogates_ok b Hb) in E. discriminate.
  - exfalso. unfold split_range in E. cbn in E.
    rewrite (to_surrogates_ok a Ha) in E. cbn in E.
    destruct (a =? b) eqn:E1; try discriminate.
    destruct (a <? b) eqn:E2; cbn in E.
    + rewrite (to_surrogates_ok b Hb) in E. discriminate.
    + lia.
Qed.

(** units of one scalar value *)
Lemma units_bmp : forall x, x <? PLANE_START = true -> units x = [x].
Proof. intros x H. unfold units. rewrite H. reflexivity. Qed.

Lemma units_astral : forall x, x <? PLANE_START = false -> units x = [hi_of x; lo_of x].
Proof. intros x H. unfold units. rewrite H. reflexivity. Qed.
