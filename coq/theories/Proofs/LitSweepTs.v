(** C19 — decidable side condition on the regenerated tables, discharged by computation
    over every code point 0..0x10FFFF (the bound 1114112 is part of the statement). Kept
    in a file of its own so that the sweeps of the targets compile in parallel. *)
From Coq Require Import List NArith Bool.
From Acg Require Import Base.Str Base.Outcome Model.LitCore Model.Lit Model.LexCore
  Model.LexPython Model.LexJs Model.LexJava Model.LexCpp Model.LexCsharp Model.LexGo
  Proofs.LitFacts Proofs.LitLangs Gen.GenLiteralTables.
Import ListNotations.
Open Scope N_scope.
Lemma ts_quoted_side : ts_quoted_ok.
Proof. split; vm_compute; reflexivity. Qed.
