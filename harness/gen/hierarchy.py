"""Seeded generator of class hierarchies for C05 (DESIGN Appendix B, hierarchy part).

An abstract hierarchy (``Spec`` = list of ``Cls`` in declaration order) is rendered
  * as meta-model SOURCE TEXT (the only thing the real front end sees),
  * as a Coq term of type ``Acg.Model.Hierarchy.mm``,
  * as JSON (for replays).

Shapes: chains, diamonds, stacked diamonds, wide fan-out, random DAGs, constrained
primitive chains/diamonds; abstract/concrete mix; random names (so that the name order
used by the DFS differs from the declaration order); declaration order = random linear
extension of the base relation. ``mutate`` applies one of the negative mutations.
"""
from __future__ import annotations

import copy
import dataclasses
import itertools
from typing import Dict, List, Optional, Tuple

PRIMS = ["bool", "int", "float", "str", "bytearray"]
UNSET = "unset"


@dataclasses.dataclass
class Cls:
    name: str
    abstract: bool = False
    bases: List[str] = dataclasses.field(default_factory=list)
    props: List[str] = dataclasses.field(default_factory=list)
    invs: List[str] = dataclasses.field(default_factory=list)
    methods: List[str] = dataclasses.field(default_factory=list)
    # None = no __init__; else (args, body) with body entries ("super", name) | ("assign", prop)
    ctor: Optional[Tuple[List[str], List[Tuple[str, str]]]] = None
    # None = no decorator, True/False = @serialization(with_model_type=..),
    # UNSET = an empty @serialization() (Serialization object with with_model_type=None)
    wmt: object = None

    def to_json(self):
        d = dataclasses.asdict(self)
        if self.ctor is not None:
            d["ctor"] = [list(self.ctor[0]), [list(s) for s in self.ctor[1]]]
        return d

    @staticmethod
    def from_json(d):
        c = Cls(**{k: v for k, v in d.items() if k != "ctor"})
        if d.get("ctor") is not None:
            c.ctor = (list(d["ctor"][0]), [tuple(s) for s in d["ctor"][1]])
        return c


Spec = List[Cls]


# -------------------------------------------------------------------------------------
# reference computations on the abstract hierarchy (independent of the implementation;
# also used by the property oracle)
# -------------------------------------------------------------------------------------
def by_name(spec: Spec) -> Dict[str, Cls]:
    return {c.name: c for c in spec}


def class_bases(c: Cls) -> List[str]:
    return [b for b in c.bases if b not in PRIMS]


def closure(spec: Spec) -> Dict[str, set]:
    """Transitive closure of the declared base relation (naive fixpoint iteration)."""
    bn = by_name(spec)
    anc = {c.name: set(b for b in class_bases(c) if b in bn) for c in spec}
    changed = True
    while changed:
        changed = False
        for n in anc:
            new = set()
            for a in anc[n]:
                new |= anc[a]
            if not new <= anc[n]:
                anc[n] |= new
                changed = True
    return anc


def dedup(xs):
    out = []
    for x in xs:
        if x not in out:
            out.append(x)
    return out


def stacked(spec: Spec, what: str) -> Dict[str, list]:
    """inherited (de-duplicated, bases in declared order, recursively) ++ own, as
    (value, owner) pairs; recursive definition over the DAG."""
    bn = by_name(spec)
    memo: Dict[str, list] = {}

    def go(n, depth=0):
        if n in memo:
            return memo[n]
        if depth > len(spec) + 1:
            return []
        c = bn[n]
        inh = []
        for b in class_bases(c):
            if b in bn:
                inh += go(b, depth + 1)
        res = dedup(inh) + [(v, n) for v in getattr(c, what)]
        memo[n] = res
        return res

    for c in spec:
        go(c.name)
    return memo


# -------------------------------------------------------------------------------------
# generation of valid hierarchies
# -------------------------------------------------------------------------------------
_LET = "ABCDEFGHIJKLMNOPQRSTUVWXYZ"
_low = "abcdefghijklmnopqrstuvwxyz"


def fresh_names(rng, n: int, taken=()) -> List[str]:
    out: List[str] = []
    seen = set(taken)
    while len(out) < n:
        # every name carries a digit: the reserved type names of the parse stage
        # (abs, aas, do, go, path, ...) are purely alphabetic
        style = rng.randrange(4)
        if style == 0:
            s = rng.choice(_LET) + "".join(rng.choice(_low) for _ in range(rng.randrange(0, 3))) + str(rng.randrange(10))
        elif style == 1:
            s = rng.choice(_LET) + rng.choice(_low) + str(rng.randrange(10)) + "_" + rng.choice(_low) + rng.choice(_low)
        elif style == 2:
            s = rng.choice("ABC") + rng.choice("ab") + str(rng.randrange(10)) + rng.choice(_low)
        else:
            s = rng.choice(_LET) + str(rng.randrange(10)) + rng.choice(_low)
        if s in seen or s in ("List", "Optional", "Enum", "None", "True", "False"):
            continue
        seen.add(s)
        out.append(s)
    return out


def shape_edges(rng, kind: str, n: int) -> List[List[int]]:
    """bases[i] = indices < i (so index order is a topological order)."""
    bases: List[List[int]] = [[] for _ in range(n)]
    if kind == "chain":
        for i in range(1, n):
            bases[i] = [i - 1]
    elif kind == "diamond":
        # 0; 1(0); 2(0); 3(1,2); then a tail
        for i in range(1, n):
            if i in (1, 2):
                bases[i] = [0]
            elif i == 3:
                bases[i] = [1, 2] if rng.random() < 0.5 else [2, 1]
            else:
                bases[i] = [rng.randrange(i)]
    elif kind == "multidiamond":
        # stacked diamonds: 0; 1(0) 2(0); 3(1,2); 4(3) 5(3); 6(4,5) ...
        for i in range(1, n):
            r = i % 3
            if r in (1, 2):
                bases[i] = [i - r]
            else:
                bases[i] = [i - 2, i - 1] if rng.random() < 0.6 else [i - 1, i - 2]
    elif kind == "fan":
        for i in range(1, n):
            bases[i] = [0]
        if n > 3 and rng.random() < 0.5:
            bases[n - 1] = rng.sample(range(1, n - 1), min(n - 2, rng.randrange(2, 4)))
    elif kind == "forest":
        for i in range(1, n):
            if rng.random() < 0.6:
                bases[i] = [rng.randrange(i)]
    else:  # dag
        for i in range(1, n):
            k = rng.choice([0, 1, 1, 2, 2, 3])
            bases[i] = rng.sample(range(i), min(i, k))
    return bases


SHAPES = ["chain", "diamond", "multidiamond", "fan", "forest", "dag"]


def linear_extension(rng, n: int, bases: List[List[int]]) -> List[int]:
    """A random declaration order in which every class comes after its bases."""
    remaining = set(range(n))
    placed: List[int] = []
    done = set()
    while remaining:
        ready = sorted(i for i in remaining if all(b in done for b in bases[i]))
        i = rng.choice(ready)
        placed.append(i)
        done.add(i)
        remaining.discard(i)
    return placed


def gen_valid(rng, max_n: int = 9, kind: Optional[str] = None, with_cp: Optional[bool] = None) -> Tuple[Spec, dict]:
    kind = kind or rng.choice(SHAPES)
    n = rng.randrange(1, max_n + 1)
    if kind in ("diamond",):
        n = max(n, 4)
    if kind == "multidiamond":
        n = max(n, 4)
    bases = shape_edges(rng, kind, n)
    n_cp = 0
    if with_cp is None:
        with_cp = rng.random() < 0.35
    cp_bases: List[List[int]] = []
    if with_cp:
        n_cp = rng.randrange(1, 6)
        cp_kind = rng.choice(["chain", "diamond", "dag", "forest"])
        if cp_kind == "diamond":
            n_cp = max(n_cp, 4)
        cp_bases = shape_edges(rng, cp_kind, n_cp)
    names = fresh_names(rng, n + n_cp)
    classes: List[Cls] = []
    # ordinary classes
    for i in range(n):
        c = Cls(name=names[i])
        c.bases = [names[b] for b in bases[i]]
        classes.append(c)
    has_desc = set(b for bs in bases for b in bs)
    for i, c in enumerate(classes):
        c.abstract = rng.random() < (0.6 if i in has_desc else 0.15)
    pcount = 0
    for c in classes:
        k = rng.choice([0, 0, 1, 1, 2])
        for _ in range(k):
            c.props.append(f"p{pcount}_{rng.choice(_low)}")
            pcount += 1
        for j in range(rng.choice([0, 0, 1, 2])):
            c.invs.append(f"Inv {c.name} {j}")
    # methods: only on classes whose descendants cannot inherit them twice would be
    # always accepted; we put them anywhere (a diamond below then is a reported error)
    mcount = 0
    for c in classes:
        if rng.random() < 0.2:
            c.methods.append(f"m{mcount}_{rng.choice(_low)}")
            mcount += 1
    # with_model_type: on some roots
    roots = [i for i in range(n) if not bases[i]]
    for i in roots:
        r = rng.random()
        if r < 0.3:
            classes[i].wmt = True
        elif r < 0.35:
            classes[i].wmt = False
    for i in range(n):
        if bases[i] and rng.random() < 0.08:
            classes[i].wmt = True
    # an empty @serialization() at any level (roots, middle of chains/diamonds, leaves)
    for i in range(n):
        if classes[i].wmt is None and rng.random() < 0.15:
            classes[i].wmt = UNSET
    # constrained primitives
    cps: List[Cls] = []
    prim = rng.choice(["str", "int", "bytearray", "float", "bool"])
    for i in range(n_cp):
        c = Cls(name=names[n + i])
        if not cp_bases[i]:
            c.bases = [prim]
        else:
            c.bases = [names[n + b] for b in cp_bases[i]]
        for j in range(rng.choice([0, 1, 1, 2])):
            c.invs.append(f"Inv {c.name} {j}")
        if rng.random() < 0.05:
            c.wmt = UNSET      # silently ignored on a constrained primitive
        cps.append(c)
    # declaration order: random linear extension of everything
    all_bases = bases + [[n + b for b in bs] for bs in cp_bases]
    order = linear_extension(rng, n + n_cp, all_bases)
    allc = classes + cps
    spec = [allc[i] for i in order]
    fill_constructors(rng, spec)
    meta = {"shape": kind, "n": n, "n_cp": n_cp,
            "diamonds": count_diamonds(spec), "depth": depth(spec)}
    return spec, meta


def fill_constructors(rng, spec: Spec) -> None:
    """Valid constructors: arguments = stacked properties; super calls + own assignments."""
    st = stacked(spec, "props")
    bn = by_name(spec)
    for c in spec:
        if any(b in PRIMS for b in c.bases) or is_cp_name(spec, c.name):
            c.ctor = None
            continue
        args = dedup([p for p, _ in st[c.name]])  # (duplicate argument names crash the parser)
        body: List[Tuple[str, str]] = []
        for b in class_bases(c):
            if st.get(b):
                body.append(("super", b))
        for p in c.props:
            body.append(("assign", p))
        if not args and rng.random() < 0.6:
            c.ctor = None
        else:
            if rng.random() < 0.3:
                # own assignments first, super calls afterwards
                body = [s for s in body if s[0] == "assign"] + [s for s in body if s[0] == "super"]
            c.ctor = (args, body)


def is_cp_name(spec: Spec, n: str) -> bool:
    bn = by_name(spec)
    cl = closure(spec)
    return any(b in PRIMS for b in bn[n].bases) or any(
        any(b in PRIMS for b in bn[a].bases) for a in cl[n])


def count_diamonds(spec: Spec) -> int:
    """number of (class, ancestor) pairs reachable along more than one path"""
    bn = by_name(spec)
    memo: Dict[str, Dict[str, int]] = {}

    def paths(n, depth=0):
        if n in memo:
            return memo[n]
        res: Dict[str, int] = {}
        if depth <= len(spec):
            for b in class_bases(bn[n]):
                if b not in bn:
                    continue
                res[b] = res.get(b, 0) + 1
                for a, k in paths(b, depth + 1).items():
                    res[a] = res.get(a, 0) + k
        memo[n] = res
        return res

    return sum(1 for c in spec for a, k in paths(c.name).items() if k > 1)


def depth(spec: Spec) -> int:
    bn = by_name(spec)
    memo: Dict[str, int] = {}

    def d(n, k=0):
        if n in memo:
            return memo[n]
        if k > len(spec):
            return 0
        r = 1 + max([d(b, k + 1) for b in class_bases(bn[n]) if b in bn], default=0)
        memo[n] = r
        return r

    return max((d(c.name) for c in spec), default=0)


# -------------------------------------------------------------------------------------
# negative mutations (each names the condition it is meant to trigger)
# -------------------------------------------------------------------------------------
MUTATIONS = [
    "cycle", "child_first", "wmt_inconsistent", "method_diamond", "method_override",
    "prop_redefined", "prop_two_parents", "drop_assign", "dup_assign", "drop_super",
    "drop_ctor", "super_non_parent", "dup_base", "cp_mixed", "cp_two_prims", "cp_with_prop",
    "dup_inv", "dup_super", "arg_order", "self_base", "cp_abstract", "unknown_base",
]


def mutate(rng, spec: Spec, kind: str) -> Optional[Spec]:
    """Returns a mutated deep copy or None if the mutation does not apply."""
    spec = copy.deepcopy(spec)
    bn = by_name(spec)
    plain = [c for c in spec if not is_cp_name(spec, c.name)]
    cps = [c for c in spec if is_cp_name(spec, c.name)]
    with_bases = [c for c in plain if class_bases(c)]
    cl = closure(spec)
    if kind == "cycle":
        if not with_bases:
            return None
        c = rng.choice(with_bases)
        a = bn[rng.choice(sorted(cl[c.name]))]
        a.bases = a.bases + [c.name]
        return spec
    if kind == "self_base":
        if not plain:
            return None
        c = rng.choice(plain)
        c.bases = c.bases + [c.name]
        return spec
    if kind == "child_first":
        if not with_bases:
            return None
        c = rng.choice(with_bases)
        spec.remove(c)
        spec.insert(0, c)
        return spec
    if kind == "wmt_inconsistent":
        if not with_bases:
            return None
        c = rng.choice(with_bases)
        a = bn[rng.choice(sorted(cl[c.name]))]
        v = rng.random() < 0.5
        a.wmt = v
        c.wmt = not v
        return spec
    if kind == "method_diamond":
        ds = [(c, a) for c in plain for a in cl[c.name] if len(class_bases(c)) >= 2]
        if not ds:
            return None
        c, a = rng.choice(ds)
        if rng.random() < 0.5:
            bn[a].methods = bn[a].methods + ["m_shared"]
        else:
            b1, b2 = class_bases(c)[:2]
            bn[b1].methods = bn[b1].methods + ["m_shared"]
            bn[b2].methods = bn[b2].methods + ["m_shared"]
        return spec
    if kind == "method_override":
        if not with_bases:
            return None
        c = rng.choice(with_bases)
        a = bn[rng.choice(sorted(cl[c.name]))]
        a.methods = a.methods + ["m_over"]
        c.methods = c.methods + ["m_over"]
        return spec
    if kind == "prop_redefined":
        cands = [(c, a) for c in with_bases for a in cl[c.name] if bn[a].props]
        if not cands:
            return None
        c, a = rng.choice(cands)
        p = rng.choice(bn[a].props)
        c.props = c.props + [p]
        fill_constructors(rng, spec)
        return spec
    if kind == "prop_two_parents":
        cands = [c for c in plain if len(class_bases(c)) >= 2]
        if not cands:
            return None
        c = rng.choice(cands)
        b1, b2 = class_bases(c)[:2]
        bn[b1].props = bn[b1].props + ["p_both"]
        bn[b2].props = bn[b2].props + ["p_both"]
        fill_constructors(rng, spec)
        return spec
    if kind == "drop_assign":
        cands = [c for c in plain if c.ctor and any(s[0] == "assign" for s in c.ctor[1])]
        if not cands:
            return None
        c = rng.choice(cands)
        idx = rng.choice([i for i, s in enumerate(c.ctor[1]) if s[0] == "assign"])
        c.ctor = (c.ctor[0], c.ctor[1][:idx] + c.ctor[1][idx + 1:])
        return spec
    if kind == "dup_assign":
        cands = [c for c in plain if c.ctor and any(s[0] == "assign" for s in c.ctor[1])]
        if not cands:
            return None
        c = rng.choice(cands)
        s = rng.choice([s for s in c.ctor[1] if s[0] == "assign"])
        body = list(c.ctor[1])
        body.insert(rng.randrange(len(body) + 1), s)
        c.ctor = (c.ctor[0], body)
        return spec
    if kind == "dup_super":
        cands = [c for c in plain if c.ctor and any(s[0] == "super" for s in c.ctor[1])]
        if not cands:
            return None
        c = rng.choice(cands)
        s = rng.choice([s for s in c.ctor[1] if s[0] == "super"])
        body = list(c.ctor[1])
        body.insert(rng.randrange(len(body) + 1), s)
        c.ctor = (c.ctor[0], body)
        return spec
    if kind == "drop_super":
        cands = [c for c in plain if c.ctor and any(s[0] == "super" for s in c.ctor[1])]
        if not cands:
            return None
        c = rng.choice(cands)
        idx = rng.choice([i for i, s in enumerate(c.ctor[1]) if s[0] == "super"])
        c.ctor = (c.ctor[0], c.ctor[1][:idx] + c.ctor[1][idx + 1:])
        return spec
    if kind == "drop_ctor":
        cands = [c for c in plain if c.ctor and c.ctor[0]]
        if not cands:
            return None
        rng.choice(cands).ctor = None
        return spec
    if kind == "super_non_parent":
        cands = [(c, a) for c in plain if c.ctor for a in cl[c.name]
                 if a not in class_bases(c) and bn[a].ctor]
        if not cands:
            return None
        c, a = rng.choice(cands)
        c.ctor = (c.ctor[0], [("super", a)] + list(c.ctor[1]))
        return spec
    if kind == "dup_base":
        cands = with_bases + [c for c in cps if class_bases(c)]
        if not cands:
            return None
        c = rng.choice(cands)
        c.bases = c.bases + [rng.choice(class_bases(c))]
        return spec
    if kind == "cp_mixed":
        if not cps or not plain:
            return None
        c = rng.choice(cps)
        other = rng.choice(plain)
        if c.name in cl[other.name] or other.name in cl[c.name]:
            return None
        if spec.index(other) > spec.index(c):
            spec.remove(other)
            spec.insert(spec.index(c), other)
        c.bases = c.bases + [other.name]
        return spec
    if kind == "cp_two_prims":
        roots = [c for c in cps if any(b in PRIMS for b in c.bases)]
        if not roots:
            return None
        old = [b for b in roots[0].bases if b in PRIMS][0]
        newp = rng.choice([p for p in PRIMS if p != old])
        name = fresh_names(rng, 1, taken=[c.name for c in spec])[0]
        extra = Cls(name=name, bases=[newp])
        spec.insert(0, extra)
        kids = [c for c in cps if c not in roots]
        if kids:
            k = rng.choice(kids)
            k.bases = k.bases + [name]
        else:
            spec.append(Cls(name=fresh_names(rng, 1, taken=[c.name for c in spec])[0],
                            bases=[roots[0].name, name]))
        return spec
    if kind == "cp_with_prop":
        if not cps:
            return None
        c = rng.choice(cps)
        r = rng.randrange(3)
        if r == 0:
            c.props = ["p_cp"]
            c.ctor = (["p_cp"], [("assign", "p_cp")])
        elif r == 1:
            c.methods = ["m_cp"]
        else:
            c.wmt = True
        return spec
    if kind == "cp_abstract":
        if not cps:
            return None
        rng.choice(cps).abstract = True
        return spec
    if kind == "dup_inv":
        cands = [(c, a) for c in spec for a in cl[c.name] if bn[a].invs]
        if not cands:
            return None
        c, a = rng.choice(cands)
        c.invs = c.invs + [rng.choice(bn[a].invs)]
        return spec
    if kind == "arg_order":
        cands = [c for c in plain if c.ctor and len(c.ctor[0]) >= 2]
        if not cands:
            return None
        c = rng.choice(cands)
        args = list(c.ctor[0])
        i = rng.randrange(len(args) - 1)
        args[i], args[i + 1] = args[i + 1], args[i]
        c.ctor = (args, c.ctor[1])
        return spec
    if kind == "unknown_base":
        if not plain:
            return None
        c = rng.choice(plain)
        c.bases = c.bases + ["Nowhere"]
        return spec
    raise ValueError(kind)


# -------------------------------------------------------------------------------------
# renderings
# -------------------------------------------------------------------------------------
def render_source(spec: Spec) -> str:
    out: List[str] = []
    bn = by_name(spec)
    for c in spec:
        cp = any(b in PRIMS for b in c.bases) or (
            all(b in bn for b in class_bases(c)) and _safe_is_cp(spec, c.name))
        if c.abstract:
            out.append("@abstract")
        if c.wmt == UNSET:
            out.append("@serialization()")
        elif c.wmt is not None:
            out.append(f"@serialization(with_model_type={c.wmt})")
        # decorators apply bottom-up: the parser lists the invariants in reverse
        for d in reversed(c.invs):
            body = "len(self) >= 0" if cp else "True"
            out.append(f"@invariant(lambda self: {body}, {d!r})")
        head = f"class {c.name}"
        if c.bases:
            head += "(" + ", ".join(c.bases) + ")"
        out.append(head + ":")
        body_lines: List[str] = []
        for p in c.props:
            body_lines.append(f"    {p}: int")
        for m in c.methods:
            body_lines.append("")
            body_lines.append("    @implementation_specific")
            body_lines.append(f"    def {m}(self) -> int:")
            body_lines.append("        pass")
        if c.ctor is not None:
            args, body = c.ctor
            body_lines.append("")
            sig = ", ".join(["self"] + [f"{a}: int" for a in args])
            body_lines.append(f"    def __init__({sig}) -> None:")
            if not body:
                body_lines.append("        pass")
            for kind, x in body:
                if kind == "super":
                    sup = bn.get(x)
                    sargs = sup.ctor[0] if (sup is not None and sup.ctor is not None) else []
                    call = ", ".join(["self"] + [f"{a}={a}" for a in sargs])
                    body_lines.append(f"        {x}.__init__({call})")
                else:
                    body_lines.append(f"        self.{x} = {x}")
        if not body_lines:
            body_lines.append("    pass")
        out.extend(body_lines)
        out.append("")
        out.append("")
    out.append('__version__ = "dummy"')
    out.append('__xml_namespace__ = "https://dummy.com"')
    return "\n".join(out) + "\n"


def _safe_is_cp(spec: Spec, n: str) -> bool:
    try:
        return is_cp_name(spec, n)
    except KeyError:
        return False


def coq_text(s: str) -> str:
    """ASCII names only: a Coq string literal injected by Base.Str.s2l (fast to parse)."""
    if all(32 <= ord(ch) < 127 for ch in s):
        return '(s2l "' + s.replace('"', '""') + '")'
    return "[" + ";".join(str(ord(ch)) for ch in s) + "]%N"


def coq_list(xs) -> str:
    return "[" + "; ".join(xs) + "]"


def coq_wmt(w) -> str:
    if w is None:
        return "None"
    if w == UNSET:
        return "(Some None)"
    return f"(Some (Some {'true' if w else 'false'}))"


def coq_cls(c: Cls) -> str:
    if c.ctor is None:
        ctor = "None"
    else:
        body = coq_list(
            (f"CallSuper {coq_text(x)}" if k == "super" else f"Assign {coq_text(x)}") for k, x in c.ctor[1])
        ctor = f"(Some (Build_ctor {coq_list(coq_text(a) for a in c.ctor[0])} {body}))"
    wmt = coq_wmt(c.wmt)
    return ("(Build_cls " + coq_text(c.name)
            + " " + ("true" if c.abstract else "false")
            + " " + coq_list(coq_text(b) for b in c.bases)
            + " " + coq_list(coq_text(p) for p in c.props)
            + " " + coq_list(coq_text(d) for d in c.invs)
            + " " + coq_list(coq_text(x) for x in c.methods)
            + " " + ctor
            + " " + wmt + ")")


def coq_spec(spec: Spec) -> str:
    return coq_list(coq_cls(c) for c in spec)


def spec_to_json(spec: Spec):
    return [c.to_json() for c in spec]


def spec_from_json(data) -> Spec:
    return [Cls.from_json(d) for d in data]


# -------------------------------------------------------------------------------------
# exhaustive small scope: all DAGs on n plain classes (bases among earlier classes, every
# subset, both orders for two bases), fixed simple payload
# -------------------------------------------------------------------------------------
def all_small_dags(n: int, names=("Ca", "Ab", "Bc", "Da", "Ea")):
    choices = []
    for i in range(n):
        subs = []
        for k in range(0, i + 1):
            for comb in itertools.combinations(range(i), k):
                subs.append(list(comb))
                if len(comb) == 2:
                    subs.append([comb[1], comb[0]])
        choices.append(subs)
    for pick in itertools.product(*choices):
        spec = []
        for i in range(n):
            c = Cls(name=names[i], bases=[names[b] for b in pick[i]],
                    props=[f"p{i}"], invs=[f"I{i}"], abstract=(i % 2 == 0))
            spec.append(c)
        st = stacked(spec, "props")
        for c in spec:
            body = [("super", b) for b in c.bases] + [("assign", p) for p in c.props]
            c.ctor = ([p for p, _ in st[c.name]], body)
        yield spec
