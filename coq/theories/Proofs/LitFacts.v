(** C19 — generic facts: bounded sweeps by reflection, scanner composition, escaper
    induction principle. *)
From Coq Require Import List NArith Bool Lia ZifyBool.
From Acg Require Import Base.Str Base.Outcome Model.LitCore Model.LexCore.
Import ListNotations.
Open Scope N_scope.

(** ** Sweeps *)
Lemma all_from_spec : forall p lo P,
  all_from p lo P = true -> forall c, lo <= c -> c < lo + Npos p -> P c = true.
Proof.
  induction p as [q IH | q IH | ]; intros lo P H c Hlo Hhi; cbn [all_from] in H.
  - apply andb_true_iff in H. destruct H as [H H3].
    apply andb_true_iff in H. destruct H as [H1 H2].
    destruct (N.eq_dec c lo) as [-> | Hne]; [exact H1 |].
    destruct (N.lt_ge_cases c (lo + 1 + Npos q)) as [Hlt | Hge].
    + apply (IH (lo + 1) P H2); lia.
    + apply (IH (lo + 1 + Npos q) P H3); lia.
  - apply andb_true_iff in H. destruct H as [H1 H2].
    destruct (N.lt_ge_cases c (lo + Npos q)) as [Hlt | Hge].
    + apply (IH lo P H1); lia.
    + apply (IH (lo + Npos q) P H2); lia.
  - assert (c = lo) as -> by lia. exact H.
Qed.

Lemma all_below_spec : forall n P, all_below n P = true -> forall c, c < n -> P c = true.
Proof.
  intros [| p] P H c Hc; [lia |].
  unfold all_below in H. apply (all_from_spec p 0 P H); lia.
Qed.

(** Sweeps over all code points are stated as [all_below 1114112 P = true] (the literal
    bound, so that no conversion has to unfold [all_from] on an abstract predicate). *)
Lemma sweep_spec : forall P, all_below 1114112 P = true -> forall c, c <= max_cp -> P c = true.
Proof.
  intros P H c Hc. apply (all_below_spec 1114112 P H). unfold max_cp in Hc. lia.
Qed.

(** ** Scanners *)
Section RunFacts.
  Variable St : Type.
  Variable step : St -> N -> option (St * text).

  Lemma run_app : forall a b st,
    run step st (a ++ b) =
    match run step st a with
    | None => None
    | Some (st', o) =>
        match run step st' b with
        | None => None
        | Some (st'', o') => Some (st'', o ++ o')
        end
    end.
  Proof.
    induction a as [| x a IH]; intros b st; cbn [run app].
    - destruct (run step st b) as [[st'' o'] |]; reflexivity.
    - destruct (step st x) as [[st1 o1] |]; [| reflexivity].
      rewrite IH. destruct (run step st1 a) as [[st2 o2] |]; [| reflexivity].
      destruct (run step st2 b) as [[st3 o3] |]; [| reflexivity].
      rewrite app_assoc. reflexivity.
  Qed.

  Lemma run_app_some : forall a b st st' o st'' o',
    run step st a = Some (st', o) -> run step st' b = Some (st'', o') ->
    run step st (a ++ b) = Some (st'', o ++ o').
  Proof. intros a b st st' o st'' o' H1 H2. rewrite run_app, H1, H2. reflexivity. Qed.
End RunFacts.
Arguments run_app {St} step a b st.
Arguments run_app_some {St} step a b st st' o st'' o'.

(** ** Tables without look-ahead *)
Definition atom_no_next (a : atom) : bool :=
  match a with ACp _ _ => true | _ => false end.
Definition table_no_next (t : table) : bool :=
  forallb (fun r => forallb atom_no_next (fst r)) t.

Lemma guard_no_next : forall g c n1 n2,
  forallb atom_no_next g = true -> guard_holds c n1 g = guard_holds c n2 g.
Proof.
  induction g as [| a g IH]; intros c n1 n2 H; [reflexivity |].
  cbn [forallb] in H. apply andb_true_iff in H. destruct H as [Ha Hg].
  unfold guard_holds in *. cbn [forallb]. rewrite (IH c n1 n2 Hg).
  destruct a; cbn in Ha; try discriminate. reflexivity.
Qed.

Lemma first_match_no_next : forall t c n1 n2,
  table_no_next t = true -> first_match t c n1 = first_match t c n2.
Proof.
  induction t as [| [g a] t IH]; intros c n1 n2 H; [reflexivity |].
  unfold table_no_next in H. cbn [forallb fst] in H.
  apply andb_true_iff in H. destruct H as [Hg Ht].
  cbn [first_match]. rewrite (guard_no_next g c n1 n2 Hg).
  destruct (guard_holds c n2 g); [reflexivity |]. apply IH. exact Ht.
Qed.

Lemma esc1_no_next : forall t c n,
  table_no_next t = true -> esc1 t c n = esc1 t c None.
Proof. intros t c n H. unfold esc1. rewrite (first_match_no_next t c n None H). reflexivity. Qed.

(** ** Escaper: all characters succeed *)
Lemma escape_cons_ok : forall t c r o o',
  esc1 t c (hd_error r) = Ok o -> escape t r = Ok o' -> escape t (c :: r) = Ok (o ++ o').
Proof. intros t c r o o' H1 H2. cbn [escape]. rewrite H1, H2. reflexivity. Qed.

Lemma wf_text_cons : forall c r, wf_text (c :: r) -> c <= max_cp /\ wf_text r.
Proof. intros c r H. inversion H; subst. split; assumption. Qed.

(** The generic round trip for tables without look-ahead: if every single code point
    is escaped into something the scanner reads back from the body state to the body
    state, so is every string. *)
Section Roundtrip.
  Variable St : Type.
  Variable step : St -> N -> option (St * text).
  Variable body : St.
  Variable t : table.
  Variable val : N -> text.
  Hypothesis Hnn : table_no_next t = true.
  Hypothesis Hchar : forall c, c <= max_cp ->
    exists o, esc1 t c None = Ok o /\ run step body o = Some (body, val c).

  Lemma escape_roundtrip : forall s, wf_text s ->
    exists o, escape t s = Ok o /\ run step body o = Some (body, flat_map val s).
  Proof.
    induction s as [| c r IH]; intros Hwf.
    - exists []. split; reflexivity.
    - apply wf_text_cons in Hwf. destruct Hwf as [Hc Hr].
      destruct (IH Hr) as [o' [He' Hr']].
      destruct (Hchar c Hc) as [o [He Ho]].
      exists (o ++ o'). split.
      + apply escape_cons_ok; [rewrite (esc1_no_next t c _ Hnn); exact He | exact He'].
      + cbn [flat_map]. apply (run_app_some step o o' body body (val c) body (flat_map val r) Ho Hr').
  Qed.
End Roundtrip.

Lemma flat_map_single : forall s : text, flat_map (fun c => [c]) s = s.
Proof. induction s as [| c r IH]; [reflexivity |]. cbn [flat_map app]. rewrite IH. reflexivity. Qed.

(** Boolean form of the per-character condition, for sweeps. *)
Section CharOk.
  Variable St : Type.
  Variable step : St -> N -> option (St * text).
  Variable st_eqb : St -> St -> bool.
  Hypothesis st_eqb_eq : forall a b, st_eqb a b = true -> a = b.

  Definition char_ok (t : table) (from to : St) (val : N -> text) (nxt : option N) (c : N) : bool :=
    match esc1 t c nxt with
    | Ok o => match run step from o with
              | Some (st', v) => st_eqb st' to && text_eqb v (val c)
              | None => false
              end
    | _ => false
    end.

  Lemma text_eqb_eq : forall a b : text, text_eqb a b = true -> a = b.
  Proof.
    induction a as [| x a IH]; destruct b as [| y b]; cbn [text_eqb]; intros H; try discriminate.
    - reflexivity.
    - apply andb_true_iff in H. destruct H as [H1 H2]. apply N.eqb_eq in H1. subst.
      f_equal. apply IH. exact H2.
  Qed.

  Lemma char_ok_spec : forall t from to val nxt c,
    char_ok t from to val nxt c = true ->
    exists o, esc1 t c nxt = Ok o /\ run step from o = Some (to, val c).
  Proof.
    intros t from to val nxt c H. unfold char_ok in H.
    destruct (esc1 t c nxt) as [o | e | k]; try discriminate.
    exists o. split; [reflexivity |].
    destruct (run step from o) as [[st' v] |]; [| discriminate].
    apply andb_true_iff in H. destruct H as [H1 H2].
    apply st_eqb_eq in H1. apply text_eqb_eq in H2. subst. reflexivity.
  Qed.
End CharOk.
Arguments char_ok {St} step st_eqb t from to val nxt c.
Arguments char_ok_spec {St} step st_eqb st_eqb_eq t from to val nxt c.
Arguments escape_roundtrip {St} step body t val.

(** ** Generic round trip of a quoted literal.

    [bodies] are the scanner states "inside the literal, between two characters"
    (one for most languages; two for C++ where the scanner remembers a preceding
    question mark). [dom] is the set of representable code points. The per-character
    conditions are boolean so that they can be swept over all code points; they are
    kept as separate equations (a conjunction in [Prop]) so that no proof step ever has
    to convert a closed sweep. *)
Section Quoted.
  Variable St : Type.
  Variable step : St -> N -> option (St * text).
  Variable st_eqb : St -> St -> bool.
  Hypothesis st_eqb_eq : forall a b, st_eqb a b = true -> a = b.
  Variable t : table.
  Variable val : N -> text.
  Variable dom : N -> bool.
  Variable bodies : list St.
  Variable endst : N -> St.
  Variable refusal : raise_kind.

  Definition in_bodies (s : St) : bool := existsb (st_eqb s) bodies.

  Definition char_good (c : N) : bool :=
    if dom c then
      in_bodies (endst c) &&
      forallb (fun b => char_ok step st_eqb t b (endst c) val None c) bodies
    else
      match esc1 t c None with
      | Err k => match k, refusal with
                 | RValueError, RValueError | RViolation, RViolation
                 | RAssertionError, RAssertionError => true
                 | _, _ => false
                 end
      | _ => false
      end.

  Definition table_good : Prop :=
    table_no_next t = true /\ all_below 1114112 char_good = true.

  Hypothesis Hgood : table_good.

  Lemma in_bodies_In : forall s, in_bodies s = true -> In s bodies.
  Proof.
    intros s H. unfold in_bodies in H. apply existsb_exists in H.
    destruct H as [b [Hb He]]. apply st_eqb_eq in He. subst. exact Hb.
  Qed.

  Lemma char_good_dom : forall c, c <= max_cp -> dom c = true ->
    In (endst c) bodies /\
    forall b, In b bodies ->
      exists o, esc1 t c None = Ok o /\ run step b o = Some (endst c, val c).
  Proof.
    intros c Hc Hd. destruct Hgood as [_ Hsw].
    pose proof (sweep_spec _ Hsw c Hc) as H. unfold char_good in H. rewrite Hd in H.
    apply andb_true_iff in H. destruct H as [H1 H2]. split.
    - apply in_bodies_In. exact H1.
    - intros b Hb. rewrite forallb_forall in H2.
      apply (char_ok_spec step st_eqb st_eqb_eq). apply H2. exact Hb.
  Qed.

  Lemma char_good_refused : forall c, c <= max_cp -> dom c = false ->
    esc1 t c None = Err refusal.
  Proof.
    intros c Hc Hd. destruct Hgood as [_ Hsw].
    pose proof (sweep_spec _ Hsw c Hc) as H. unfold char_good in H. rewrite Hd in H.
    destruct (esc1 t c None) as [o | k | k]; try discriminate.
    destruct k, refusal; try discriminate; reflexivity.
  Qed.

  Lemma esc1_nn : forall c n, esc1 t c n = esc1 t c None.
  Proof. intros c n. apply esc1_no_next. destruct Hgood as [H _]. exact H. Qed.

  Lemma body_roundtrip : forall s, wf_text s -> forallb dom s = true ->
    exists o, escape t s = Ok o /\
      forall b, In b bodies -> exists e, In e bodies /\ run step b o = Some (e, flat_map val s).
  Proof.
    induction s as [| c r IH]; intros Hwf Hdom.
    - exists []. split; [reflexivity |]. intros b Hb. exists b. split; [exact Hb | reflexivity].
    - apply wf_text_cons in Hwf. destruct Hwf as [Hc Hr].
      cbn [forallb] in Hdom. apply andb_true_iff in Hdom. destruct Hdom as [Hd Hdr].
      destruct (IH Hr Hdr) as [o' [He' Hrun']].
      destruct (char_good_dom c Hc Hd) as [Hend Hall].
      destruct bodies as [| b0 bs] eqn:Eb.
      + destruct Hend.
      + destruct (Hall b0 (or_introl eq_refl)) as [o [He _]].
        exists (o ++ o'). split.
        * apply escape_cons_ok; [rewrite esc1_nn; exact He | exact He'].
        * intros b Hb. destruct (Hall b Hb) as [o2 [He2 Hr2]].
          rewrite He in He2. injection He2 as <-.
          destruct (Hrun' (endst c) Hend) as [e [Hin Hre]].
          exists e. split; [exact Hin |].
          cbn [flat_map]. apply (run_app_some step o o' b _ _ _ _ Hr2 Hre).
  Qed.

  Lemma refused : forall s, wf_text s -> forallb dom s = false -> escape t s = Err refusal.
  Proof.
    induction s as [| c r IH]; intros Hwf Hdom; [discriminate |].
    apply wf_text_cons in Hwf. destruct Hwf as [Hc Hr].
    cbn [forallb] in Hdom. cbn [escape]. rewrite esc1_nn.
    destruct (dom c) eqn:Hd.
    - cbn [andb] in Hdom. destruct (char_good_dom c Hc Hd) as [Hend Hall].
      destruct bodies as [| b0 bs]; [destruct Hend |].
      destruct (Hall b0 (or_introl eq_refl)) as [o [He _]]. rewrite He.
      rewrite (IH Hr Hdom). reflexivity.
    - rewrite (char_good_refused c Hc Hd). reflexivity.
  Qed.

  (** The whole literal [pre ++ body ++ suf]. *)
  Variable start done : St.
  Variable pre suf : text.
  Variable b0 : St.
  Hypothesis Hb0 : In b0 bodies.
  Hypothesis Hpre : run step start pre = Some (b0, []).
  Hypothesis Hsuf : forall b, In b bodies -> run step b suf = Some (done, []).

  Lemma quoted_roundtrip : forall s, wf_text s -> forallb dom s = true ->
    exists o, escape t s = Ok o /\
      run step start (pre ++ o ++ suf) = Some (done, flat_map val s).
  Proof.
    intros s Hwf Hdom. destruct (body_roundtrip s Hwf Hdom) as [o [He Hrun]].
    exists o. split; [exact He |].
    destruct (Hrun b0 Hb0) as [e [Hin Hre]].
    pose proof (run_app_some step o suf b0 e _ done [] Hre (Hsuf e Hin)) as H1.
    pose proof (run_app_some step pre (o ++ suf) start b0 [] done _ Hpre H1) as H2.
    cbn [app] in H2. rewrite app_nil_r in H2. exact H2.
  Qed.
End Quoted.

Lemma last_app_single : forall (a : text) x d, last (a ++ [x]) d = x.
Proof.
  induction a as [| y a IH]; intros x d; [reflexivity |].
  cbn [app]. destruct (a ++ [x]) eqn:E.
  - destruct a; discriminate.
  - rewrite <- E. cbn [last]. rewrite E. rewrite <- E. apply IH.
Qed.

Arguments table_good {St} step st_eqb t val dom bodies endst refusal.
Arguments char_good {St} step st_eqb t val dom bodies endst refusal c.
Arguments quoted_roundtrip {St} step st_eqb st_eqb_eq t val dom bodies endst refusal Hgood
  start done pre suf b0 Hb0 Hpre Hsuf s _ _.
Arguments refused {St} step st_eqb st_eqb_eq t val dom bodies endst refusal Hgood s _ _.
