(** C18 — Regex virtual-machine programs match like the pattern.

    Models: [Model/RevmTree.v] (regex AST of the real parser + matching semantics),
    [Model/Revm.v] (intermediate/revm.py: translator with label counter, relabelling,
    no-op removal), [Model/RevmComp.v] (label-free compilation), [Model/RevmVM.v]
    (instruction semantics; the generated C++ [Match] loop on fuel).
    This file contains only statements, [exact]s / [vm_compute]s and [Print Assumptions]. *)
From Coq Require Import List NArith Bool Arith.
From Coq Require Strings.String.
Import Coq.Strings.String.StringSyntax.
From Acg Require Import Base.Outcome Base.Str Model.RevmTree Model.Revm Model.RevmVM
  Model.RevmComp Model.RevmShape Proofs.RevmFrag Proofs.RevmCompCorrect Proofs.RevmTop Proofs.RevmTargets
  Proofs.RevmLabels Proofs.RevmTrSpec Proofs.RevmRelabel Proofs.RevmShape Proofs.RevmCpp.
Import ListNotations.
Open Scope N_scope.

(** ** sample trees (as printed by the harness from the real parser) *)
Definition star (v : value) : term := Term v (Some (mkQ false 0%nat None)).
Definition lit (c : N) : term := Term (VChar c) None.
Definition anchored_of (mid : list term) : regex :=
  UCons (concat_of_terms (t_start :: mid ++ [t_end])) UNil.

(** the pattern  ^ ( a-star )-star $  *)
Definition t_star_star : regex :=
  anchored_of [star (VGroup (UCons (CCons (star (VChar 97)) CNil) UNil))].
(** the pattern ^(ab|c)+[^x-z]{2,3}. * $ , here with the . * $ shortcut *)
Definition mixed_mid : list term :=
    [Term (VGroup (UCons (CCons (lit 97) (CCons (lit 98) CNil))
                  (UCons (CCons (lit 99) CNil) UNil)))
          (Some (mkQ false 1%nat None));
     Term (VSet true [(120, Some 122)]) (Some (mkQ false 2%nat (Some 3%nat)));
     star (VSym SDot)].
Definition t_mixed : regex := anchored_of mixed_mid.
(** [^a^b$] *)
Definition t_inner_start : regex := anchored_of [lit 97; t_start; lit 98].
(** [^a+?$] *)
Definition t_non_greedy : regex :=
  anchored_of [Term (VChar 97) (Some (mkQ true 1%nat None))].

(** ** 1. Fragment invariant of the compilation, for every sub-tree, every program
    containing the fragment at offset [a], every word without line breaks:
    the code of the sub-tree relates positions exactly like its denotation. *)
Theorem C18_comp_fragment : forall (p : list instr) (w : list N), no_linebreak w ->
  (forall v, okv v = true -> forall a, at_off p a (comp_v v a) ->
             frag p w a (a + vlen v) (dv w v))
  /\ (forall t, okt t = true -> forall a, at_off p a (comp_t t a) ->
                frag p w a (a + tlen t) (dt w t))
  /\ (forall c, okc c = true -> forall a, at_off p a (comp_c c a) ->
                frag p w a (a + clen c) (dc w c))
  /\ (forall u, oku u = true -> forall a, at_off p a (comp_alts u (a + ulen u) a) ->
                frag p w a (a + ulen u) (du w u)).
Proof. exact comp_frag. Qed.
Print Assumptions C18_comp_fragment.

(** ** 2. Compiler correctness of the label-free compilation: for every anchored pattern
    [^ mid $] whose inner terms contain no further start anchor and only ordered
    quantifier bounds, the program accepts a word without line breaks iff the pattern
    fully matches it ([.*$ => match] shortcut included). All trees, all words. *)
Theorem C18_comp_regex_correct : forall c mid w,
  terms_of c = t_start :: mid ++ [t_end] -> forallb okt mid = true -> no_linebreak w ->
  (vm_accepts (comp_regex (UCons c UNil)) w <-> matches w (UCons c UNil)).
Proof. exact comp_regex_correct. Qed.
Print Assumptions C18_comp_regex_correct.

(** ** 3. translate_correct — full.
    [accepted_shape r]: r = [^ mid $] where the terms of [mid] contain no start anchor,
    have ordered quantifier bounds and character sets with ordered, pairwise disjoint
    ranges (what the parser builds and the front end lets through); [greedy r]: no
    non-greedy quantifier (the translator refuses those, see 4.).

    First the syntactic heart: the labelled translation ([_Translator] with its label
    counter), [_relabel_in_place], [_remove_noop_in_place] and the flattening produce
    exactly the label-free compilation. Proved in three stages: (1) per constructor, the
    labelled code resolves to [comp_*] under any resolution that sends each label to the
    number of real leaves before its definition ([Proofs/RevmTrSpec.v]); (2) the reversed
    loop of [_relabel_in_place] computes that resolution, its assertion and dict lookups
    cannot fail ([Proofs/RevmRelabel.v]); (3) no-op removal + flattening. *)
Theorem C18_program_is_comp : forall r, accepted_shape r -> greedy r = true ->
  program r = Ok (comp_regex r).
Proof. exact program_comp_regex. Qed.
Print Assumptions C18_program_is_comp.

(** The program emitted for an accepted greedy anchored pattern accepts a word without
    line breaks iff the pattern fully matches it. All trees, all words; no side condition
    (the stream "comp" still evaluates [program t = comp_regex t] per tree as a cross-check
    of the model against the real translator). *)
Theorem C18_translate_correct : forall r, accepted_shape r -> greedy r = true ->
  exists p, program r = Ok p
            /\ forall w, no_linebreak w -> (vm_accepts p w <-> matches w r).
Proof. exact translate_correct. Qed.
Print Assumptions C18_translate_correct.

Example C18_side_condition_star_star :
  program t_star_star = Ok (comp_regex t_star_star)
  /\ comp_regex t_star_star
     = [ISplit 1 5; ISplit 2 4; IChar 97; IJump 1; IJump 0; IEnd; IMatch]%nat.
Proof. vm_compute. split; reflexivity. Qed.
Print Assumptions C18_side_condition_star_star.

Example C18_side_condition_mixed :
  program t_mixed = Ok (comp_regex t_mixed) /\ targets_ok (comp_regex t_mixed) = true.
Proof. vm_compute. split; reflexivity. Qed.
Print Assumptions C18_side_condition_mixed.

Example C18_accepted_shape_mixed : accepted_shape t_mixed /\ greedy t_mixed = true.
Proof.
  split; [|vm_compute; reflexivity].
  exists (concat_of_terms (t_start :: mixed_mid ++ [t_end])), mixed_mid.
  split; [reflexivity|]. split; vm_compute; reflexivity.
Qed.
Print Assumptions C18_accepted_shape_mixed.

(** non-vacuity of 2./3.: the hypotheses hold for [t_mixed] and the word "abcab!!zzz"
    is matched (so it is accepted by the program), "ab" is not *)
Example C18_nonvacuous :
  forallb okt [Term (VGroup (UCons (CCons (lit 97) (CCons (lit 98) CNil))
                            (UCons (CCons (lit 99) CNil) UNil)))
                    (Some (mkQ false 1%nat None));
               Term (VSet true [(120, Some 122)]) (Some (mkQ false 2%nat (Some 3%nat)));
               star (VSym SDot)] = true
  /\ greedy t_mixed = true /\ eps_cyclic (comp_regex t_mixed) = false
  /\ matchb (s2l "abcab!!zzz") t_mixed = true /\ matchb (s2l "ab") t_mixed = false
  /\ cpp_match true shipped_fuel (comp_regex t_mixed) (s2l "abcab!!zzz")
     = Ok true
  /\ cpp_match true shipped_fuel (comp_regex t_mixed) (s2l "ab")
     = Ok false.
Proof. vm_compute. repeat split; reflexivity. Qed.
Print Assumptions C18_nonvacuous.

(** ** 4. translate_total / labels_wf — full for greedy patterns.
    The translation of an accepted greedy pattern never raises (none of the assertions,
    icontract preconditions, dict lookups of [revm.py] can fire), and every jump/split
    target of the emitted program is an index of the program (so the validation loop at
    the top of the C++ [Match] never throws and [Spawn] never indexes outside [has_]).
    Without [greedy r] totality is REFUTED for the code as it is
    ([C18_translate_total_refuted], known finding [nongreedy-notimplemented]). *)
Theorem C18_translate_total : forall r, greedy r = true -> accepted_shape r ->
  (exists out, translate r = Ok out) /\ forall k, program r <> Crash k.
Proof. exact translate_total. Qed.
Print Assumptions C18_translate_total.

Theorem C18_labels_wf : forall r, accepted_shape r -> greedy r = true ->
  exists p, program r = Ok p /\ targets_ok p = true.
Proof. exact labels_wf. Qed.
Print Assumptions C18_labels_wf.

Theorem C18_inner_start_rejected_by_front_end :
  translate t_inner_start = Crash AssertionError /\ fe_accepts t_inner_start = false
  /\ anchored t_inner_start = true.
Proof. vm_compute. repeat split; reflexivity. Qed.
Print Assumptions C18_inner_start_rejected_by_front_end.

Theorem C18_translate_total_refuted :
  exists r, fe_accepts r = true /\ greedy r = false
            /\ translate r = Crash NotImplementedError.
Proof. exists t_non_greedy. vm_compute. repeat split; reflexivity. Qed.
Print Assumptions C18_translate_total_refuted.

(** ** 5. character sets: sorting the ranges does not change membership (all sets) *)
Theorem C18_set_instruction_sound : forall compl rs c,
  consumes (set_instr compl rs) c = xorb compl (in_ranges c rs).
Proof. exact consumes_set. Qed.
Print Assumptions C18_set_instruction_sound.

(** ** 6. the generated C++ matcher.
    [ranges_bsearch_correct] — full: on ranges as the C++ constructors accept them (sorted,
    pairwise disjoint, ordered bounds) [CharacterInRanges] (1-range shortcut, binary search
    with the <= 3 linear scan) returns exactly the membership. *)
Theorem C18_ranges_bsearch_correct : forall rs c,
  cpp_ranges_ok rs = true -> bounds_ok rs = true ->
  char_in_ranges rs c = Some (in_rs c rs).
Proof. exact char_in_ranges_correct. Qed.
Print Assumptions C18_ranges_bsearch_correct.

(** [cpp_match_refines], full statement (NOT proved in general):
      cpp_match true fuel p w = Ok b -> (b = true <-> vm_accepts p w).
    Proved (hence [_partial]): the direction for the verdict [true], for EVERY program,
    word, fuel and both variants of [Pop] — when the matcher returns true, some thread of
    the documented semantics reaches [match]. Missing: the verdict [false] (closure of the
    set of popped program counters under epsilon-steps; needs a ghost "processed" set) and
    termination for epsilon-acyclic programs; both are only validated (streams
    "cpp-model", "cpp-loop", "cpp").
      cpp_match_terminates : REFUTED for the matcher as shipped, where
    [ThreadList::Pop] clears [has_]: on the program of t_star_star (an epsilon-cycle
    0 -> 1 -> 4 -> 0) and the word "a" the loop is still running after 5000
    iterations of one phase (the compiled C++ never returns: known finding
    [cpp-match-epsilon-cycle-nontermination], see docs/C18.md), whereas
    with the flag kept until [Clear] it answers within [enough_fuel]. *)
Theorem C18_cpp_match_refines_partial : forall cop fuel p w,
  cpp_match cop fuel p w = Ok true -> vm_accepts p w.
Proof. exact cpp_match_true_accepts. Qed.
Print Assumptions C18_cpp_match_refines_partial.

(** end-to-end corollary: if the generated matcher answers true on the program emitted
    for an accepted greedy pattern, the pattern fully matches the word *)
Theorem C18_cpp_true_implies_match : forall r p fuel w,
  accepted_shape r -> greedy r = true -> program r = Ok p -> no_linebreak w ->
  cpp_match true fuel p w = Ok true -> matches w r.
Proof.
  intros r p fuel w Hs Hg Hp Hw Hc.
  destruct (translate_correct r Hs Hg) as [p' [Hp' Hiff]].
  rewrite Hp in Hp'. inversion Hp'; subst p'. apply (Hiff w Hw).
  exact (cpp_match_true_accepts true fuel p w Hc).
Qed.
Print Assumptions C18_cpp_true_implies_match.

Theorem C18_cpp_match_terminates_refuted :
  exists p w, program t_star_star = Ok p
    /\ eps_cyclic p = true
    /\ cpp_match true (50 * 100)%nat p w = Crash OutOfFuel
    /\ cpp_match false (enough_fuel p) p w = Ok true.
Proof.
  exists (comp_regex t_star_star), (s2l "a"). vm_compute. repeat split; reflexivity.
Qed.
Print Assumptions C18_cpp_match_terminates_refuted.
