"""Shared harness code of C13 / C14 (XSD generator): pattern generator, a strict checker
of the XSD regular-expression grammar, Coq printers for regex trees, and the runner of the
meta-model stream (generated meta-model -> real CLI xsd + python -> documents -> verdicts).

Wraps the shared generator ``harness/gen/metamodel.py`` (not edited)."""
from __future__ import annotations

import concurrent.futures
import random
from typing import Any, Dict, List, Optional, Tuple

from harness import lib
from harness.gen import metamodel as mmg
from harness.lib import coq_bool, coq_list, coq_n, coq_nat, coq_option, coq_text

# --------------------------------------------------------------------------------------
# patterns
# --------------------------------------------------------------------------------------
#: minimised witnesses and past disagreements; always run first
CORPUS_PATTERNS = [
    "^a\\x2a$",            # encoded '*' must stay a literal
    "^a\\x7cb$",           # encoded '|'
    "^\\x28a\\x29$",       # encoded parentheses
    "^a\\x2e$", "^a\\x3f$", "^a\\x2b$", "^\\x5bq\\x5d$", "^\\x7b1\\x7d$",
    "^[\\x5e-a]$",         # encoded '^' first in a set must not negate it
    "^[a\\x2db]$",         # encoded '-' in the middle of a set must not build a range
    "^[\\x5d]$", "^[\\x5c]$", "^[a\\x5d-\\x7e]$",
    "^\\\\x41$",           # literal backslash followed by x41: not an escape at all
    "^\\\\xZZ$",           # ... and not even hexadecimal
    "^\\\\\\x41$",
    "^a\\$b$", "^\\$$", "^[$]$", "^\\^a$",
    "^\\u00e4$", "^\\u002a$", "^\\ud7ff$", "^\\U0001F600$", "^[\\u00e0-\\u00ff]+$",
    "^[\\x80-\\xff]+$", "^\\x20\\x41$", "^\\xe4$",
    "^$", "^a$", "^(^a$)$", "^a^b$", "^a$b$", "^(a|^b)$", "^a|b$", "^a$|^b$",
    "^[-a]$", "^[a-]$", "^[a\\-b]$", "^[\\^a]$", "^[a^]$", "^[^a]$", "^[^^]$",
    "^a{2}$", "^a{2,}$", "^a{,3}$", "^a{0,1}$", "^a{1,}$", "^a*?$", "^a+?b$", "^a??$",
    "^.$", "^.*$", "^\\.$", "^\\t$", "^[\\t ]$", "^\\{\\}$", "^\\#$",
    "^[!#$%&'*+\\-.^_`|~0-9a-zA-Z]+$", "^a\\+b$", "^(a|b)*c$", "^((a)|(b))+$",
    "^\"q\"<&>$",
]


def random_pattern(rng: random.Random) -> str:
    """Anchored patterns of the subset the front end accepts, rich in the constructs that
    matter for the XSD translation (encoded characters, characters special in one of the
    two dialects, sets with dashes and carets, inner anchors, all quantifier forms)."""
    r = rng.random()
    if r < 0.25:
        return mmg.random_pattern(rng, non_greedy=rng.random() < 0.1)
    specials = "*+?.|()[]{}^$\\-#&<>\"'/ "
    lits = "abcxyzABZ019_" + specials

    def enc(cp: int) -> str:
        k = rng.random()
        if cp < 256 and k < 0.6:
            return "\\x%02x" % cp if rng.random() < 0.7 else "\\x%02X" % cp
        if cp < 0x10000:
            # the front end refuses \\U escapes below the supplementary planes
            return "\\u%04x" % cp
        return "\\U%08x" % cp

    def lit_char() -> str:
        c = rng.choice(lits)
        k = rng.random()
        if k < 0.30:
            return enc(ord(c))
        if c in "*+?.()[]^$\\#":
            return "\\" + c
        if c in "|{}":
            return enc(ord(c))
        return c

    def set_char() -> str:
        c = rng.choice("abcxyz019_-^]\\[$.*|& ")
        k = rng.random()
        if k < 0.35:
            return enc(ord(c))
        if c in "]\\[-^":
            return "\\" + c
        return c

    def char_set() -> str:
        neg = rng.random() < 0.2
        parts = []
        for _ in range(rng.randint(1, 4)):
            if rng.random() < 0.4:
                lo = rng.choice("aA0 \x80")
                hi = chr(ord(lo) + rng.randint(0, 25))
                a = enc(ord(lo)) if rng.random() < 0.3 else lo
                b = enc(ord(hi)) if rng.random() < 0.3 else hi
                parts.append(a + "-" + b)
            else:
                parts.append(set_char())
        body = "".join(parts)
        if rng.random() < 0.1:
            body = "-" + body
        if rng.random() < 0.1:
            body = body + "-"
        return "[" + ("^" if neg else "") + body + "]"

    quants = ["", "", "", "*", "+", "?", "{2}", "{1,3}", "{2,}", "{,2}", "{0,1}", "{1,}"]

    def atom(depth: int) -> str:
        k = rng.random()
        if k < 0.40:
            return lit_char()
        if k < 0.60:
            return char_set()
        if k < 0.68:
            return "."
        if k < 0.72 and depth > 0:
            return rng.choice(["^", "$"])
        if depth < 2:
            alts = ["".join(piece(depth + 1) for _ in range(rng.randint(0, 3)))
                    for _ in range(rng.randint(1, 3))]
            if all(a == "" for a in alts):
                alts[0] = "a"
            alts = [a if a != "" else "b" for a in alts]
            return "(" + "|".join(alts) + ")"
        return lit_char()

    def piece(depth: int) -> str:
        a = atom(depth)
        if a in ("^", "$"):
            return a
        q = rng.choice(quants)
        if q and rng.random() < 0.05:
            q += "?"
        return a + q

    body = "".join(piece(0) for _ in range(rng.randint(0, 5)))
    return "^" + body + "$"


def accepted_by_front_end(tree: Optional[dict]) -> bool:
    """Mirror of intermediate._verify_patterns_anchored_at_start_and_end on the tree."""
    if tree is None or tree["k"] != "union" or len(tree["cs"]) != 1:
        return False
    ts = tree["cs"][0]["ts"]
    return len(ts) >= 1 and ts[0]["k"] == "start" and ts[-1]["k"] == "end"


def anchor_free_mid(tree: dict) -> bool:
    def free(t):
        k = t["k"]
        if k in ("start", "end"):
            return False
        if k == "union":
            return all(free(c) for c in t["cs"])
        if k == "concat":
            return all(free(c) for c in t["ts"])
        if k == "quant":
            return free(t["v"])
        if k == "group":
            return free(t["u"])
        return True
    return all(free(t) for t in tree["cs"][0]["ts"][1:-1])


# --------------------------------------------------------------------------------------
# strict XSD (1.0 / 1.1, Appendix "Regular Expressions") syntax check of a pattern facet
# --------------------------------------------------------------------------------------
_SINGLE_ESC = set("nrt\\|.?*+(){}-[]^")
_MULTI_ESC = set("sSiIcCdDwW")


def xsd_regex_error(p: str) -> Optional[str]:
    """None if ``p`` is in the XSD regular-expression grammar, else a short reason."""
    n = len(p)
    pos = 0

    def esc(i: int) -> Tuple[Optional[int], Optional[str]]:
        if i + 1 >= n:
            return None, "dangling backslash"
        c = p[i + 1]
        if c in _SINGLE_ESC or c in _MULTI_ESC:
            return i + 2, None
        if c in "pP":
            j = p.find("}", i)
            if i + 2 < n and p[i + 2] == "{" and j > 0:
                return j + 1, None
            return None, "malformed category escape"
        return None, f"escape \\{c} is not defined in XSD regular expressions"

    def char_class(i: int) -> Tuple[Optional[int], Optional[str]]:
        # p[i] == '['
        i += 1
        if i < n and p[i] == "^":
            i += 1
        count = 0
        while True:
            if i >= n:
                return None, "unterminated character class"
            c = p[i]
            if c == "]":
                if count == 0:
                    return None, "empty character class"
                return i + 1, None
            if c == "[":
                return None, "unescaped [ in a character class"
            if c == "-" and i + 1 < n and p[i + 1] == "[":
                j, e = char_class(i + 1)
                if e:
                    return None, e
                if j is None or j >= n or p[j] != "]":
                    return None, "malformed character class subtraction"
                return j + 1, None
            if c == "\\":
                i2, e = esc(i)
                if e:
                    return None, e
                i = i2
            else:
                i += 1
            count += 1

    def regexp(i: int, depth: int) -> Tuple[Optional[int], Optional[str]]:
        can_quantify = False
        while i < n:
            c = p[i]
            if c == ")":
                if depth == 0:
                    return None, "unbalanced )"
                return i, None
            if c == "|":
                can_quantify = False
                i += 1
                continue
            if c in "?*+":
                if not can_quantify:
                    return None, f"quantifier {c} without an atom (lazy quantifiers do not exist in XSD)"
                can_quantify = False
                i += 1
                continue
            if c == "{":
                if not can_quantify:
                    return None, "unexpected {"
                j = p.find("}", i)
                if j < 0:
                    return None, "unterminated quantity"
                body = p[i + 1:j]
                import re as _re
                if not _re.fullmatch(r"[0-9]+(,[0-9]*)?", body):
                    return None, f"malformed quantity {{{body}}}"
                can_quantify = False
                i = j + 1
                continue
            if c == "}":
                return None, "unescaped }"
            if c == "]":
                return None, "unescaped ]"
            if c == "(":
                j, e = regexp(i + 1, depth + 1)
                if e:
                    return None, e
                if j is None or j >= n or p[j] != ")":
                    return None, "unbalanced ("
                i = j + 1
            elif c == "[":
                j, e = char_class(i)
                if e:
                    return None, e
                i = j
            elif c == "\\":
                j, e = esc(i)
                if e:
                    return None, e
                i = j
            else:
                i += 1
            can_quantify = True
        if depth > 0:
            return None, "unbalanced ("
        return i, None

    _, err = regexp(pos, 0)
    return err


# --------------------------------------------------------------------------------------
# Coq printers (types of Model/XsdPattern.v)
# --------------------------------------------------------------------------------------
def coq_re(t: dict) -> str:
    k = t["k"]
    if k == "union":
        return "(RUnion " + coq_list(coq_re(c) for c in t["cs"]) + ")"
    if k == "concat":
        return "(RConcat " + coq_list(coq_re(c) for c in t["ts"]) + ")"
    if k == "quant":
        mx = coq_option(None if t["max"] is None else coq_small_nat(t["max"]))
        return f"(RQuant {coq_re(t['v'])} (mkQ {coq_bool(t['ng'])} {coq_small_nat(t['min'])} {mx}))"
    if k == "group":
        return f"(RGroup {coq_re(t['u'])})"
    if k == "char":
        return f"(RChar {coq_n(t['c'])} {coq_bool(t['enc'])})"
    if k == "set":
        rs = coq_list(
            f"(mkR {coq_n(s)} {coq_bool(se)} {coq_option(None if e is None else coq_n(e))} {coq_bool(ee)})"
            for s, se, e, ee in t["rs"])
        return f"(RSet {coq_bool(t['neg'])} {rs})"
    return {"start": "RStart", "end": "REnd", "dot": "RDot"}[k]


def coq_small_nat(n: int) -> str:
    return coq_nat(n)


def quant_depth(t: dict) -> int:
    k = t["k"]
    if k == "union":
        return max([quant_depth(c) for c in t["cs"]] + [0])
    if k == "concat":
        return max([quant_depth(c) for c in t["ts"]] + [0])
    if k == "quant":
        return 1 + quant_depth(t["v"])
    if k == "group":
        return quant_depth(t["u"])
    return 0


def tree_has_big_numbers(t: dict) -> bool:
    k = t["k"]
    if k == "union":
        return any(tree_has_big_numbers(c) for c in t["cs"])
    if k == "concat":
        return any(tree_has_big_numbers(c) for c in t["ts"])
    if k == "quant":
        return t["min"] > 400 or (t["max"] or 0) > 400 or tree_has_big_numbers(t["v"])
    if k == "group":
        return tree_has_big_numbers(t["u"])
    return False


# --------------------------------------------------------------------------------------
# meta-model stream
# --------------------------------------------------------------------------------------
def python_snippets(mm: mmg.MetaModel) -> Dict[str, str]:
    """``synth_snippets(mm, "python")`` with *runnable* bodies for the implementation-specific
    verification functions (the generated SDK is imported and executed here)."""
    out = dict(mmg.synth_snippets(mm, "python"))
    for fn in mm.verification_functions:
        if fn.kind != "implementation_specific":
            continue
        name = "_".join(part.lower() for part in fn.name.split("_"))
        args = ", ".join(a[0] for a in fn.args)
        out[f"Verification/{fn.name}.py"] = (
            f"def {name}({args}) -> bool:\n"
            f'    """Accept everything (dummy of the verification harness)."""\n'
            f"    return True\n")
    return out


def inject_patterns(mm: mmg.MetaModel, rng: random.Random, share: float) -> List[str]:
    """Replace the patterns of some pattern functions by generated ones which the front
    end accepts and Python's ``re`` compiles (hostile to the XSD translation)."""
    import re
    changed = []
    for fn in mm.verification_functions:
        if fn.kind != "pattern" or rng.random() >= share:
            continue
        for _ in range(20):
            p = rng.choice(CORPUS_PATTERNS) if rng.random() < 0.4 else random_pattern(rng)
            if "\\xZ" in p or "*?" in p or "+?" in p or "??" in p or "}?" in p:
                continue
            if not (p.startswith("^") and p.endswith("$")) or "|" in p and "(" not in p:
                continue
            if any(0xD800 <= cp <= 0xDFFF for cp in _decoded_code_points(p)):
                continue
            try:
                re.compile(p)
            except re.error:
                continue
            fn.pattern = p
            fn.pattern_style = 1
            changed.append(p)
            break
    return changed


def _decoded_code_points(p: str) -> List[int]:
    import re
    out = []
    for m in re.finditer(r"\\u([0-9a-fA-F]{4})|\\U([0-9a-fA-F]{8})", p):
        out.append(int(m.group(1) or m.group(2), 16))
    return out


def gen_models(rng: random.Random, n: int, inject_share: float = 0.5) -> List[Dict[str, Any]]:
    out = []
    profiles = ["small", "small", "tiny", "small", "tiny", "small", "medium"]
    for i in range(n):
        sub = random.Random(rng.getrandbits(64))
        profile = profiles[i % len(profiles)]
        mm = mmg.random_metamodel(sub, profile)
        injected = inject_patterns(mm, sub, inject_share) if i % 2 == 1 else []
        out.append({
            "index": i, "profile": profile, "seed": sub.getrandbits(32), "mm": mm,
            "injected": injected, "text": mmg.render_source(mm),
            "snippets_xsd": mmg.synth_snippets(mm, "xsd"),
            "snippets_python": python_snippets(mm),
        })
    return out


def run_models(models: List[Dict[str, Any]], n_docs: int, mutants_per_doc: int,
               timeout: int = 900, time_budget_s: int = 90) -> List[Dict[str, Any]]:
    def one(m):
        payload = {"mode": "model", "model_text": m["text"], "seed": m["seed"],
                   "n_docs": n_docs, "mutants_per_doc": mutants_per_doc, "time_budget_s": time_budget_s,
                   "snippets_xsd": m["snippets_xsd"], "snippets_python": m["snippets_python"]}
        try:
            return lib.impl_call("xsd_run.py", payload, timeout=timeout)
        except Exception as exc:  # noqa
            if "timed out" in str(exc):
                return {"stage": "timeout", "error": str(exc)[-300:]}
            return {"stage": "harness-exception", "error": str(exc)[-1500:]}

    with concurrent.futures.ThreadPoolExecutor(max_workers=min(12, lib.NCPU)) as pool:
        return list(pool.map(one, models))


def diamond_classes(mm: mmg.MetaModel) -> set:
    """Classes in which some ancestor is reached along two different inheritance paths."""
    out = set()
    for cls in mm.classes:
        seen: Dict[str, int] = {}

        def walk(c):
            for b in c.bases:
                seen[b] = seen.get(b, 0) + 1
                bc = mm.find_class(b)
                if bc is not None:
                    walk(bc)
        walk(cls)
        if any(v > 1 for v in seen.values()):
            out.add(cls.name)
    return out


def lcc(identifier: str) -> str:
    parts = identifier.split("_")
    if len(parts) == 1:
        return parts[0].lower()
    return parts[0].lower() + "".join(p.capitalize() for p in parts[1:])


# --------------------------------------------------------------------------------------
# streams shared by harness/props/c13.py and c14.py
# --------------------------------------------------------------------------------------
HEADER = """From Coq Require Import List NArith ZArith Bool.
From Acg Require Import Base.Str Base.Outcome Model.Retree Model.RetreeParse
  Model.RetreeRender Model.RegexSem Model.XsdPattern Model.XsdGen
  Gen.GenRetreeTables Gen.GenXsd.
Import ListNotations.
Open Scope N_scope.
Definition T : tables := mkTables gen_lit_simple gen_lit_unsupported gen_lit_assert gen_lit_stop
  gen_rng_simple gen_rng_unsupported gen_esc_lit gen_esc_rng.
(* observed result of the implementation: (0 = returned text | 1 = reported error |
   2 = exception, text) *)
Definition res_ok (m : outcome text unit) (i : nat * text) : bool :=
  match m with
  | Ok s => Nat.eqb (fst i) 0 && text_eqb s (snd i)
  | Err _ => Nat.eqb (fst i) 1
  | Crash _ => Nat.eqb (fst i) 2
  end.
Definition verdicts_ok (p : text) (translated : bool) (vs : list (text * bool * bool)) : bool :=
  match parse_string T p with
  | Ok t =>
      forallb (fun v => match v with
                        | (s, pv, xv) =>
                            Bool.eqb (py_match t s) pv
                            && (negb translated || Bool.eqb (xsd_match (xsd_tree t) s) xv)
                        end) vs
  | _ => true
  end.
Definition pattern_case : Type :=
  (text * (nat * text) * (nat * text) * bool * list (text * bool * bool))%type.
Definition pattern_case_ok (c : pattern_case) : bool :=
  match c with
  | (p, undo, tr, translated, vs) =>
      res_ok (undo_x p) undo
      && res_ok (translate T xsd_esc_lit xsd_esc_rng p) tr
      && verdicts_ok p translated vs
  end.
Fixpoint bad_from {A} (ok : A -> bool) (i : nat) (cs : list A) : list nat :=
  match cs with
  | [] => []
  | c :: r => if ok c then bad_from ok (S i) r else i :: bad_from ok (S i) r
  end.
Definition bad_patterns := bad_from pattern_case_ok 0.

(* facets: (member name of the primitive type, inferred length constraint, a pattern facet is
   expected, observed (type, minLength, maxLength, has pattern facet)) *)
Definition oz_text (o : option Z) : option text := option_map dec_z o.
Definition prim_case : Type :=
  (text * option (option Z * option Z) * bool * (text * option text * option text * bool))%type.
Definition lenc_of (l : option (option Z * option Z)) : option len_constraint :=
  option_map (fun p => mkLen (fst p) (snd p)) l.
Definition prim_case_ok (c : prim_case) : bool :=
  match c with
  | (prim, l, haspat, (ty, mn, mx, obs_pat)) =>
      match translate_to_simple_type xsd_primitive_map prim (lenc_of l)
              (if haspat then Some [] else None) with
      | Ok st =>
          text_eqb (st_type st) ty
          && match st_restriction st with
             | None => match mn, mx with None, None => negb obs_pat | _, _ => false end
             | Some r =>
                 option_eqb text_eqb (oz_text (r_min_length r)) mn
                 && option_eqb text_eqb (oz_text (r_max_length r)) mx
                 && Bool.eqb obs_pat (match r_pattern r with Some _ => true | None => false end)
             end
      | _ => false
      end
  end.
Definition bad_prims := bad_from prim_case_ok 0.
(* lists: (inferred length constraint of the list, observed (minOccurs, maxOccurs) of the item) *)
Definition list_case : Type := (option (option Z * option Z) * (text * text))%type.
Definition list_case_ok (c : list_case) : bool :=
  match c with
  | (l, (mn, mx)) =>
      let m := occurs_texts xsd_list_min_default xsd_list_max_default (lenc_of l) in
      text_eqb (fst m) mn && text_eqb (snd m) mx
  end.
Definition bad_lists := bad_from list_case_ok 0.
(* properties: (optional, observed (minOccurs, maxOccurs) attributes, absent = default 1) *)
Definition occ_case : Type := (bool * (option text * option text))%type.
Definition occ_text (o : option text) : option Z :=
  match o with None => Some 1%Z | Some s => Some (Z.of_N (digits_value s)) end.
Definition occ_case_ok (c : occ_case) : bool :=
  match c with
  | (optional, (mn, mx)) =>
      let o := property_occurs optional in
      option_eqb Z.eqb (occ_text mn) (Some (fst o)) && option_eqb Z.eqb (occ_text mx) (snd o)
  end.
Definition bad_occs := bad_from occ_case_ok 0.
"""


def _impl_res(r: Optional[dict]) -> str:
    if r is None:
        return "(2%nat, [])"
    if "ok" in r:
        return f"(0%nat, {coq_text(r['ok'])})"
    if "err" in r:
        return "(1%nat, [])"
    return "(2%nat, [])"


def coqable(s: str) -> bool:
    return all(not (0xD800 <= ord(c) <= 0xDFFF) for c in s)


def pattern_stream(ctx, n_random: int, n_strings: int) -> List[Dict[str, Any]]:
    """Runs the implementation on the pattern corpus + generated patterns and compares with
    the model inside Coq (records corr_breaks). Returns the per-pattern results."""
    rng = random.Random(ctx.rng.getrandbits(64))
    patterns = list(CORPUS_PATTERNS)
    seen = set(patterns)
    tries = 0
    while len(patterns) < len(CORPUS_PATTERNS) + n_random and tries < 20 * n_random:
        tries += 1
        p = random_pattern(rng)
        if p not in seen and len(p) <= 120:
            seen.add(p)
            patterns.append(p)
    results: List[Dict[str, Any]] = []
    B = 100
    batches = [(patterns[k:k + B], rng.getrandbits(32)) for k in range(0, len(patterns), B)]

    def run_batch(job):
        batch, batch_seed = job
        try:
            return lib.impl_call("xsd_run.py", {"mode": "patterns", "patterns": batch,
                                                "seed": batch_seed, "n_strings": n_strings},
                                 timeout=900)
        except lib.HarnessError:
            raise
        except Exception as exc:  # noqa  (subprocess.TimeoutExpired on an overloaded machine)
            return exc

    with concurrent.futures.ThreadPoolExecutor(max_workers=4) as pool:
        outs = list(pool.map(run_batch, batches))
    timed_out = [o for o in outs if isinstance(o, Exception)]
    if timed_out and len(timed_out) == len(outs):
        raise lib.HarnessError(f"every batch of the pattern stream failed: {timed_out[0]!r}"[:600])
    for o in outs:
        if not isinstance(o, Exception):
            results += o
    if timed_out:
        ctx.assume(f"{len(timed_out)} of {len(outs)} pattern batches timed out and were skipped")
    cases = []
    index = []
    for i, r in enumerate(results):
        tree = (r.get("parse_orig") or {}).get("ok")
        if tree is not None and tree_has_big_numbers(tree):
            continue
        if "exc" in (r.get("parse_orig") or {}):
            continue  # the parser itself raises: property C16 / C01, not the XSD translation
        verdicts = r.get("verdicts") or []
        if tree is None or quant_depth(tree) >= 3:
            verdicts = []
        # the executable semantics costs |s|^(quantifier nesting): short strings only
        short = [v for v in verdicts if coqable(v[0]) and len(v[0]) <= 10][:10]
        vs = coq_list(f"({coq_text(s)}, {coq_bool(pv)}, {coq_bool(x10)})"
                      for s, pv, x10, x11 in short)
        translated = "ok" in r["translate"] and r.get("verdicts") is not None
        cases.append("(" + ", ".join([coq_text(r["pattern"]), _impl_res(r["undo"]),
                                      _impl_res(r["translate"]), coq_bool(translated), vs]) + ")")
        index.append(i)
    try:
        bad, _ = lib.run_cases(ctx.work, "patterns", HEADER, "pattern_case", "bad_patterns", cases,
                               shard=150)
    except lib.HarnessError as exc:
        if (lib.THEORIES / "Gen" / "GenXsd.v").exists():
            raise
        # the translator failed closed (the source no longer has the modelled shape): the
        # model cannot be instantiated; the oracle below still runs on the implementation
        ctx.corr_break("patterns", "Gen/GenXsd.v could not be regenerated from the source",
                       "model of the patched _translate_pattern", str(exc)[-400:])
        bad = []
    for b in bad[:15]:
        r = results[index[b]]
        model = lib.coq_eval(ctx.work, "show_pattern", HEADER,
                             f"(undo_x {coq_text(r['pattern'])}, "
                             f"translate T xsd_esc_lit xsd_esc_rng {coq_text(r['pattern'])})")
        ctx.corr_break("patterns", {"pattern": r["pattern"]}, model,
                       {"undo": r["undo"], "translate": r["translate"],
                        "verdicts": (r.get("verdicts") or [])[:6]})
    return results


def facet_stream(ctx, model_results: List[Dict[str, Any]]) -> Dict[str, int]:
    """Value-level model of the facet emission vs. what the real schema says."""
    prim_cases, list_cases, occ_cases = [], [], []
    prim_src, list_src, occ_src = [], [], []
    name = {"bool": "BOOL", "int": "INT", "float": "FLOAT", "str": "STR", "bytearray": "BYTEARRAY"}

    def oz(x):
        return coq_option(None if x is None else lib.coq_z(x))

    def lenc(l):
        return coq_option(None if l is None else f"({oz(l[0])}, {oz(l[1])})")

    def ot(x):
        return coq_option(None if x is None else coq_text(x))

    def add_prim(d, where):
        x = d.get("xsd")
        if x is None:
            return
        relevant = [p for p in d["patterns"]
                    if p != "^[\\x09\\x0A\\x0D\\x20-\\uD7FF\\uE000-\\uFFFD\\U00010000-\\U0010FFFF]*$"]
        prim_cases.append("(" + ", ".join([
            coq_text(name[d["kind"]]), lenc(d["len"]), coq_bool(bool(relevant)),
            f"({coq_text(x['type'] or '')}, {ot(x['minLength'])}, {ot(x['maxLength'])}, "
            f"{coq_bool(x['pattern'] is not None)})"]) + ")")
        prim_src.append((where, d))

    for mi, res in enumerate(model_results):
        for rec in res.get("facets") or []:
            if "kind" not in rec:
                continue
            where = f"model {mi} {rec['cls']}.{rec['prop']}"
            occ_cases.append(f"({coq_bool(rec['optional'])}, ({ot(rec['occurs'][0])}, {ot(rec['occurs'][1])}))")
            occ_src.append((where, rec))
            if rec["kind"] == "list":
                x = rec.get("xsd")
                if x is not None and x["minOccurs"] is not None and x["maxOccurs"] is not None:
                    list_cases.append(f"({lenc(rec['len'])}, ({coq_text(x['minOccurs'])}, {coq_text(x['maxOccurs'])}))")
                    list_src.append((where, rec))
                else:
                    ctx.corr_break("facets-list", where, "item particle with minOccurs/maxOccurs", rec)
                if rec.get("item") and rec["item"]["kind"] in name:
                    add_prim(rec["item"], where + "[item]")
            elif rec["kind"] in name:
                add_prim(rec, where)
    out = {}
    for nm, typ, fn, cases, src in (
            ("facets-prim", "prim_case", "bad_prims", prim_cases, prim_src),
            ("facets-list", "list_case", "bad_lists", list_cases, list_src),
            ("facets-occurs", "occ_case", "bad_occs", occ_cases, occ_src)):
        out[nm] = len(cases)
        if not cases:
            continue
        try:
            bad, _ = lib.run_cases(ctx.work, nm.replace("-", "_"), HEADER, typ, fn, cases)
        except lib.HarnessError as exc:
            if (lib.THEORIES / "Gen" / "GenXsd.v").exists():
                raise
            ctx.corr_break(nm, "Gen/GenXsd.v could not be regenerated from the source",
                           "facet model", str(exc)[-400:])
            bad = []
        for b in bad[:10]:
            ctx.corr_break(nm, src[b][0], "facets of Model/XsdGen.v for the inferred constraint",
                           src[b][1])
    return out


# --------------------------------------------------------------------------------------
# multi-pattern stream: hand-built meta-models in which ONE value carries 3-4 patterns
# (class invariant + constrained primitive + its parent [+ grandparent]) and length bounds
# from different levels; the expected constraints are known by construction (spec level,
# independent of infer_for_schema), the declaration order of the primitives is random.
# --------------------------------------------------------------------------------------
#: pattern families over [a-zA-Z_]; any choice of one member of different families has a
#: non-empty intersection, each member can be broken alone, and greenery renders the
#: intersection without class escapes such as \w or \d (no class equal to [0-9] or
#: [a-zA-Z0-9_] is used: the retree parser refuses \d and \w).
CHAIN_FAMILIES = {
    "letters": ["^[a-zA-Z]*$", "^[a-zA-Z]+$", "^[a-zA-Z]{1,}$"],
    "start": ["^[a-z][a-zA-Z_]*$", "^[a-m][a-zA-Z_]*$", "^(a|b|c|x)[a-zA-Z_]*$"],
    "end": ["^[a-zA-Z_]*[A-Z]$", "^[a-zA-Z_]*[N-Z]$", "^[a-zA-Z_]*(X|Y|Z)$"],
    "size": ["^[a-zA-Z_]{2,9}$", "^[a-zA-Z_]{3,}$", "^[a-zA-Z_]{2,7}$"],
    "contains": ["^[a-zA-Z_]*x[a-zA-Z_]*$", "^[a-zA-Z_]*(ab|xy)[a-zA-Z_]*$"],
}

_CHAIN_TYPE_NAMES = ["Code", "Prefixed_code", "Product_code", "Special_product_code"]
_CHAIN_FN_WORDS = ["letters", "start", "end", "size", "contains"]


def gen_chain_model(rng: random.Random, index: int) -> Dict[str, Any]:
    depth = rng.choice([2, 3, 3, 4])                       # levels of constrained primitives
    n_patterns = rng.choice([3, 3, 4]) if depth >= 3 else 3
    n_patterns = min(n_patterns, depth + 1)
    fams = rng.sample(sorted(CHAIN_FAMILIES), n_patterns)
    pats = [(f, rng.choice(CHAIN_FAMILIES[f])) for f in fams]
    # places: the class invariant always carries one; the levels share the others so that
    # the top-most ancestor always carries one when there are enough patterns
    levels = list(range(depth))
    class_pat = pats[0]
    level_pats: Dict[int, tuple] = {}
    rest = pats[1:]
    order = [0] + rng.sample(levels[1:], len(levels) - 1)  # level 0 = top-most ancestor first
    for lv, p in zip(order, rest):
        level_pats[lv] = p
    # length bounds from two different levels (compatible with all the "size" members)
    len_levels = {}
    if rng.random() < 0.8:
        len_levels[rng.choice(levels)] = ("max", rng.choice([6, 7]))
    if rng.random() < 0.5:
        lv = rng.choice([l for l in levels if l not in len_levels] or levels)
        if lv not in len_levels:
            len_levels[lv] = ("min", rng.choice([2, 3]))
    names = _CHAIN_TYPE_NAMES[:depth]
    fn_defs, cp_defs = [], []
    for f, p in pats:
        fn_defs.append(
            f"@verification\ndef matches_{f}(text: str) -> bool:\n"
            f'    """Check the {f} of the text."""\n'
            f'    return match("{p}", text) is not None\n')
    for lv, name in enumerate(names):
        decos = []
        if lv in level_pats:
            f = level_pats[lv][0]
            decos.append(f'@invariant(\n    lambda self: matches_{f}(self),\n    "The {f} of {name} shall be fine."\n)')
        if lv in len_levels:
            kind, n = len_levels[lv]
            op = "<=" if kind == "max" else ">="
            decos.append(f'@invariant(\n    lambda self: len(self) {op} {n},\n    "The length of {name} shall be {kind} {n}."\n)')
        base = "str" if lv == 0 else names[lv - 1]
        cp_defs.append("\n".join(decos + [f"class {name}({base}, DBC):", f'    """Represent a {name}."""']) + "\n")
    decl = list(range(depth))
    style = index % 3
    if style == 1:
        decl.reverse()                                     # every child before its parent
    elif style == 2:
        rng.shuffle(decl)
    leaf = names[-1]
    optional = rng.random() < 0.3
    f0 = class_pat[0]
    if optional:
        inv = f"not (self.code is not None) or matches_{f0}(self.code)"
        ann, default = f"Optional[{leaf}]", " = None"
    else:
        inv = f"matches_{f0}(self.code)"
        ann, default = leaf, ""
    cls = (f'@invariant(\n    lambda self: {inv},\n    "The {f0} of the code shall be fine."\n)\n'
           f'class Something(DBC):\n    """Represent something with a code."""\n\n'
           f"    marker: str\n\n    code: {ann}\n\n"
           f"    def __init__(self, marker: str, code: {ann}{default}) -> None:\n"
           f"        self.marker = marker\n        self.code = code\n")
    parts = [f'"""Provide a meta-model with several patterns on one value (#{index})."""\n\n',
             mmg._HEADER, '\n\n__version__ = "V0.1"\n\n__xml_namespace__ = "https://example.com/chain"\n']
    text = "".join(parts) + "\n\n" + "\n\n".join(fn_defs) + "\n\n" + \
        "\n\n".join(cp_defs[i] for i in decl) + "\n\n" + cls
    patterns = [p for _, p in pats]
    mn = max([n for k, n in len_levels.values() if k == "min"] + [0])
    mx = min([n for k, n in len_levels.values() if k == "max"] + [10 ** 6])
    return {"index": index, "text": text, "seed": rng.getrandbits(32),
            "spec": {"cls": "Something", "prop": "code", "optional": optional,
                     "patterns": patterns, "families": fams, "min": mn,
                     "max": None if mx == 10 ** 6 else mx,
                     "depth": depth, "declaration_order": [names[i] for i in decl],
                     "levels": {names[lv]: level_pats[lv][1] for lv in level_pats},
                     "lengths": {names[lv]: list(v) for lv, v in len_levels.items()}},
            "snippets_python": {"qualified_module_name.txt": "dummy_chain"}}


def gen_chain_models(rng: random.Random, n: int) -> List[Dict[str, Any]]:
    return [gen_chain_model(random.Random(rng.getrandbits(64)), i) for i in range(n)]


def run_chain_models(models: List[Dict[str, Any]], n_values: int, timeout: int = 900) -> List[Dict[str, Any]]:
    def one(m):
        payload = {"mode": "chain", "model_text": m["text"], "seed": m["seed"], "spec": m["spec"],
                   "n_values": n_values, "snippets_python": m["snippets_python"]}
        try:
            return lib.impl_call("xsd_run.py", payload, timeout=timeout)
        except Exception as exc:  # noqa
            if "timed out" in str(exc):
                return {"stage": "timeout", "error": str(exc)[-300:]}
            return {"stage": "harness-exception", "error": str(exc)[-1500:]}

    with concurrent.futures.ThreadPoolExecutor(max_workers=min(8, lib.NCPU)) as pool:
        return list(pool.map(one, models))


# --------------------------------------------------------------------------------------
# "sites" models: hand-built meta-models for the shapes the random generator rarely makes
#  (i)   list properties (required and optional) whose item class is a concrete class WITH
#        concrete descendants, an abstract class, and a leaf class;
#  (ii)  one constrained primitive used at several sites (several classes, twice in one
#        class) with different site-specific tightenings, in both definition orders;
#  (iii) values constrained only by `in <constant set of primitives>` or only by the general
#        XML-character pattern (nothing for XSD to emit).
# They run through the ordinary model stream (mode "model" of xsd_run.py).
# --------------------------------------------------------------------------------------
XML_PATTERN_TEXT = "^[\\\\x09\\\\x0A\\\\x0D\\\\x20-\\\\uD7FF\\\\uE000-\\\\uFFFD\\\\U00010000-\\\\U0010FFFF]*$"


def _cls(name: str, bases: List[str], props: List[Tuple[str, str]], invariants: List[Tuple[str, str]],
         decorators: List[str], inherited: List[Tuple[str, str]], super_calls: List[Tuple[str, List[str]]]) -> str:
    """A class with an explicit constructor; ``props`` are the own properties (name, type),
    ``inherited`` the constructor arguments passed on to the bases."""
    out = list(decorators)
    for body, desc in invariants:
        out.append(f'@invariant(\n    lambda self: {body},\n    "{desc}"\n)')
    out.append(f"class {name}({', '.join(bases) if bases else 'DBC'}):")
    out.append(f'    """Represent a {name}."""')
    for n, t in props:
        out.append(f"\n    {n}: {t}")
    args = inherited + props
    required = [(n, t) for n, t in args if not t.startswith("Optional[")]
    optional = [(n, t) for n, t in args if t.startswith("Optional[")]
    if args:
        sig = ", ".join(["self"] + [f"{n}: {t}" for n, t in required] + [f"{n}: {t} = None" for n, t in optional])
        out.append(f"\n    def __init__({sig}) -> None:")
        for base, names in super_calls:
            out.append(f"        {base}.__init__(self, " + ", ".join(f"{n}={n}" for n in names) + ")")
        for n, _ in props:
            out.append(f"        self.{n} = {n}")
    return "\n".join(out) + "\n"


def gen_sites_model(rng: random.Random, index: int) -> Dict[str, Any]:
    a, b, c, d = rng.sample([2, 3, 4, 5, 6], 4)          # different site-specific maxima
    base_min = rng.choice([1, 1, 2])
    fns = [
        '@verification\ndef matches_upper_start(text: str) -> bool:\n'
        '    """Check that the text starts with a capital letter."""\n'
        '    return match("^[A-Z][a-zA-Z]*$", text) is not None\n',
        '@verification\ndef matches_xml_serializable_string(text: str) -> bool:\n'
        '    """Check that the text can be written as XML."""\n'
        f'    return match("{XML_PATTERN_TEXT}", text) is not None\n',
    ]
    consts = ['Allowed_codes: Set[str] = constant_set(\n    values=["alpha", "beta", "gamma delta"],\n'
              '    description="Codes which are allowed.",\n)\n',
              'Allowed_marks: Set[str] = constant_set(\n    values=["m1", "m2"],\n'
              '    description="Marks which are allowed.",\n)\n']
    cprims = [
        f'@invariant(\n    lambda self: len(self) >= {base_min},\n    "The label shall have at least {base_min} characters."\n)\n'
        'class Label(str, DBC):\n    """Represent a label."""\n',
        '@invariant(\n    lambda self: matches_xml_serializable_string(self),\n    "The text shall be XML serializable."\n)\n'
        'class Xml_text(str, DBC):\n    """Represent a text for XML."""\n',
        '@invariant(\n    lambda self: self in Allowed_marks,\n    "The mark shall be allowed."\n)\n'
        'class Mark(str, DBC):\n    """Represent a mark."""\n',
    ]
    ser = "@serialization(with_model_type=True)"
    item_family = [
        _cls("Item", [], [("name", "Label")],
             [(f"len(self.name) <= {a}", f"The name shall have at most {a} characters.")], [ser], [], []),
        _cls("Special_item", ["Item"], [("extra", "Optional[Xml_text]")], [], [],
             [("name", "Label")], [("Item", ["name"])]),
        _cls("Very_special_item", ["Special_item"], [("flag", "bool")], [], [],
             [("name", "Label"), ("extra", "Optional[Xml_text]")], [("Special_item", ["name", "extra"])]),
    ]
    shape_family = [
        _cls("Shape", [], [("label", "Label")], [], ["@abstract", ser], [], []),
        _cls("Circle", ["Shape"], [("radius", "float")], [], [], [("label", "Label")], [("Shape", ["label"])]),
        _cls("Square", ["Shape"], [("short_label", "Label"), ("long_label", "Label")],
             [(f"len(self.short_label) <= {b}", f"The short label shall have at most {b} characters."),
              ("matches_upper_start(self.long_label)", "The long label shall start with a capital.")],
             [], [("label", "Label")], [("Shape", ["label"])]),
    ]
    leaf = [_cls("Leaf", [], [("code", "str"), ("text", "Xml_text"), ("mark", "Mark"), ("remark", "Optional[str]"),
                              ("tags", "Optional[List[Mark]]")],
                 [("self.code in Allowed_codes", "The code shall be allowed."),
                  ("not (self.remark is not None) or matches_xml_serializable_string(self.remark)",
                   "The remark shall be XML serializable.")], [], [], [])]
    labels = [("first_label", "Label"), ("second_label", "Label"), ("free_label", "Label")]
    rng.shuffle(labels)
    container = [_cls("Container", [],
                      [("items", "List[Item]"), ("shapes", "List[Shape]"), ("leaves", "List[Leaf]")] + labels
                      + [("specials", "List[Special_item]"), ("maybe_items", "Optional[List[Item]]"),
                         ("maybe_leaves", "Optional[List[Leaf]]"), ("maybe_shapes", "Optional[List[Shape]]")],
                      [(f"len(self.first_label) <= {c}", f"The first label shall have at most {c} characters."),
                       (f"len(self.second_label) <= {d}", f"The second label shall have at most {d} characters."),
                       ("len(self.items) >= 1", "There shall be at least one item.")], [], [], [])]
    blocks = [item_family, shape_family, leaf, container]
    style = index % 3
    if style == 1:
        blocks.reverse()
    elif style == 2:
        rng.shuffle(blocks)
    text = (f'"""Provide a meta-model with lists of classes and shared constrained primitives (#{index})."""\n\n\n'
            + mmg._HEADER + '\n\n__version__ = "V0.1"\n\n__xml_namespace__ = "https://example.com/sites"\n\n\n'
            + "\n\n".join(fns) + "\n\n" + "\n\n".join(consts) + "\n\n" + "\n\n".join(cprims) + "\n\n"
            + "\n\n".join(c_ for blk in blocks for c_ in blk))
    return {"index": f"sites{index}", "profile": "sites", "seed": rng.getrandbits(32), "mm": None,
            "injected": [], "text": text, "snippets_xsd": {},
            "snippets_python": {"qualified_module_name.txt": "dummy_sites"},
            "sites": {"maxima": {"Item.name": a, "Square.short_label": b, "Container.first_label": c,
                                 "Container.second_label": d}, "label_min": base_min,
                      "class_order": [blk[0].split("class ", 1)[1].split("(")[0] for blk in blocks]}}


def gen_sites_models(rng: random.Random, n: int) -> List[Dict[str, Any]]:
    return [gen_sites_model(random.Random(rng.getrandbits(64)), i) for i in range(n)]


def exception_site(exc: Optional[dict]) -> str:
    """``<exception class>-in-<function>``: the innermost frame inside aas_core_codegen."""
    if not exc:
        return "unknown"
    import re as _re
    frames = _re.findall(r'File "([^"]*)", line \d+, in (\S+)', exc.get("traceback") or "")
    fn = next((f for p, f in reversed(frames) if "aas_core_codegen" in p and "icontract" not in p), None)
    return f"{exc.get('class')}-in-{fn or 'unknown'}"
