(** Harness glue for C26: decoders from a flat token list ([list N]) to flows and
    subroutines. Deeply nested list literals are very slow to parse for [coqc]; the
    harness therefore writes every case as two flat number lists (prefix encoding with
    explicit counts) which are decoded here. Executable definitions only.

    seq  ::= n node*n            str ::= len cp*len         opt X ::= 0 | 1 X
    node ::= 0 str | 1 | 2 str seq (opt seq) | 3 str seq (opt seq)
           | 4 (opt str) str str seq | 5 str seq
    subs ::= n sub*n             sub ::= n stmt*n
    stmt ::= (opt nat) kind      kind ::= 0 str | 1 str (opt nat) (opt nat) | 2 nat | 3 | 4 *)
From Coq Require Import List NArith Bool.
From Acg Require Import Base.Outcome Base.Str Model.Flow Model.Linear.
Import ListNotations.
Open Scope N_scope.

Fixpoint take_n {A} (n : nat) (l : list A) : option (list A * list A) :=
  match n with
  | O => Some ([], l)
  | S n' =>
      match l with
      | [] => None
      | x :: r =>
          match take_n n' r with
          | Some (a, b) => Some (x :: a, b)
          | None => None
          end
      end
  end.

Definition dec_str (ts : list N) : option (text * list N) :=
  match ts with
  | n :: r => take_n (N.to_nat n) r
  | [] => None
  end.

Definition dec_opt {A} (d : list N -> option (A * list N)) (ts : list N)
  : option (option A * list N) :=
  match ts with
  | 0 :: r => Some (None, r)
  | 1 :: r => match d r with Some (x, r') => Some (Some x, r') | None => None end
  | _ => None
  end.

Definition dec_nat (ts : list N) : option (nat * list N) :=
  match ts with
  | n :: r => Some (N.to_nat n, r)
  | [] => None
  end.

Fixpoint dec_node (fuel : nat) (ts : list N) : option (node * list N) :=
  match fuel with
  | O => None
  | S f =>
      let dec_seq (ts : list N) : option (list node * list N) :=
        match ts with
        | [] => None
        | n :: r =>
            (fix go (cnt : nat) (ts : list N) : option (list node * list N) :=
               match cnt with
               | O => Some ([], ts)
               | S c =>
                   match dec_node f ts with
                   | Some (x, r1) =>
                       match go c r1 with
                       | Some (xs, r2) => Some (x :: xs, r2)
                       | None => None
                       end
                   | None => None
                   end
               end) (N.to_nat n) r
        end in
      match ts with
      | 0 :: r =>
          match dec_str r with Some (s, r1) => Some (NCommand s, r1) | None => None end
      | 1 :: r => Some (NYield, r)
      | 2 :: r =>
          match dec_str r with
          | Some (c, r1) =>
              match dec_seq r1 with
              | Some (b, r2) =>
                  match dec_opt dec_seq r2 with
                  | Some (oe, r3) => Some (NIfTrue c b oe, r3)
                  | None => None
                  end
              | None => None
              end
          | None => None
          end
      | 3 :: r =>
          match dec_str r with
          | Some (c, r1) =>
              match dec_seq r1 with
              | Some (b, r2) =>
                  match dec_opt dec_seq r2 with
                  | Some (oe, r3) => Some (NIfFalse c b oe, r3)
                  | None => None
                  end
              | None => None
              end
          | None => None
          end
      | 4 :: r =>
          match dec_opt dec_str r with
          | Some (ini, r1) =>
              match dec_str r1 with
              | Some (c, r2) =>
                  match dec_str r2 with
                  | Some (it, r3) =>
                      match dec_seq r3 with
                      | Some (b, r4) => Some (NFor ini c it b, r4)
                      | None => None
                      end
                  | None => None
                  end
              | None => None
              end
          | None => None
          end
      | 5 :: r =>
          match dec_str r with
          | Some (c, r1) =>
              match dec_seq r1 with
              | Some (b, r2) => Some (NWhile c b, r2)
              | None => None
              end
          | None => None
          end
      | _ => None
      end
  end.

Fixpoint dec_many {A} (d : list N -> option (A * list N)) (cnt : nat) (ts : list N)
  : option (list A * list N) :=
  match cnt with
  | O => Some ([], ts)
  | S c =>
      match d ts with
      | Some (x, r1) =>
          match dec_many d c r1 with
          | Some (xs, r2) => Some (x :: xs, r2)
          | None => None
          end
      | None => None
      end
  end.

Definition dec_counted {A} (d : list N -> option (A * list N)) (ts : list N)
  : option (list A * list N) :=
  match ts with
  | n :: r => dec_many d (N.to_nat n) r
  | [] => None
  end.

Definition dec_flow (ts : list N) : option (list node) :=
  match dec_counted (dec_node (S (length ts))) ts with
  | Some (f, []) => Some f
  | _ => None
  end.

Definition dec_stmt (ts : list N) : option (stmt * list N) :=
  match dec_opt dec_nat ts with
  | Some (lab, r) =>
      match r with
      | 0 :: r1 =>
          match dec_str r1 with Some (s, r2) => Some (mk_stmt lab (KCommand s), r2) | None => None end
      | 1 :: r1 =>
          match dec_str r1 with
          | Some (c, r2) =>
              match dec_opt dec_nat r2 with
              | Some (a, r3) =>
                  match dec_opt dec_nat r3 with
                  | Some (b, r4) => Some (mk_stmt lab (KIf c a b), r4)
                  | None => None
                  end
              | None => None
              end
          | None => None
          end
      | 2 :: r1 =>
          match dec_nat r1 with Some (t, r2) => Some (mk_stmt lab (KJump t), r2) | None => None end
      | 3 :: r1 => Some (mk_stmt lab KYield, r1)
      | 4 :: r1 => Some (mk_stmt lab KNoop, r1)
      | _ => None
      end
  | None => None
  end.

Definition dec_subs (ts : list N) : option (list (list stmt)) :=
  match dec_counted (dec_counted dec_stmt) ts with
  | Some (s, []) => Some s
  | _ => None
  end.

(** One correspondence case: encoded flow, and the implementation's observation
    ([None] = an exception escaped, [Some tokens] = the returned subroutines).
    A case that does not decode counts as a disagreement. *)
Definition case_ok (c : list N * option (list N)) : bool :=
  match dec_flow (fst c) with
  | None => false
  | Some f =>
      match snd c with
      | None => agrees (linearize_to_subroutines f) None
      | Some ts =>
          match dec_subs ts with
          | None => false
          | Some subs => agrees (linearize_to_subroutines f) (Some subs)
          end
      end
  end.

Fixpoint bad_from (i : nat) (cs : list (list N * option (list N))) : list nat :=
  match cs with
  | [] => []
  | c :: r => if case_ok c then bad_from (S i) r else i :: bad_from (S i) r
  end.
Definition bad := bad_from 0%nat.

(** Translation validation of the implementation's own output: for a well-formed flow
    on which the implementation returned subroutines, the validator of
    [Model/LinearCheck.v] must accept them (then [C26_validated_correct]
    applies to that very output, for all oracles). *)
From Acg Require Import Model.LinearCheck.
Definition case_valid (c : list N * option (list N)) : bool :=
  match dec_flow (fst c) with
  | None => false
  | Some f =>
      if wf_flow f && negb (is_nil f) then
        match snd c with
        | None => true
        | Some ts => match dec_subs ts with None => false | Some subs => validate f subs end
        end
      else true
  end.

Fixpoint bad2_from (i : nat) (cs : list (list N * option (list N))) : list nat :=
  match cs with
  | [] => []
  | c :: r => if case_ok c && case_valid c then bad2_from (S i) r else i :: bad2_from (S i) r
  end.
Definition bad2 := bad2_from 0%nat.
