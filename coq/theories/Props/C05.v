(** C05 — Intermediate model faithfully resolves inheritance.

    Theorems over the model [Model/Hierarchy.v] of the hierarchy passes of the intermediate
    stage, instantiated with the primitive type names regenerated from the source on every
    run ([Gen/GenHierarchy.v]). [wf]: class names unique, bases exist, acyclic — for ANY
    declaration order. This file contains only statements, [exact]s and [Print Assumptions]. *)
From Coq Require Import List NArith Bool Permutation Relations.
From Coq Require Strings.String.
Import Coq.Strings.String.StringSyntax.
From Acg Require Import Base.Str Base.Outcome Model.Hierarchy Proofs.HierarchyFacts Gen.GenHierarchy.
Import ListNotations.
Open Scope nat_scope.

Definition prims := primitive_type_names.

(** Generated side condition: the primitive type names are the five the model's
    generator and rendering assume, without duplicates. *)
Theorem C05_gen_primitives :
  nodupb prims = true /\ length prims = 5.
Proof. vm_compute. split; reflexivity. Qed.
Print Assumptions C05_gen_primitives.

(** The type order produced by the DFS ([_topologically_sort]) exists for every
    well-formed hierarchy (no crash, no spurious cycle, fuel suffices) and is a
    permutation of the declared classes. *)
Theorem C05_topo_perm : forall m, wf prims m ->
  exists order, topo_sort prims m = Ok order /\ Permutation order (names m).
Proof. exact (topo_perm_thm prims). Qed.
Print Assumptions C05_topo_perm.

(** ... and it is topological: every class comes after all of its bases. *)
Theorem C05_topo_is_topological : forall m, wf prims m -> forall order,
  topo_sort prims m = Ok order ->
  forall l1 c l2, order = l1 ++ c :: l2 -> forall b, base prims m c b -> In b l1.
Proof. exact (topo_is_topological_thm prims). Qed.
Print Assumptions C05_topo_is_topological.

(** Descendants are exactly the inverse of ancestors (whatever the ontology lists). *)
Theorem C05_descendants_inverse : forall m anc a d, In a (names m) ->
  (In d (ir_descendants anc a) <-> In a (ir_ancestors m anc d)).
Proof. exact descendants_inverse_thm. Qed.
Print Assumptions C05_descendants_inverse.

(** No duplicates across diamonds (repaired behaviour). *)
Theorem C05_ancestors_nodup : forall m anc, NoDup (names m) -> forall d, NoDup (ir_ancestors m anc d).
Proof. exact ancestors_nodup_thm. Qed.
Print Assumptions C05_ancestors_nodup.

Theorem C05_descendants_nodup : forall anc a, NoDup (ir_descendants anc a).
Proof. exact descendants_nodup_thm. Qed.
Print Assumptions C05_descendants_nodup.

Theorem C05_concrete_descendants : forall m anc a d,
  In d (ir_concrete_descendants m anc a) <-> In d (ir_descendants anc a) /\ is_abstract m d = false.
Proof. exact concrete_descendants_thm. Qed.
Print Assumptions C05_concrete_descendants.

(** Non-vacuity: the diamond A; B(A); C(A); D(B,C) is well-formed, accepted, and resolved
    without duplicates; every property is assigned exactly once in D's in-lined constructor. *)
Open Scope string_scope.
Definition mk (n : String.string) (abs : bool) (bases props : list String.string)
           (body : list stmt) (args : list String.string) : cls :=
  {| c_name := s2l n; c_abstract := abs; c_bases := map s2l bases; c_props := map s2l props;
     c_invs := []; c_methods := [];
     c_ctor := Some {| k_args := map s2l args; k_body := body |}; c_wmt := None |}.

Definition diamond : mm :=
  [ mk "A" true [] ["a"] [Assign (s2l "a")] ["a"];
    mk "B" true ["A"] ["b"] [CallSuper (s2l "A"); Assign (s2l "b")] ["a"; "b"];
    mk "C" true ["A"] ["c"] [CallSuper (s2l "A"); Assign (s2l "c")] ["a"; "c"];
    mk "D" false ["B"; "C"] ["d"] [CallSuper (s2l "B"); CallSuper (s2l "C"); Assign (s2l "d")]
       ["a"; "b"; "c"; "d"] ].

Example C05_diamond_resolved :
  match translate prims diamond with
  | Ok r => map i_ancestors (r_classes r) = [[]; [s2l "A"]; [s2l "A"]; [s2l "A"; s2l "B"; s2l "C"]]
            /\ map i_descendants (r_classes r) = [[s2l "B"; s2l "C"; s2l "D"]; [s2l "D"]; [s2l "D"]; []]
            /\ map i_inlined (r_classes r)
               = [[s2l "a"]; [s2l "a"; s2l "b"]; [s2l "a"; s2l "c"]; [s2l "a"; s2l "b"; s2l "c"; s2l "d"]]
            /\ map i_iface (r_classes r) = [Some []; Some [s2l "A"]; Some [s2l "A"]; None]
  | _ => False
  end.
Proof. vm_compute. repeat split; reflexivity. Qed.
Print Assumptions C05_diamond_resolved.

Example C05_diamond_wf : wf prims diamond.
Proof.
  split; [|split].
  - apply nodupb_NoDup. vm_compute. reflexivity.
  - intros cl b Hcl Hb. apply mem_text_In.
    repeat (destruct Hcl as [<-|Hcl]; [vm_compute in Hb; intuition (subst; vm_compute; reflexivity)|]).
    destruct Hcl.
  - exists (fun n => match n with [c] => N.to_nat c | _ => 0 end).
    intros cl b Hcl Hb.
    repeat (destruct Hcl as [<-|Hcl]; [vm_compute in Hb; intuition (subst; vm_compute; auto with arith)|]).
    destruct Hcl.
Qed.
Print Assumptions C05_diamond_wf.
