(** C16 — Regex front end is total and faithful.

    Theorems over the models [Model/RetreeParse.v] / [Model/RetreeRender.v] of
    [parse/retree/_parse.py] and [_render.py], instantiated with the escape tables and
    escape chains regenerated from the source on every run ([Gen/GenRetreeTables.v]).
    This file contains only statements, [exact]s and [Print Assumptions]. *)
From Coq Require Import List NArith Bool.
From Coq Require Strings.String.
Import Coq.Strings.String.StringSyntax.
From Acg Require Import Base.Str Base.Outcome Model.Retree Model.RetreeParse
  Model.RetreeRender Proofs.RetreeTotal Proofs.RetreeWf Proofs.RetreeRoundtrip
  Proofs.RetreeQuant Proofs.RetreeRanges Proofs.RetreeCompose   Gen.GenRetreeTables.
Import ListNotations.
Open Scope N_scope.

Definition T : tables := mkTables gen_lit_simple gen_lit_unsupported gen_lit_assert gen_lit_stop
  gen_rng_simple gen_rng_unsupported gen_esc_lit gen_esc_rng.

(** Generated side conditions. The [\x] / [\u] / [\U] branches of both escape chains
    are the ones the model implements by hand (2, 4, 8 hexadecimal digits; [\U] only
    for the supplementary planes). *)
Definition hex_branches_expected : list (N * nat * option (N * N)) :=
  [(120, 2%nat, None); (117, 4%nat, None); (85, 8%nat, Some (65536, 1114111))].
Definition hex_branch_eqb (a b : N * nat * option (N * N)) : bool :=
  let '(l1, n1, r1) := a in
  let '(l2, n2, r2) := b in
  N.eqb l1 l2 && Nat.eqb n1 n2
  && option_eqb (fun x y => N.eqb (fst x) (fst y) && N.eqb (snd x) (snd y)) r1 r2.

Theorem C16_gen_hex_branches :
  list_eqb hex_branch_eqb gen_lit_hex hex_branches_expected
  && list_eqb hex_branch_eqb gen_rng_hex hex_branches_expected = true.
Proof. vm_compute. reflexivity. Qed.
Print Assumptions C16_gen_hex_branches.

(** Every literal whose branch of [_parse_char_literal] raises [AssertionError] is
    handled by [_parse_concatenation] before that function is called. *)
Theorem C16_gen_assert_literals_intercepted : tables_total_ok T = true.
Proof. vm_compute. reflexivity. Qed.
Print Assumptions C16_gen_assert_literals_intercepted.

(** [parse_total]: parsing never raises — for every pattern string ... *)
Theorem C16_parse_total_string : forall s : text, is_crash (parse_string T s) = false.
Proof. exact (parse_string_total T C16_gen_assert_literals_intercepted). Qed.
Print Assumptions C16_parse_total_string.

(** ... for every list of values that [parse._rules] can build from a string constant
    or an f-string (no two adjacent strings, no empty string before another value) ... *)
Theorem C16_parse_total_values : forall vs : list pvalue,
  values_pre vs = true -> is_crash (parse_values T vs) = false.
Proof. exact (parse_values_total T C16_gen_assert_literals_intercepted). Qed.
Print Assumptions C16_parse_total_values.

(** ... and the precondition / class invariant of [Cursor] is the only way to make
    [parse] raise at all. *)
Theorem C16_parse_crash_iff : forall vs : list pvalue,
  is_crash (parse_values T vs) = negb (values_pre vs).
Proof. exact (parse_values_crash_iff T C16_gen_assert_literals_intercepted). Qed.
Print Assumptions C16_parse_crash_iff.

(** Non-vacuity: the former crash inputs are now reported errors, a pattern with every
    kind of construct parses, and a value list outside the precondition does crash. *)
Example C16_parse_total_nonvacuous :
  map (fun s => outcome_class (parse_string T s))
      [s2l "^*"; s2l "{"; s2l "a*{"; s2l "a{3,2}"; s2l "[--a]"; s2l "[a-b-c]"; s2l "[]";
       s2l "[a-"; s2l "[--]"; s2l "^(a|[^b-d\x41-]{2,3}?)+\.$"]
  = [1; 1; 1; 1; 1; 1; 1; 1; 1; 0]%nat
  /\ is_crash (parse_values T [inl (s2l "a"); inl (s2l "b")]) = true.
Proof. vm_compute. split; reflexivity. Qed.
Print Assumptions C16_parse_total_nonvacuous.

(** [parsed_wf]: every tree the parser returns is well-formed: quantifier bounds are
    ordered, [^] and [$] carry no quantifier, no group is the empty union, every
    character set is non-empty with ordered, pairwise non-overlapping ranges, and a
    complemented set has no bound above U+10000 (the preconditions of [Quantifier] and
    [Term] hold, so [render] and the later passes never see an ill-formed node). *)
Theorem C16_parsed_wf : forall (vs : list pvalue) (t : regex),
  parse_values T vs = Ok t -> wf_regex t = true.
Proof. exact (parse_values_wf T). Qed.
Print Assumptions C16_parsed_wf.

Example C16_parsed_wf_nonvacuous :
  exists t, parse_string T (s2l "^(a{2,3}|[^b-d\x41-]+?)*$") = Ok t /\ wf_regex t = true
            /\ wf_regex [[(VSymbol SymStart, Some (mkQuant false 0 None))]] = false
            /\ wf_regex [[(VCharSet false [mkRange (mkChar 98 false) (Some (mkChar 97 false))], None)]]
               = false.
Proof. eexists. vm_compute. repeat split; reflexivity. Qed.
Print Assumptions C16_parsed_wf_nonvacuous.

(** Generated side conditions for the round trip: every escape of the two renderer
    tables is read back by the corresponding escape chain as the same character, for
    all 256 code points below U+0100 in both positions, encoded and unencoded
    (evaluated on the regenerated tables); and no table mentions a code point from
    U+0100 on. *)
Theorem C16_gen_escapes_roundtrip : all_bits 8 0 (char_rt_all T) = true.
Proof. vm_compute. reflexivity. Qed.
Print Assumptions C16_gen_escapes_roundtrip.

Theorem C16_gen_tables_small : tables_small T = true.
Proof. vm_compute. reflexivity. Qed.
Print Assumptions C16_gen_tables_small.

(** The sub-lemmas of [roundtrip], each for an arbitrary continuation of the input:
    characters in both positions (all code points), decimal bounds, quantifiers, and
    the list of ranges of a character set. *)
Theorem C16_roundtrip_partial_char_literal : forall (c : rchar) (rest : list tok),
  ch_code c <= MAX_CODE -> wf_lit_char T c = true ->
  parse_char_literal T (map C (render_char (esc_lit T) c) ++ rest) = Ok (Some c, rest).
Proof.
  exact (char_literal_roundtrip T C16_gen_escapes_roundtrip C16_gen_tables_small).
Qed.
Print Assumptions C16_roundtrip_partial_char_literal.

Theorem C16_roundtrip_partial_range_char : forall (c : rchar) (rest : list tok),
  ch_code c <= MAX_CODE -> wf_rng_char T c = true ->
  parse_range_char T (map C (render_char (esc_rng T) c) ++ rest) = Ok (c, rest).
Proof.
  exact (range_char_roundtrip T C16_gen_escapes_roundtrip C16_gen_tables_small).
Qed.
Print Assumptions C16_roundtrip_partial_range_char.

(** The arithmetic core of the quantifier round trip: the bounds printed by
    [str(n)] are read back by [try_positive_integer_without_sign] as the same number,
    for every n, whatever non-digit follows ([}] or [,] in a rendered quantifier). *)
Theorem C16_roundtrip_partial_decimal : forall (n : N) (rest : list tok),
  starts_with_digit rest = false -> try_int (map C (dec n) ++ rest) = (Some n, rest).
Proof. exact try_int_dec. Qed.
Print Assumptions C16_roundtrip_partial_decimal.

(** [quantifier_roundtrip]: all seven printed forms ([?] [*] [+] [{n}] [{0,m}] [{n,m}]
    [{n,}], each with the non-greedy mark) are read back as the same quantifier; a greedy
    one must not be followed by [?]. *)
Theorem C16_quantifier_roundtrip : forall (q : quantifier) (rest : list tok),
  wf_quant q = true -> (q_non_greedy q = false -> peek_lit [63] rest = false) ->
  parse_quantifier (map C (render_quantifier q) ++ rest) = Ok (Some q, rest).
Proof. exact quantifier_roundtrip. Qed.
Print Assumptions C16_quantifier_roundtrip.

(** Further generated side condition: every renderer escape starts with a backslash;
    [-], []], [\] are escaped in a set; the parser reads [\^] in a set as a caret; [)]
    stops a concatenation without raising. *)
Theorem C16_gen_tables_rt_ok : tables_rt_ok T = true.
Proof. vm_compute. reflexivity. Qed.
Print Assumptions C16_gen_tables_rt_ok.

(** [ranges_roundtrip]: [_parse_ranges_and_closing] reads back the ranges that
    [transform_char_set] printed (unescaped first / last dash, escaped first caret,
    ranges starting or ending at a dash, a caret or a bracket), for every non-empty list
    of pairwise disjoint ordered ranges over renderable characters. *)
Theorem C16_ranges_roundtrip : forall (compl : bool) (rs : list range) (rest : list tok),
  rs <> [] -> forallb (range_rt_ok T) rs = true -> ranges_disjoint rs = true ->
  parse_ranges_and_closing T (map C (render_ranges T true compl rs ++ [93]) ++ rest)
  = Ok (rs, rest).
Proof.
  exact (ranges_roundtrip T C16_gen_escapes_roundtrip C16_gen_tables_small C16_gen_tables_rt_ok).
Qed.
Print Assumptions C16_ranges_roundtrip.

(** [roundtrip], the full statement: for every tree that is well-formed ([wf_regex], what
    [parsed_wf] guarantees), whose characters are Unicode code points that can be written
    the way they are flagged (everything encoded; unencoded everything but [|] in a
    concatenation; in a set everything), and that is not the single empty concatenation
    [[[]]] (the parser returns the empty union for the empty pattern): re-parsing the
    rendering gives exactly the tree. Hence also the same language, whatever the
    semantics. *)
Theorem C16_roundtrip : forall t : regex,
  wf_rt T t = true -> parse_values T (render_values T t) = Ok t.
Proof.
  exact (roundtrip T C16_gen_escapes_roundtrip C16_gen_tables_small C16_gen_tables_rt_ok).
Qed.
Print Assumptions C16_roundtrip.

(** Non-vacuity of [C16_roundtrip]: the tree of a pattern with every construct is in its
    domain; an unencoded [|], the single empty concatenation and an ill-formed
    quantifier are not. *)
Example C16_roundtrip_domain :
  match parse_string T (s2l "^(\x41|[+^\]a-c!-]{2,}?|\U0001F600*|\{|[\--/][^\^-z])+(|a)[-x].??$") with
  | Ok t => wf_rt T t
  | _ => false
  end = true
  /\ wf_rt T [[(VChar (mkChar 124 false), None)]] = false
  /\ wf_rt T [[]] = false
  /\ wf_rt T [[(VChar (mkChar 97 false), Some (mkQuant false 3 (Some 2)))]] = false
  /\ wf_rt T [] = true.
Proof. vm_compute. repeat split; reflexivity. Qed.
Print Assumptions C16_roundtrip_domain.

(** Non-vacuity: the unencoded characters excluded by [wf_lit_char] are exactly [|]
    among the first 256, and by [wf_rng_char] none; a closing brace round-trips. *)
Example C16_roundtrip_nonvacuous :
  filter (fun c => negb (wf_lit_char T (mkChar c false))) (map N.of_nat (seq 0 256)) = [124]
  /\ filter (fun c => negb (wf_rng_char T (mkChar c false))) (map N.of_nat (seq 0 256)) = []
  /\ render_char (esc_lit T) (mkChar 125 false) = [92; 125]
  /\ parse_string T (render_char (esc_lit T) (mkChar 125 false)) = Ok [[(VChar (mkChar 125 false), None)]].
Proof. vm_compute. repeat split; reflexivity. Qed.
Print Assumptions C16_roundtrip_nonvacuous.

(** The whole round trip on a concrete tree with every construct (evaluation). *)
Example C16_roundtrip_example :
  let s := s2l "^(\x41|[+^\]a-c!-]{2,}?|\U0001F600*|\{)+[^\^x]?\.$" in
  is_ok (parse_string T s) = true
  /\ (do t <- parse_string T s; parse_values T (render_values T t)) = parse_string T s.
Proof. vm_compute. split; reflexivity. Qed.
Print Assumptions C16_roundtrip_example.
