(** Model of the inheritance resolution of the intermediate stage (C05).

    Hand-written model of
      - [intermediate/_hierarchy.py]: [_topologically_sort] (DFS over the name-sorted
        work list), [_UnverifiedOntology.__init__] (ancestors, descendants) and the
        checks of [map_symbol_table_to_ontology];
      - [intermediate/construction.py]: the hierarchy-related acceptance conditions of
        [_call_as_call_to_super_init] / [_understand_assignment];
      - [intermediate/_translate.py]: [_determine_constrained_primitives_by_name],
        [_second_pass_to_resolve_inheritances_in_place],
        [_second_pass_to_resolve_ancestors_and_descendants_in_place],
        [_second_pass_to_stack_{serializations,invariants,properties,methods,
        constructors}_in_place], [_second_pass_to_resolve_interfaces_in_place] and the
        hierarchy-related parts of [_verify].

    The model describes the behaviour WITH the repair work/fixes/C05-diamond-dedup.patch
    (descendants are de-duplicated when they are taken over from the ontology; statements
    in-lined through several parents are taken once; a property assigned twice is a
    reported error).

    Tied to the code by the correspondence stream of [harness/props/c05.py]; the set of
    primitive type names is regenerated from the source ([Gen/GenHierarchy.v]).
    Executable definitions only; no proofs here.

    Conventions. A class is identified by its name ([text]). Python object identity
    ([id(prop)], [id(invariant)], [id(statement)]) is modelled by the pair
    (owning class, index in the owner's own list). The recursion stack of the DFS is the
    set of temporary marks. [Err] = reported error, [Crash] = escaping exception. *)
From Coq Require Import List NArith Bool Arith.
From Acg Require Import Base.Str Base.Outcome.
Import ListNotations.

Open Scope nat_scope.

Definition name := text.

Inductive stmt : Type :=
| CallSuper (s : name)      (* [Parent.__init__(self, ...)] *)
| Assign (p : name).        (* [self.p = p] *)

Record ctor : Type := { k_args : list name; k_body : list stmt }.

(** What the parse stage hands over, restricted to what the hierarchy passes read. *)
Record cls : Type := {
  c_name : name;
  c_abstract : bool;
  c_bases : list name;        (* as written; may name primitive types *)
  c_props : list name;        (* own properties *)
  c_invs : list name;         (* descriptions of the own invariants *)
  c_methods : list name;      (* own methods except [__init__] *)
  c_ctor : option ctor;       (* [__init__] if present: arguments except self, body *)
  c_wmt : option (option bool)
    (* the [serialization] attribute: [None] = no decorator (no [Serialization] object),
       [Some None] = [@serialization()] (object whose [with_model_type] is unset),
       [Some (Some v)] = [@serialization(with_model_type=v)] *)
}.

Definition mm := list cls.    (* classes in declaration order *)

(** [with_model_type] declared by the class itself, if any. *)
Definition decl_wmt (c : cls) : option bool :=
  match c_wmt c with Some (Some v) => Some v | _ => None end.

(** Propagation of the inferred value into a class: a new [Serialization] object if the
    class has none, otherwise the attribute of the existing object is set. *)
Definition set_wmt (cur : option (option (option bool))) (v : bool) : option (option bool) :=
  match cur with
  | Some (Some _) => Some (Some v)     (* our_type.serialization.with_model_type = first.value *)
  | _ => Some (Some v)                 (* our_type.serialization = Serialization(first.value) *)
  end.

(** An object with identity: (owner, index in the owner's list, payload). *)
Definition ident (A : Type) : Type := (name * nat * A)%type.
Definition id_owner {A} (x : ident A) : name := fst (fst x).
Definition id_idx {A} (x : ident A) : nat := snd (fst x).
Definition id_val {A} (x : ident A) : A := snd x.
Definition id_eqb {A} (x y : ident A) : bool :=
  text_eqb (id_owner x) (id_owner y) && Nat.eqb (id_idx x) (id_idx y).

Fixpoint number_from {A} (o : name) (i : nat) (l : list A) : list (ident A) :=
  match l with
  | [] => []
  | x :: r => (o, i, x) :: number_from o (S i) r
  end.
Definition own_ids {A} (o : name) (l : list A) : list (ident A) := number_from o 0 l.

Definition is_nil {A} (l : list A) : bool := match l with [] => true | _ => false end.

Fixpoint nodupb (l : list name) : bool :=
  match l with
  | [] => true
  | x :: r => negb (mem_text x r) && nodupb r
  end.

(** Keep the first occurrence (the [if x not in observed: append; observed.add] idiom). *)
Fixpoint dedup_acc {A} (eqb : A -> A -> bool) (seen : list A) (l : list A) : list A :=
  match l with
  | [] => []
  | x :: r => if existsb (eqb x) seen then dedup_acc eqb seen r
              else x :: dedup_acc eqb (x :: seen) r
  end.
Definition dedup {A} (eqb : A -> A -> bool) (l : list A) : list A := dedup_acc eqb [] l.

Fixpoint fold_o {A B E} (f : A -> B -> outcome A E) (l : list B) (a : A) : outcome A E :=
  match l with
  | [] => Ok a
  | b :: r => match f a b with
              | Ok a' => fold_o f r a'
              | Err e => Err e
              | Crash k => Crash k
              end
  end.

Fixpoint find_class (m : mm) (n : name) : option cls :=
  match m with
  | [] => None
  | c :: r => if text_eqb (c_name c) n then Some c else find_class r n
  end.

Definition names (m : mm) : list name := map c_name m.

Fixpoint index_of (n : name) (l : list name) : option nat :=
  match l with
  | [] => None
  | x :: r => if text_eqb x n then Some 0
              else match index_of n r with Some i => Some (S i) | None => None end
  end.

(** Python [str] comparison: lexicographic on code points. *)
Fixpoint text_ltb (a b : text) : bool :=
  match a, b with
  | [], [] => false
  | [], _ :: _ => true
  | _ :: _, [] => false
  | x :: a', y :: b' =>
      if N.ltb x y then true else if N.eqb x y then text_ltb a' b' else false
  end.

Fixpoint insert_name (x : name) (l : list name) : list name :=
  match l with
  | [] => [x]
  | y :: r => if text_ltb y x then y :: insert_name x r else x :: l
  end.
Definition sort_names (l : list name) : list name := fold_right insert_name [] l.

(** Stable insertion by key ([sorted(parents_with_order, key=lambda item: item[0])]). *)
Fixpoint insert_keyed (x : nat * name) (l : list (nat * name)) : list (nat * name) :=
  match l with
  | [] => [x]
  | y :: r => if Nat.ltb (fst x) (fst y) then x :: l else y :: insert_keyed x r
  end.
Definition sort_keyed (l : list (nat * name)) : list (nat * name) :=
  fold_left (fun acc x => insert_keyed x acc) l [].

Definition amap := list (name * list name).
Fixpoint lookup {A} (k : name) (mp : list (name * A)) : option A :=
  match mp with
  | [] => None
  | (k', v) :: r => if text_eqb k' k then Some v else lookup k r
  end.
Fixpoint update {A} (k : name) (v : A) (mp : list (name * A)) : list (name * A) :=
  match mp with
  | [] => [(k, v)]
  | (k', v') :: r => if text_eqb k' k then (k, v) :: r else (k', v') :: update k v r
  end.

(** Intermediate representation of one class / constrained primitive, as observed. *)
Record cls_ir : Type := {
  i_name : name;
  i_is_cp : bool;
  i_ancestors : list name;
  i_descendants : list name;
  i_concrete_descendants : list name;
  i_props : list (name * name);        (* (name, specified_for) *)
  i_invs : list (name * name);         (* (description, specified_for) *)
  i_methods : list (name * name);      (* (name, specified_for) *)
  i_inlined : list name;               (* assigned property per in-lined statement *)
  i_iface : option (list name);        (* inheritances of the interface, if any *)
  i_wmt : option bool                  (* None for constrained primitives *)
}.

Record ir : Type := { r_classes : list cls_ir; r_topo : list name }.

Section Hierarchy.
  (** [parse.PRIMITIVE_TYPES] (regenerated into Gen/GenHierarchy.v). *)
  Variable prims : list name.

  Definition is_prim (n : name) : bool := mem_text n prims.
  Definition class_bases (c : cls) : list name :=
    filter (fun b => negb (is_prim b)) (c_bases c).
  Definition has_prim_base (c : cls) : bool := existsb is_prim (c_bases c).

  (** * Parse stage: duplicate class names and dangling parents are reported errors
      there ([Duplicate for ...], [A parent of the class ... is dangling]). *)
  Definition parse_ok (m : mm) : bool :=
    nodupb (names m)
    && forallb (fun c => forallb (fun b => mem_text b (names m)) (class_bases c)) m.

  (** * [_topologically_sort]. [path] = temporary marks = the recursion stack,
      [perm] = permanent marks = [result]. A detected cycle is [Err c]. *)
  Fixpoint visit (m : mm) (fuel : nat) (path : list name) (perm : list name) (c : name)
    : outcome (list name) name :=
    match fuel with
    | 0 => Crash OutOfFuel
    | S f =>
        if mem_text c perm then Ok perm
        else if mem_text c path then Err c
        else match find_class m c with
             | None => Crash KeyError          (* must_find_class *)
             | Some cl =>
                 match fold_o (visit m f (c :: path)) (class_bases cl) perm with
                 | Ok perm' => Ok (perm' ++ [c])
                 | Err e => Err e
                 | Crash k => Crash k
                 end
             end
    end.

  (** The [while len(without_permanent_marks) > 0] loop always takes the smallest
      unmarked name: that is a left-to-right pass over the sorted names in which
      marked ones are skipped (the first test of [visit]). *)
  Definition topo_sort (m : mm) : outcome (list name) name :=
    fold_o (visit m (S (length m)) []) (sort_names (names m)) [].

  (** * [_UnverifiedOntology.__init__]: ancestors (with one entry per path). *)
  Definition onto_step (m : mm) (order : list name) (acc : amap) (c : name)
    : outcome amap name :=
    match find_class m c with
    | None => Crash KeyError
    | Some cl =>
        if has_prim_base cl then
          if Nat.eqb (length (c_bases cl)) 1 then Ok (acc ++ [(c, [])])
          else Crash AssertionError
        else
          match fold_o (fun ps b => match index_of b order with
                                    | Some i => Ok (ps ++ [(i, b)])
                                    | None => Crash KeyError
                                    end) (c_bases cl) [] with
          | Ok pwo =>
              match fold_o (fun ca (ip : nat * name) =>
                              match lookup (snd ip) acc with
                              | Some pa => Ok (ca ++ pa ++ [snd ip])
                              | None => Crash AssertionError
                              end) (sort_keyed pwo) [] with
              | Ok ca => Ok (acc ++ [(c, ca)])
              | Err e => Err e
              | Crash k => Crash k
              end
          | Err e => Err e
          | Crash k => Crash k
          end
    end.

  Definition onto_ancestors (m : mm) (order : list name) : outcome amap name :=
    fold_o (onto_step m order) order [].

  (** [descendants_of[ancestor].append(cls)] for every entry of every ancestor list. *)
  Definition onto_descendants (anc : amap) (a : name) : list name :=
    flat_map (fun e => map (fun _ => fst e) (filter (text_eqb a) (snd e))) anc.

  Definition anc_of (anc : amap) (c : name) : list name :=
    match lookup c anc with Some l => l | None => [] end.

  (** * Checks of [map_symbol_table_to_ontology] (all reported errors). *)
  Definition props_of (m : mm) (n : name) : list name :=
    match find_class m n with Some c => c_props c | None => [] end.
  Definition methods_of (m : mm) (n : name) : list name :=
    match find_class m n with Some c => c_methods c | None => [] end.

  Definition ontology_conflict (m : mm) (anc : amap) (c : cls) : bool :=
    let ancs := anc_of anc (c_name c) in
    existsb (fun p => mem_text p (flat_map (props_of m) ancs)) (c_props c)
    (* the same property name declared by two different ancestors (the ontology lists an
       ancestor once per path: the same ancestor seen again is no conflict) *)
    || negb (nodupb (flat_map (props_of m) (dedup text_eqb ancs)))
    || existsb (fun q => mem_text q (flat_map (methods_of m) ancs)) (c_methods c)
    || match c_ctor c with
       | Some _ => false
       | None => existsb (fun a => match find_class m a with
                                   | Some ac => match c_ctor ac with
                                                | Some k => negb (is_nil (k_args k))
                                                | None => false
                                                end
                                   | None => false
                                   end) ancs
       end.

  (** * [construction.understand_all], hierarchy-related conditions. *)
  Definition ctor_understood (m : mm) (c : cls) : bool :=
    match c_ctor c with
    | None => true
    | Some k =>
        forallb (fun s => match s with
                          | Assign p => mem_text p (c_props c) && mem_text p (k_args k)
                          | CallSuper s =>
                              mem_text s (c_bases c)
                              && match find_class m s with
                                 | Some sc => match c_ctor sc with
                                              | Some sk => forallb (fun a => mem_text a (k_args k))
                                                                   (k_args sk)
                                              | None => false
                                              end
                                 | None => false
                                 end
                          end) (k_body k)
    end.

  (** * [_determine_constrained_primitives_by_name]. *)
  Definition is_initial_cp (m : mm) (n : name) : bool :=
    match find_class m n with Some c => has_prim_base c | None => false end.
  Definition prim_of (m : mm) (n : name) : name :=
    match find_class m n with
    | Some c => match c_bases c with b :: _ => b | [] => [] end
    | None => []
    end.
  Definition initial_ancestors (m : mm) (anc : amap) (n : name) : list name :=
    filter (is_initial_cp m) (anc_of anc n).
  Definition is_cp (m : mm) (anc : amap) (n : name) : bool :=
    is_initial_cp m n || negb (is_nil (initial_ancestors m anc n)).

  Definition cp_error (m : mm) (anc : amap) (c : cls) : bool :=
    let n := c_name c in
    (* initial with further inheritances *)
    (has_prim_base c && negb (Nat.eqb (length (c_bases c)) 1))
    (* two ancestors constrain different primitives *)
    || match initial_ancestors m anc n with
       | [] => false
       | a :: r => existsb (fun a' => negb (text_eqb (prim_of m a) (prim_of m a'))) r
       end
    (* extended: inherits from something that is not a constrained primitive *)
    || (negb (has_prim_base c) && is_cp m anc n
        && existsb (fun b => negb (is_cp m anc b)) (c_bases c)).

  (** The errors of the last region of that function (properties, methods, serialization
      settings, [@abstract] on a constrained primitive) are collected but never returned.
      What happens instead, in the first pass of [translate] (declaration order): an
      abstract one fails [assert isinstance(parsed_our_type, parse.ConcreteClass)]
      wherever it stands; properties or methods (the constructor included) are reported by
      [_to_constrained_primitive] and the translation stops after the first pass;
      serialization settings are silently ignored. *)
  Definition first_pass_abstract (m : mm) (anc : amap) : bool :=
    existsb (fun c => is_cp m anc (c_name c) && c_abstract c) m.
  Definition first_pass_error (m : mm) (anc : amap) : bool :=
    existsb (fun c => is_cp m anc (c_name c)
                      && (negb (is_nil (c_props c)) || negb (is_nil (c_methods c))
                          || match c_ctor c with Some _ => true | None => false end)) m.

  (** * Second passes. *)

  (** [_second_pass_to_resolve_ancestors_and_descendants_in_place] (repaired: the
      duplicates of the ontology's list are skipped). *)
  Definition ir_descendants (anc : amap) (a : name) : list name :=
    dedup text_eqb (onto_descendants anc a).
  (** ancestors are collected by inverting the descendants, in declaration order *)
  Definition ir_ancestors (m : mm) (anc : amap) (d : name) : list name :=
    filter (fun a => mem_text d (ir_descendants anc a)) (names m).
  Definition is_abstract (m : mm) (n : name) : bool :=
    match find_class m n with Some c => c_abstract c | None => false end.
  Definition ir_concrete_descendants (m : mm) (anc : amap) (a : name) : list name :=
    filter (fun d => negb (is_abstract m d)) (ir_descendants anc a).

  (** [_second_pass_to_stack_serializations_in_place]: state = setting per class and
      the error flag. *)
  Definition ser_step (m : mm) (anc : amap)
             (st : list (name * option (option bool)) * bool) (n : name)
    : list (name * option (option bool)) * bool :=
    let '(smap, err) := st in
    if is_cp m anc n then st else
    match find_class m n with
    | None => st
    | Some c =>
        let get := fun x => match lookup x smap with Some (Some (Some v)) => [v] | _ => [] end in
        let wmts := flat_map get (c_bases c) ++ get n in
        match wmts with
        | [] => st
        | first :: rest =>
            if forallb (Bool.eqb first) rest
            then (update n (set_wmt (lookup n smap) first) smap, err)
            else (smap, true)
        end
    end.
  Definition stack_serializations (m : mm) (anc : amap) (order : list name)
    : list (name * option (option bool)) * bool :=
    fold_left (ser_step m anc) order (map (fun c => (c_name c, c_wmt c)) m, false).
  (** the second loop: a missing object or an unset attribute becomes [False] *)
  Definition final_wmt (smap : list (name * option (option bool))) (n : name) : bool :=
    match lookup n smap with Some (Some (Some v)) => v | _ => false end.

  (** Generic stacking with de-duplication by identity
      ([_second_pass_to_stack_invariants_in_place], [..._properties_in_place]). *)
  Definition stack_step {A} (m : mm) (skip : name -> bool)
             (st : list (name * list (ident A))) (n : name) : list (name * list (ident A)) :=
    if skip n then st else
    match find_class m n with
    | None => st
    | Some c =>
        let inherited :=
          dedup id_eqb (flat_map (fun b => match lookup b st with Some l => l | None => [] end)
                                 (class_bases c)) in
        let own := match lookup n st with Some l => l | None => [] end in
        update n (inherited ++ own) st
    end.
  Definition stack_ids {A} (m : mm) (skip : name -> bool) (own : cls -> list A)
             (order : list name) : list (name * list (ident A)) :=
    fold_left (stack_step m skip) order (map (fun c => (c_name c, own_ids (c_name c) (own c))) m).

  Definition stack_invariants (m : mm) (order : list name) :=
    stack_ids m (fun _ => false) c_invs order.
  Definition stack_properties (m : mm) (anc : amap) (order : list name) :=
    stack_ids m (is_cp m anc) c_props order.

  (** [_set_properties] pre-condition "No duplicate properties". *)
  Definition props_violation (m : mm) (anc : amap) (pmap : list (name * list (ident name))) : bool :=
    existsb (fun c => negb (is_cp m anc (c_name c))
                      && negb (nodupb (map id_val (match lookup (c_name c) pmap with
                                                   | Some l => l | None => [] end)))) m.

  (** [_second_pass_to_stack_methods_in_place]: state = methods per class, error flag. *)
  Fixpoint inherit_methods (ms : list (ident name)) (seen : list name) (inh : list (ident name))
           (err : bool) : list (ident name) * list name * bool :=
    match ms with
    | [] => (inh, seen, err)
    | x :: r => if mem_text (id_val x) seen then inherit_methods r seen inh true
                else inherit_methods r (id_val x :: seen) (inh ++ [x]) err
    end.
  Definition methods_step (m : mm) (anc : amap)
             (st : list (name * list (ident name)) * bool) (n : name) :=
    let '(mmap, err) := st in
    if is_cp m anc n then st else
    match find_class m n with
    | None => st
    | Some c =>
        let '(inh, seen, err1) :=
          fold_left (fun acc b =>
                       let '(inh, seen, e) := acc in
                       inherit_methods (match lookup b mmap with Some l => l | None => [] end)
                                       seen inh e)
                    (c_bases c) ([], [], err) in
        let own := match lookup n mmap with Some l => l | None => [] end in
        if existsb (fun x => mem_text (id_val x) seen) own then (mmap, true)
        else (update n (inh ++ own) mmap, err1)
    end.
  Definition stack_methods (m : mm) (anc : amap) (order : list name) :=
    fold_left (methods_step m anc) order
              (map (fun c => (c_name c, own_ids (c_name c) (c_methods c))) m, false).

  (** [_second_pass_to_stack_constructors_in_place] (iterates in DECLARATION order;
      repaired: statements in-lined through several parents are taken once, a property
      assigned more than once is an error). State: in-lined statements per class
      (initially empty), error flag. *)
  Definition is_assign (s : stmt) : bool := match s with Assign _ => true | _ => false end.
  Definition stmt_prop (s : stmt) : name := match s with Assign p => p | CallSuper s => s end.

  Fixpoint inline_body (m : mm) (anc : amap) (c : cls) (kmap : list (name * list (ident stmt)))
           (body : list (ident stmt)) (acc : list (ident stmt)) (err : bool)
    : outcome (list (ident stmt) * bool) name :=
    match body with
    | [] => Ok (acc, err)
    | s :: r =>
        match id_val s with
        | CallSuper sup =>
            match find_class m sup with
            | None => Crash AssertionError           (* assert isinstance(ancestor, ...) *)
            | Some _ =>
                if is_cp m anc sup then Crash AssertionError
                else if negb (mem_text sup (c_bases c)) then inline_body m anc c kmap r acc true
                else
                  let sup_inl := match lookup sup kmap with Some l => l | None => [] end in
                  if negb (forallb (fun x => is_assign (id_val x)) sup_inl)
                  then Crash AssertionError
                  else inline_body m anc c kmap r
                         (acc ++ filter (fun x => negb (existsb (id_eqb x) acc))
                                        (dedup id_eqb sup_inl)) err
            end
        | Assign _ => inline_body m anc c kmap r (acc ++ [s]) err
        end
    end.

  Definition ctor_step (m : mm) (anc : amap)
             (st : list (name * list (ident stmt)) * bool) (c : cls)
    : outcome (list (name * list (ident stmt)) * bool) name :=
    let '(kmap, err) := st in
    if is_cp m anc (c_name c) then Ok st else
    let body := match c_ctor c with Some k => own_ids (c_name c) (k_body k) | None => [] end in
    match inline_body m anc c kmap body [] err with
    | Ok (inls, err1) =>
        if negb (forallb (fun x => is_assign (id_val x)) inls) then Crash AssertionError
        else
          let err2 := err1 || negb (nodupb (map (fun x => stmt_prop (id_val x)) inls)) in
          Ok (update (c_name c) inls kmap, err2)
    | Err e => Err e
    | Crash k => Crash k
    end.
  Definition stack_constructors (m : mm) (anc : amap) :=
    fold_o (ctor_step m anc) m (map (fun c => (c_name c, @nil (ident stmt))) m, false).

  (** [_second_pass_to_resolve_interfaces_in_place] (ontology order). State: per class
      [None] = placeholder, [Some None] = no interface, [Some (Some inh)] = interface. *)
  Definition iface_step (m : mm) (anc : amap)
             (st : list (name * option (list name))) (n : name)
    : outcome (list (name * option (list name))) name :=
    if is_cp m anc n then Ok st else
    match find_class m n with
    | None => Crash KeyError
    | Some c =>
        if c_abstract c || negb (is_nil (onto_descendants anc n)) then
          if forallb (fun b => match lookup b st with Some (Some _) => true | _ => false end)
                     (c_bases c)
          then Ok (st ++ [(n, Some (c_bases c))])
          else Crash AssertionError
        else Ok (st ++ [(n, None)])
    end.
  Definition resolve_interfaces (m : mm) (anc : amap) (order : list name) :=
    fold_o (iface_step m anc) order [].

  (** * Hierarchy-related parts of [_verify]. *)
  Definition lk {A} (n : name) (mp : list (name * list A)) : list A :=
    match lookup n mp with Some l => l | None => [] end.

  (** [_verify_all_properties_are_initialized_in_the_constructor]:
      [Crash] for its assertion, [true] if it reports an error. *)
  Definition verify_initialized (m : mm) (anc : amap)
             (pmap : list (name * list (ident name))) (kmap : list (name * list (ident stmt)))
    : outcome bool name :=
    fold_o (fun err c =>
              if is_cp m anc (c_name c) then Ok err else
              let ps := map id_val (lk (c_name c) pmap) in
              let assigned := map (fun x => stmt_prop (id_val x)) (lk (c_name c) kmap) in
              if negb (forallb (fun a => mem_text a ps) assigned) then Crash AssertionError
              else Ok (err || negb (forallb (fun p => mem_text p assigned) ps)))
           m false.

  (** [_verify_constructor_arguments_and_properties_match] for constructors without
      default values and with arguments typed like the properties. *)
  Definition verify_args (m : mm) (anc : amap) (pmap : list (name * list (ident name))) : bool :=
    existsb (fun c =>
               negb (is_cp m anc (c_name c))
               && let ps := map id_val (lk (c_name c) pmap) in
                  let args := match c_ctor c with Some k => k_args k | None => [] end in
                  negb (list_eqb text_eqb args ps)) m.

  (** [_verify_invariant_descriptions_unique]. *)
  Definition verify_invs (m : mm) (imap : list (name * list (ident name))) : bool :=
    existsb (fun c => negb (nodupb (map id_val (lk (c_name c) imap)))) m.

  Definition pair_owner (x : ident name) : name * name := (id_val x, id_owner x).

  (** * The whole pipeline, phases in the order of [intermediate.translate]. *)
  Definition translate (m : mm) : outcome ir name :=
    if negb (parse_ok m) then Err [] else
    match topo_sort m with
    | Err e => Err e
    | Crash k => Crash k
    | Ok order =>
    match onto_ancestors m order with
    | Err e => Err e
    | Crash k => Crash k
    | Ok anc =>
    if existsb (ontology_conflict m anc) m then Err [] else
    if negb (forallb (ctor_understood m) m) then Err [] else
    (* every error path of [_determine_constrained_primitives_by_name] trips over its own
       post-condition, which looks up the reported errors ([result[1]]) as class names:
       [must_find_class(<Error>)] raises KeyError *)
    if existsb (cp_error m anc) m then Crash KeyError else
    if first_pass_abstract m anc then Crash AssertionError else
    if first_pass_error m anc then Err [] else
    (* _set_inheritances: "No duplicate inheritances" *)
    if existsb (fun c => negb (nodupb (class_bases c))) m then Crash Violation else
    let '(smap, ser_err) := stack_serializations m anc order in
    let imap := stack_invariants m order in
    let pmap := stack_properties m anc order in
    if props_violation m anc pmap then Crash Violation else
    let '(mmap, meth_err) := stack_methods m anc order in
    match stack_constructors m anc with
    | Err e => Err e
    | Crash k => Crash k
    | Ok (kmap, ctor_err) =>
    if ser_err || meth_err || ctor_err then Err [] else
    match resolve_interfaces m anc order with
    | Err e => Err e
    | Crash k => Crash k
    | Ok imap_if =>
    match verify_initialized m anc pmap kmap with
    | Err e => Err e
    | Crash k => Crash k
    | Ok init_err =>
    if init_err then Err [] else
    if verify_args m anc pmap then Err [] else
    if verify_invs m imap then Err [] else
    Ok {| r_topo := order;
          r_classes :=
            map (fun c =>
                   let n := c_name c in
                   let cp := is_cp m anc n in
                   {| i_name := n;
                      i_is_cp := cp;
                      i_ancestors := ir_ancestors m anc n;
                      i_descendants := ir_descendants anc n;
                      i_concrete_descendants :=
                        if cp then [] else ir_concrete_descendants m anc n;
                      i_props := map pair_owner (lk n pmap);
                      i_invs := map pair_owner (lk n imap);
                      i_methods := map pair_owner (lk n mmap);
                      i_inlined := map (fun x => stmt_prop (id_val x)) (lk n kmap);
                      i_iface := match lookup n imap_if with Some (Some l) => Some l | _ => None end;
                      i_wmt := if cp then None else Some (final_wmt smap n) |}) m |}
    end end end end end.

End Hierarchy.

(** Comparison of the observed intermediate representation (correspondence runner). *)
Definition pair_eqb (a b : name * name) : bool := text_eqb (fst a) (fst b) && text_eqb (snd a) (snd b).
Definition cls_ir_eqb (a b : cls_ir) : bool :=
  text_eqb (i_name a) (i_name b)
  && Bool.eqb (i_is_cp a) (i_is_cp b)
  && list_eqb text_eqb (i_ancestors a) (i_ancestors b)
  && list_eqb text_eqb (i_descendants a) (i_descendants b)
  && list_eqb text_eqb (i_concrete_descendants a) (i_concrete_descendants b)
  && list_eqb pair_eqb (i_props a) (i_props b)
  && list_eqb pair_eqb (i_invs a) (i_invs b)
  && list_eqb pair_eqb (i_methods a) (i_methods b)
  && list_eqb text_eqb (i_inlined a) (i_inlined b)
  && option_eqb (list_eqb text_eqb) (i_iface a) (i_iface b)
  && option_eqb Bool.eqb (i_wmt a) (i_wmt b).
Definition ir_eqb (a b : ir) : bool :=
  list_eqb cls_ir_eqb (r_classes a) (r_classes b) && list_eqb text_eqb (r_topo a) (r_topo b).

(** Observed outcome of the implementation: 0 = Ok ir, 1 = reported error, 2 = crash. *)
Inductive observed : Type := ObsOk (r : ir) | ObsErr | ObsCrash (k : crash_kind).
Definition agrees (o : outcome ir name) (w : observed) : bool :=
  match o, w with
  | Ok r, ObsOk r' => ir_eqb r r'
  | Err _, ObsErr => true
  | Crash k, ObsCrash k' => crash_kind_eqb k k'
  | _, _ => false
  end.
