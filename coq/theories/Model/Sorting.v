(** Order normalisation as used by the generators (C22): Python's [sorted] on strings
    ([sorted(definitions_mapping.keys())], [sorted(literal.value ...)], sorted parents in
    the ontology) and stable sorting by a string key ([element_list.sort(key=name)]).
    Python compares [str] lexicographically by code point. Executable definitions only. *)
From Coq Require Import List NArith Bool.
From Acg Require Import Base.Str.
Import ListNotations.

(** Lexicographic order on code-point lists = Python's [<=] on [str]. *)
Fixpoint text_leb (a b : text) : bool :=
  match a, b with
  | [], _ => true
  | _ :: _, [] => false
  | x :: a', y :: b' => if N.ltb x y then true else if N.eqb x y then text_leb a' b' else false
  end.

Section Sort.
  Context {A : Type}.
  Variable leb : A -> A -> bool.

  (** Stable insertion sort; on inputs whose equal-ranking elements are identical it
      computes the same list as any stable sort (Python's timsort in particular). *)
  Fixpoint insert (x : A) (l : list A) : list A :=
    match l with
    | [] => [x]
    | y :: r => if leb x y then x :: l else y :: insert x r
    end.
  Fixpoint isort (l : list A) : list A :=
    match l with
    | [] => []
    | x :: r => insert x (isort r)
    end.
End Sort.

Definition sort_text : list text -> list text := isort text_leb.

Definition sort_by_key {A} (key : A -> text) : list A -> list A :=
  isort (fun x y => text_leb (key x) (key y)).
