(** C08 — Generated Python verification implements the invariants exactly.

    Statements only ([exact] / [vm_compute]); models in [Model/AstRules.v],
    [Model/PyTranspile.v], [Model/VerifySpec.v]; proofs in [Proofs/]. The tables of
    [python/transpilation.py] and [parse/_rules.py] are regenerated from the source on every
    run ([Gen/GenPyTranspile.v]). *)
From Coq Require Import List NArith ZArith Bool.
From Coq Require Strings.String.
Import Coq.Strings.String.StringSyntax.
From Acg Require Import Base.Str Base.Outcome Model.Tree Model.PyEval Model.AstRules
  Model.PyTranspileKinds Model.PyTranspile Model.PyTranspileRename Model.VerifySpec Model.Wrap
  Proofs.AstRulesFacts Proofs.PyTranspileFacts Proofs.VerifySpecFacts Proofs.WrapFacts Gen.GenPyTranspile Gen.GenWrap.
Import ListNotations.
Local Open Scope nat_scope.

(** ** Generated side conditions (tie T) *)

(** The rules are tried in the order the model follows. *)
Theorem C08_gen_chain_of_rules :
  list_eqb rule_eqb chain_of_rules modelled_chain = true.
Proof. vm_compute. reflexivity. Qed.
Print Assumptions C08_gen_chain_of_rules.

(** The comparator table of the rules is the one of the model ([cmpop_of]), the quantifier
    names are [any]/[all], an implication has exactly two operands. *)
Theorem C08_gen_rule_tables :
  forallb (fun oc => match cmpop_of (fst oc) with
                     | Some o => cmpop_eqb o (snd oc)
                     | None => false
                     end) ast_comparator_to_ours
  && Nat.eqb (length ast_comparator_to_ours) 6
  && forallb (fun c => match cmpop_of c with
                       | Some _ => existsb (fun oc => pcmp_eqb (fst oc) c) ast_comparator_to_ours
                       | None => true
                       end) [CLt; CLe; CGt; CGe; CEq; CNe; CIs; CIsNot; CIn; CNotIn]
  && forallb (fun n => match is_any_all n with Some _ => true | None => false end) any_all_names
  && Nat.eqb (length any_all_names) 2
  && Nat.eqb implication_arity 2 = true.
Proof. vm_compute. reflexivity. Qed.
Print Assumptions C08_gen_rule_tables.

(** [_PYTHON_COMPARISON_MAP] writes every comparator as the Python operator of the same
    meaning: the target operator of [op], read back by Python, is [op]. *)
Theorem C08_gen_comparison_map_sound :
  forallb (fun op => match cmp_target gen_ptables op with
                     | Ok c => match cmpop_of c with Some o => cmpop_eqb o op | None => false end
                     | _ => false
                     end) [Lt; Le; Gt; Ge; Eq; Ne] = true.
Proof. vm_compute. reflexivity. Qed.
Print Assumptions C08_gen_comparison_map_sound.

(** Every kind that is written without parentheses is atomic or (in conjunctions and
    disjunctions only) a comparison: no [no_parentheses_types] tuple contains a Boolean
    connective, an arithmetic operation, a nullness test, a membership test or an
    implication. *)
Definition atomic_kind (k : nk) : bool :=
  match k with
  | NkMember | NkName | NkConstant | NkIndex | NkFunctionCall | NkMethodCall => true
  | _ => false
  end.

Theorem C08_gen_no_paren_tables_atomic :
  forallb (forallb atomic_kind)
    [np_index gen_ptables; np_comparison gen_ptables; np_is_in gen_ptables;
     np_implication gen_ptables; np_method_call gen_ptables; np_is_none gen_ptables;
     np_is_not_none gen_ptables; np_not gen_ptables; np_add_sub gen_ptables;
     np_any_all gen_ptables; np_top gen_ptables]
  && forallb (fun k => atomic_kind k || nk_eqb k NkComparison) (np_and_or gen_ptables)
  && negb (nk_in NkConstant (np_method_call gen_ptables)) = true.
Proof. vm_compute. reflexivity. Qed.
Print Assumptions C08_gen_no_paren_tables_atomic.

(** ** The rules of [parse/_rules.py] *)

(** Every Python expression that the (repaired) rules accept is read into a tree that has,
    in every environment, the Python value of the expression — or raises the same exception. *)
Theorem C08_ast_rules_sound :
  forall a e, ast_to_tree true a = Ok e -> forall r fuel, eval r e fuel = eval_py r a fuel.
Proof. exact ast_rules_sound. Qed.
Print Assumptions C08_ast_rules_sound.

(** The rules as found (filters of comprehensions ignored) do not have this property:
    [all(x > 0 for x in xs if x != -1)] on [xs = [-1]] is [True] in Python, [False] for the tree. *)
Theorem C08_ast_rules_unpatched_refuted :
  exists a e r fuel, ast_to_tree false a = Ok e /\ eval r e fuel <> eval_py r a fuel.
Proof. exact ast_rules_unpatched_refuted. Qed.
Print Assumptions C08_ast_rules_unpatched_refuted.

(** The repaired rules never accept a filtered comprehension. *)
Theorem C08_ast_rules_strict_rejects_filters :
  forall id elt tgt it c ifs nkw e, is_any_all id <> None ->
  ast_to_tree true (PCall (PName id) [PGeneratorExp elt [(tgt, it, c :: ifs)]] nkw) <> Ok e.
Proof. exact ast_rules_strict_rejects_filters. Qed.
Print Assumptions C08_ast_rules_strict_rejects_filters.

(** Whatever the repaired rules accept, the rules as found read in the same way. *)
Theorem C08_ast_to_tree_strict_agrees :
  forall a e, ast_to_tree true a = Ok e -> ast_to_tree false a = Ok e.
Proof. exact ast_to_tree_strict_agrees. Qed.
Print Assumptions C08_ast_to_tree_strict_agrees.

(** Non-vacuity: [not a or all(x < 3 for x in range(0, n))] is accepted and evaluates both ways. *)
Example C08_ast_rules_nonvacuous :
  is_ok (ast_to_tree true nv_ast) = true
  /\ eval_py (nv_env 3) nv_ast 10 = Val (VBool true)
  /\ eval_py (nv_env 5) nv_ast 10 = Val (VBool false).
Proof. vm_compute. repeat split; reflexivity. Qed.
Print Assumptions C08_ast_rules_nonvacuous.

(** ** The transpiler [python/transpilation.py]

    [Model/PyTranspile.v] is tied to the code by the structural correspondence (its target AST
    without parentheses equals Python's parse of the real output, its token list equals the
    real tokens) and the tables regenerated from the source ([gen_ptables]). The target
    expression is evaluated by [eval_py] (parentheses are transparent). *)

(** Soundness, for ALL expressions, environments and fuels, values AND raised exceptions:
    in every SDK environment [r'] that corresponds to the meta-model environment [r]
    ([env_rel]: [that] holds the renamed value of [self], [aas_constants]/[aas_types] hold the
    constants/enumerations, functions and loop variables are bound under their SDK names, the
    implementation-specific functions commute with the renaming), the expression written by
    the transpiler evaluates to the renamed result of the invariant. Side conditions: the
    naming functions are injective ([naming_ok], property C21) and the naming table of [G] is
    their graph; names of [G] are of one kind; no SDK name of a function or loop variable is
    [range]; the loop variables of [e] do not capture [that], the modules, a function or
    [len] ([var_ok]). *)
Theorem C08_transpile_sound :
  forall nm G e e' r r' fuel,
    naming_ok nm -> ctx_ok nm G ->
    (forall x, In x (bvars e) -> var_ok nm G x) ->
    env_rel nm G r r' ->
    transpile gen_ptables G e = Ok e' ->
    eval_py r' e' fuel = ren_result nm (eval r e fuel).
Proof.
  intros nm G e e' r r' fuel Hok. apply transpile_sound; [exact Hok|]. vm_compute. reflexivity.
Qed.
Print Assumptions C08_transpile_sound.

(** With the SDK keeping the identifiers of the meta-model ([nm_id]) the SDK environment is
    computed ([rename]: [that] := [self], the two modules) and the statement is a plain
    equation — this also shows that the hypotheses of [C08_transpile_sound] are satisfiable. *)
Theorem C08_transpile_sound_rename :
  forall G e e' r fuel,
    ctx_ok nm_id G -> (forall x, In x (bvars e) -> var_ok nm_id G x) -> env_fits G r ->
    transpile gen_ptables G e = Ok e' ->
    eval_py (rename G r) e' fuel = eval r e fuel.
Proof.
  intros G e e' r fuel. apply transpile_sound_rename. vm_compute. reflexivity.
Qed.
Print Assumptions C08_transpile_sound_rename.

(** The generated [if not (<expr>):] fires iff the invariant is falsy, and raises iff it raises. *)
Theorem C08_transpile_condition_sound :
  forall nm G e c r r' fuel,
    naming_ok nm -> ctx_ok nm G ->
    (forall x, In x (bvars e) -> var_ok nm G x) ->
    env_rel nm G r r' ->
    transpile_condition gen_ptables G e = Ok c ->
    eval_py r' c fuel = match eval r e fuel with
                        | Val w => Val (VBool (negb (truthy w)))
                        | Raise x => Raise x
                        end.
Proof.
  intros nm G e c r r' fuel Hok. apply transpile_condition_sound; [exact Hok|]. vm_compute. reflexivity.
Qed.
Print Assumptions C08_transpile_condition_sound.

(** The side condition on loop variables is necessary: the code as found writes a loop
    variable called [that] as [that] and captures the instance under verification (the
    repaired [transform_name] reports an error instead, as the model does). *)
Example C08_transpile_rejects_that :
  forallb (fun v => match transpile_name (mkTyenv [] [v] [] [] [] [] [(NVar, v, v)] [(s2l "self", s2l "that")] true) v with
                    | Err _ => true | _ => false end)
          [s2l "that"; s2l "aas_types"; s2l "aas_constants"] = true.
Proof. vm_compute. reflexivity. Qed.
Print Assumptions C08_transpile_rejects_that.

(** Name resolution order (both transpilers): local variables, then the arguments of the
    function, then constants, verification functions, enumerations. An argument called like a
    constant is read as the argument. *)
Example C08_argument_shadows_global :
  let G := mkTyenv [] [] [s2l "limit"] [(s2l "limit", TyOther)] [(s2l "limit", [])] []
                   [(NConst, s2l "limit", s2l "LIMIT"); (NFn, s2l "limit", s2l "limit")]
                   [(s2l "limit", s2l "limit")] false in
  transpile_name G (s2l "limit") = Ok (PName (s2l "limit")) /\
  transpile_name (mkTyenv [] [] (g_consts G) (g_fns G) (g_enums G) [] (g_naming G) [] false) (s2l "limit")
  = Ok (PAttribute (PName (s2l "aas_constants")) (s2l "LIMIT")).
Proof. vm_compute. split; reflexivity. Qed.
Print Assumptions C08_argument_shadows_global.

(** ** The specification of [verify] *)

Theorem C08_verify_spec_exact :
  forall m ev fuel root errs, verify_spec m ev fuel root = VErrors errs ->
  forall d p, In (d, p) errs <->
    exists owner v id, at_path m root p owner v /\ In (id, d) (owner_invs m owner) /\
                       exists w, ev id v = Val w /\ truthy w = false.
Proof. exact verify_spec_exact. Qed.
Print Assumptions C08_verify_spec_exact.

Theorem C08_verify_spec_raises :
  forall m ev fuel root x, verify_spec m ev fuel root = VRaise x ->
  exists owner v id d p, at_path m root p owner v /\ In (id, d) (owner_invs m owner) /\ ev id v = Raise x.
Proof. exact verify_spec_raises. Qed.
Print Assumptions C08_verify_spec_raises.

Theorem C08_verify_spec_no_raise :
  forall m ev fuel root errs, verify_spec m ev fuel root = VErrors errs ->
  forall owner v id d p, at_path m root p owner v -> In (id, d) (owner_invs m owner) ->
  exists w, ev id v = Val w.
Proof. exact verify_spec_no_raise. Qed.
Print Assumptions C08_verify_spec_no_raise.

Theorem C08_verify_spec_fuel :
  forall m ev root, verify_spec m ev (S (value_depth root)) root <> VOutOfFuel.
Proof. exact verify_spec_fuel. Qed.
Print Assumptions C08_verify_spec_fuel.

(** ** The description is written verbatim *)

(** [_transpile_invariant] writes the description as the concatenation of the literals
    [wrap_text_into_lines(description)]; their concatenation is the description (C27). *)
Theorem C08_wrap_preserves_description :
  forall (w : Z) (d : text),
    concat (wrap (nth 0 article_tuples []) (nth 1 article_tuples []) w d) = d.
Proof. exact (wrap_concat (nth 0 article_tuples []) (nth 1 article_tuples [])). Qed.
Print Assumptions C08_wrap_preserves_description.
