"""Generators for C21: identifiers, and small meta-models with engineered near-collisions
(abstract spec -> meta-model source text; the Coq term is printed from the abstract
meta-model that the real front end reports back, see harness/impl/naming.py)."""
from __future__ import annotations

import itertools
from typing import Any, Dict, List, Optional

from harness.lib import coq_bool, coq_list
from harness.lib import coq_text as _coq_text_numbers


def coq_text(s: str) -> str:
    """Text term; ASCII identifier-like texts are printed as a string literal under
    [s2l] (one token instead of one numeral per character: coqc parses it much faster)."""
    if all(c.isascii() and (c.isalnum() or c == "_") for c in s):
        return f'(s2l "{s}")'
    return _coq_text_numbers(s)

# keys of Model/Naming.v:naming_table, same order
NAMING_KEYS = [
    "naming.lower_snake_case", "naming.upper_snake_case", "naming.lower_camel_case",
    "naming.capitalized_camel_case", "naming.json_property", "naming.json_model_type",
    "naming.xml_class_name", "naming.xml_property",
    "cpp.interface_name", "cpp.enum_name", "cpp.enum_literal_name", "cpp.class_name",
    "cpp.getter_name", "cpp.mutable_getter_name", "cpp.setter_name",
    "cpp.private_property_name", "cpp.method_name", "cpp.function_name",
    "cpp.argument_name", "cpp.variable_name", "cpp.constant_name",
    "csharp.interface_name", "csharp.enum_name", "csharp.enum_literal_name",
    "csharp.class_name", "csharp.property_name", "csharp.private_property_name",
    "csharp.private_method_name", "csharp.method_name", "csharp.argument_name",
    "csharp.variable_name",
    "golang.capital_camel_case", "golang._lower_camel_case", "golang.interface_name",
    "golang.enum_name", "golang.private_struct_name", "golang.struct_name",
    "golang.getter_name", "golang.setter_name", "golang.property_name",
    "golang.private_property_name", "golang.private_method_name", "golang.method_name",
    "golang.function_name", "golang.private_function_name", "golang.argument_name",
    "golang.variable_name", "golang.constant_name", "golang.private_constant_name",
    "java.interface_name", "java.enum_name", "java.enum_literal_name", "java.class_name",
    "java.property_name", "java.private_property_name", "java.private_method_name",
    "java.method_name", "java.argument_name", "java.variable_name", "java.getter_name",
    "java.setter_name",
    "python.enum_name", "python.class_name", "python.enum_literal_name",
    "python.private_constant_name", "python.constant_name", "python.private_class_name",
    "python.property_name", "python.private_property_name", "python.private_method_name",
    "python.private_function_name", "python.function_name", "python.method_name",
    "python.argument_name", "python.variable_name",
    "typescript.enum_name", "typescript.class_name", "typescript.enum_literal_name",
    "typescript.constant_name", "typescript.interface_name", "typescript.property_name",
    "typescript.function_name", "typescript.method_name", "typescript.argument_name",
    "typescript.variable_name",
    "xsd.type_name", "xsd.group_name", "xsd.choice_group_name",
]
# functions of the naming modules that are not one-identifier conversions; every other
# function found in the modules must be in NAMING_KEYS (fail closed)
NAMING_EXCLUDED = {
    "csharp.name_of", "java.name_of", "python.name_of", "typescript.name_of",
    "golang._capitalize_or_leave_abbreviation", "golang._over_potential_receivers",
    "golang.enum_literal_name", "golang.receiver_name",
}

TARGETS = ["cpp", "csharp", "golang", "java", "python", "typescript"]
COQ_TARGET = {"cpp": "Cpp", "csharp": "Csharp", "golang": "Golang", "java": "Java",
              "python": "Python", "typescript": "Typescript"}


def is_identifier(s: str) -> bool:
    return (len(s) > 0 and (s[0].isascii() and (s[0].isalpha() or s[0] == "_"))
            and all(c.isascii() and (c.isalnum() or c == "_") for c in s))


def small_identifiers(maxlen: int, alphabet: str = "aB_1") -> List[str]:
    out = []
    for n in range(1, maxlen + 1):
        for tup in itertools.product(alphabet, repeat=n):
            s = "".join(tup)
            if is_identifier(s):
                out.append(s)
    return out


def random_identifiers(rng, n: int) -> List[str]:
    words = ["a", "B", "ab", "Ab", "aB", "AB", "URL", "id", "ID", "IDs", "x1", "1", "12", "X",
             "type", "set", "get", "mutable", "I", "k", "foo", "Foo", "FOO", "fOO", "z", "Z9",
             "IEC", "61360", "to", "", "", "_"]
    out = []
    while len(out) < n:
        k = rng.choice([1, 2, 2, 3, 3, 4, 5, 7])
        s = "_".join(rng.choice(words) for _ in range(k))
        if rng.random() < 0.1:
            s = "".join(rng.choice("abzABZ_019") for _ in range(rng.randint(5, 12)))
        if is_identifier(s):
            out.append(s)
    return out


# ------------------------------------------------------------------------------------
# meta-models
# ------------------------------------------------------------------------------------
MEMBER_FAMILIES = [
    ["a_b", "a__b", "aB", "A_b", "A_B", "a_B", "ab", "_a_b", "a_b_", "AB", "Ab", "_ab"],
    ["foo_bar", "foo_Bar", "fooBar", "foobar", "foo__bar", "Foo_bar", "FOO_BAR", "foo_bar_",
     "_foo_bar", "foo_BAR"],
    ["x", "set_x", "get_x", "X", "x_", "_x", "set_X", "Set_x", "setX", "getX", "x1", "x_1"],
    ["id_short", "ID_short", "idShort", "id_Short", "id__short", "IDs", "ids", "i_ds", "ID_s"],
    ["a1", "a_1", "A1", "A_1", "a1_", "a", "A", "_a", "a_", "_A"],
    ["url_to", "URL_to", "Url_to", "urlTo", "url_To", "url_TO", "URL_TO", "u_rl_to"],
]
TYPE_FAMILIES = [
    ["Foo_bar", "Foo_Bar", "FooBar", "Foobar", "Foo__bar", "FOO_bar", "Foo_bar_", "FOO_BAR",
     "Foo_BAR", "foo_bar", "_Foo_bar"],
    ["A_b", "A_B", "AB", "Ab", "A__b", "A_b_", "a_b", "A_1", "A1", "A"],
    ["Ifoo", "IFoo", "Foo", "i_foo", "I", "FOO", "I_", "Foo_", "F_oo", "If_oo"],
    ["E_A", "E_a", "EA", "E", "E_", "Ea", "E__A", "E_A_b", "E_Ab"],
    ["Data_type_IEC", "Data_type_Iec", "DataTypeIec", "Data_Type_IEC", "Datatype_iec",
     "Data_type_IEC_61360", "Data_type_IEC61360", "Data_type_Iec_61360"],
]
FILLER_MEMBERS = ["size", "value", "name", "kind", "text", "level", "count", "first", "second"]
FILLER_TYPES = ["Something", "Another", "Third_thing", "Fourth"]


def _pick(rng, family, fillers, k, p_family=0.8):
    out = []
    tries = 0
    while len(out) < k and tries < 50:
        tries += 1
        n = rng.choice(family) if rng.random() < p_family else rng.choice(fillers)
        if n not in out:
            out.append(n)
    return out


def gen_spec(rng) -> Dict[str, Any]:
    mf = rng.choice(MEMBER_FAMILIES)
    tf = rng.choice(TYPE_FAMILIES)
    n_enums = rng.choice([0, 1, 1, 2])
    n_classes = rng.choice([1, 1, 2, 3, 4])
    type_names = [n for n in _pick(rng, tf, FILLER_TYPES, n_enums + n_classes,
                                    rng.choice([0.2, 0.5, 0.9])) if not n.startswith("I_")
                  or rng.random() < 0.1]
    n_enums = min(n_enums, max(0, len(type_names) - 1))
    enums = []
    for name in type_names[:n_enums]:
        lits = _pick(rng, rng.choice([mf, tf]), FILLER_MEMBERS, rng.choice([1, 2, 3, 4]),
                     rng.choice([0.5, 0.9]))
        enums.append({"name": name, "lits": lits})
    classes = []
    for name in type_names[n_enums:]:
        parent = None
        if classes and rng.random() < 0.4:
            parent = rng.choice(classes)["name"]
        inherited = set()
        p = parent
        while p is not None:
            pc = next(c for c in classes if c["name"] == p)
            inherited.update(pc["props"])
            inherited.update(pc["methods"])
            p = pc["parent"]
        pf = rng.choice([0.2, 0.5, 0.9])
        members = [m for m in _pick(rng, mf, FILLER_MEMBERS, rng.choice([0, 1, 2, 2, 3, 4]), pf)
                   if m not in inherited]
        n_meth = 0 if not members else rng.choice([0, 0, 0, 1, 1, 2])
        n_meth = min(n_meth, len(members))
        methods = members[:n_meth]
        props = members[n_meth:]
        classes.append({"name": name, "abstract": rng.random() < 0.3, "parent": parent,
                        "props": props, "methods": methods})
    # a class with descendants is an interface anyway; abstractness only matters for leaves
    consts = [n for n in _pick(rng, rng.choice([mf, tf]), ["Some_constant", "Other"],
                               rng.choice([0, 0, 1, 2, 3])) if n not in type_names]
    funcs = [n for n in _pick(rng, mf, ["is_valid", "check_it"], rng.choice([0, 0, 1, 2, 3]))
             if n not in type_names and n not in consts]
    if rng.random() < 0.15:
        cons = [{"name": n} for n in _pick(rng, tf, FILLER_TYPES, 1)
                if n not in type_names and n not in consts and n not in funcs]
    else:
        cons = []
    order = rng.random() < 0.5   # enums first or classes first in the source
    return {"enums": enums, "classes": classes, "consts": consts, "funcs": funcs,
            "cons": cons, "enums_first": order}


def all_props(spec, cls):
    """Constructor arguments: inherited properties first."""
    chain = []
    c = cls
    while c is not None:
        chain.append(c)
        c = next((k for k in spec["classes"] if k["name"] == c["parent"]), None)
    out = []
    for k in reversed(chain):
        out.extend(k["props"])
    return out


def spec_to_source(spec) -> str:
    lines: List[str] = []
    if spec["enums"]:
        lines.append("from enum import Enum")
    enum_blocks = []
    for e in spec["enums"]:
        b = [f"class {e['name']}(Enum):"]
        for i, l in enumerate(e["lits"]):
            b.append(f"    {l} = 'v{i}'")
        enum_blocks.append("\n".join(b))
    cons_blocks = []
    for c in spec.get("cons", []):
        cons_blocks.append(f"class {c['name']}(str, DBC):\n    pass")
    class_blocks = []
    for c in spec["classes"]:
        b = []
        if c["abstract"]:
            b.append("@abstract")
        head = f"class {c['name']}" + (f"({c['parent']})" if c["parent"] else "") + ":"
        b.append(head)
        for p in c["props"]:
            b.append(f"    {p}: int")
        parent = next((k for k in spec["classes"] if k["name"] == c["parent"]), None)
        args = all_props(spec, c)
        if args:
            b.append("    def __init__(self, " + ", ".join(f"{a}: int" for a in args) + ") -> None:")
            if parent is not None:
                pargs = all_props(spec, parent)
                if pargs:
                    b.append(f"        {parent['name']}.__init__(self, " + ", ".join(pargs) + ")")
            for p in c["props"]:
                b.append(f"        self.{p} = {p}")
            if parent is None or not all_props(spec, parent):
                if not c["props"]:
                    b.append("        pass")
        for m in c["methods"]:
            b.append("    @implementation_specific")
            b.append(f"    def {m}(self) -> int:")
            b.append("        pass")
        if len(b) == (2 if c["abstract"] else 1):
            b.append("    pass")
        class_blocks.append("\n".join(b))
    const_blocks = [f"{n}: int = constant_int(value={i})" for i, n in enumerate(spec["consts"])]
    func_blocks = [f"@verification\ndef {n}(x: int) -> bool:\n    return x > {i}"
                   for i, n in enumerate(spec["funcs"])]
    body = (enum_blocks + cons_blocks + class_blocks) if spec["enums_first"] \
        else (cons_blocks + class_blocks + enum_blocks)
    # classes must be defined before their descendants: class_blocks keep the order
    lines += const_blocks + func_blocks + body
    lines.append('__version__ = "dummy"')
    lines.append('__xml_namespace__ = "https://dummy.com"')
    return "\n\n".join(lines) + "\n"


def shrink_candidates(spec):
    """Specs with one component removed."""
    out = []
    for i in range(len(spec["enums"])):
        s = _copy(spec); del s["enums"][i]; out.append(s)
        for j in range(len(spec["enums"][i]["lits"])):
            if len(spec["enums"][i]["lits"]) > 1:
                s = _copy(spec); del s["enums"][i]["lits"][j]; out.append(s)
    for i, c in enumerate(spec["classes"]):
        if not any(k["parent"] == c["name"] for k in spec["classes"]):
            s = _copy(spec); del s["classes"][i]; out.append(s)
        for j in range(len(c["props"])):
            s = _copy(spec); del s["classes"][i]["props"][j]; out.append(s)
        for j in range(len(c["methods"])):
            s = _copy(spec); del s["classes"][i]["methods"][j]; out.append(s)
        if c["parent"] is not None:
            s = _copy(spec); s["classes"][i]["parent"] = None; out.append(s)
    for key in ("consts", "funcs", "cons"):
        for j in range(len(spec.get(key, []))):
            s = _copy(spec); del s[key][j]; out.append(s)
    return out


def _copy(spec):
    import copy
    return copy.deepcopy(spec)


# ------------------------------------------------------------------------------------
# Coq printers
# ------------------------------------------------------------------------------------
def coq_mm(mm: Dict[str, Any]) -> str:
    types = []
    for t in mm["types"]:
        if t["kind"] == "enum":
            types.append(f"OEnum (Build_enum_t {coq_text(t['name'])} "
                         f"{coq_list(coq_text(l) for l in t['lits'])})")
        elif t["kind"] == "cons":
            types.append(f"OCons {coq_text(t['name'])}")
        else:
            types.append(f"OClass (Build_class_t {coq_text(t['name'])} {coq_bool(t['abstract'])} "
                         f"{coq_list(coq_text(p) for p in t['props'])} "
                         f"{coq_list(coq_text(m) for m in t['methods'])})")
    return (f"(Build_mm {coq_list(types)} {coq_list(coq_text(c) for c in mm['consts'])} "
            f"{coq_list(coq_text(f) for f in mm['funcs'])})")


CRASH = {"ViolationError": "Violation", "AssertionError": "AssertionError",
         "IndexError": "IndexError", "KeyError": "KeyError", "TypeError": "TypeError",
         "ValueError": "ValueError", "NotImplementedError": "NotImplementedError",
         "RecursionError": "RecursionError"}


def coq_name_outcome(o: Dict[str, Any]) -> str:
    if "ok" in o:
        return f"(Ok {coq_text(o['ok'])})"
    return f"(Crash {CRASH.get(o['exc'], 'OutOfFuel')})"


def coq_verdict(v: Dict[str, Any]) -> str:
    if "ok" in v:
        return "(Ok tt)"
    if "err" in v:
        return f"(Err {int(v['err'])}%nat)"
    return f"(Crash {CRASH.get(v['exc'], 'OutOfFuel')})"
