"""Regenerate coq/theories/Gen/*.v from the current source tree (tie T, DESIGN §2.3).

Each translator module in harness/translate exposes ``GEN_FILES``: a dict mapping a
Gen file stem (e.g. ``GenWrap``) to a function returning the Coq text. A translator
fails closed: any exception removes the Gen file (so every theorem stated over it stops
compiling) and is reported as a broken tie.
"""
from __future__ import annotations

import importlib
import pkgutil
import traceback
from typing import Any, Dict

from harness import lib
from harness import translate as _pkg

GEN_DIR = lib.THEORIES / "Gen"


def regenerate() -> Dict[str, Any]:
    GEN_DIR.mkdir(parents=True, exist_ok=True)
    report = {"items": [], "failures": [], "changed": []}
    for info in sorted(pkgutil.iter_modules(_pkg.__path__), key=lambda i: i.name):
        mod = importlib.import_module(f"harness.translate.{info.name}")
        for stem, fn in sorted(getattr(mod, "GEN_FILES", {}).items()):
            path = GEN_DIR / f"{stem}.v"
            try:
                text = fn()
            except Exception as e:  # fail closed
                report["failures"].append((stem, f"{e}\n{traceback.format_exc()[-1500:]}"))
                if path.exists():
                    path.unlink()
                    report["changed"].append(stem)
                continue
            banner = (f"(* GENERATED on every run by harness/translate/{info.name}.py from the "
                      f"sources under the repository. Do not edit. *)\n")
            with lib.BuildLock():
                if lib.write_if_changed(path, banner + text):
                    report["changed"].append(stem)
            report["items"].append(stem)
    return report


if __name__ == "__main__":
    r = regenerate()
    print(r)
