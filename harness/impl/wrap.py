"""Adapter: run common.wrap_text_into_lines of the tree under test. JSON stdin -> stdout."""
import json
import sys

from aas_core_codegen.common import wrap_text_into_lines

cases = json.load(sys.stdin)
out = []
for text, width in cases:
    try:
        if width is None:
            segs = wrap_text_into_lines(text)
        else:
            segs = wrap_text_into_lines(text, width)
        out.append({"ok": segs})
    except BaseException as e:  # noqa
        out.append({"exc": type(e).__name__})
json.dump(out, sys.stdout)
